module verif/tools/mapperm

go 1.23
