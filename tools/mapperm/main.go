// mapperm generates a `go build -overlay` description in which every `range`
// over a map in the Zn packages iterates verifperm.Keys(site, m) instead, so
// that a harness can choose the iteration order (C11 / C19).  Nothing is written
// under /repo.
//
// usage: mapperm -repo /repo -out <dir>   (writes <dir>/overlay.json, rewritten files, sites.json)
package main

import (
	"bytes"
	"encoding/json"
	"flag"
	"fmt"
	"go/ast"
	"go/format"
	"go/importer"
	"go/parser"
	"go/token"
	"go/types"
	"os"
	"path/filepath"
	"sort"
	"strings"
)

type site struct {
	ID   string `json:"id"`
	File string `json:"file"`
	Line int    `json:"line"`
	Expr string `json:"expr"`
}

const permSrc = `// Package verifperm exists only inside the verification overlay: it hands the
// order of every map iteration to the harness.
package verifperm

import (
	"fmt"
	"sort"
)

// Choose is set by the harness: it returns the index of the permutation to use
// for this dynamic occurrence (0 = sorted order).  nPerm is the number of
// alternatives offered for n keys.
var Choose func(site string, n int, nPerm int) int

// Seen records which sites were reached.
var Seen = map[string]int{}

func perms(n int) [][]int {
	id := make([]int, n)
	for i := range id {
		id[i] = i
	}
	if n <= 1 {
		return [][]int{id}
	}
	if n <= 3 {
		var out [][]int
		var rec func(cur []int, used []bool)
		rec = func(cur []int, used []bool) {
			if len(cur) == n {
				out = append(out, append([]int{}, cur...))
				return
			}
			for i := 0; i < n; i++ {
				if !used[i] {
					used[i] = true
					rec(append(cur, i), used)
					used[i] = false
				}
			}
		}
		rec(nil, make([]bool, n))
		return out
	}
	// n >= 4: all rotations and the reversal
	out := [][]int{}
	for r := 0; r < n; r++ {
		p := make([]int, n)
		for i := range p {
			p[i] = (i + r) % n
		}
		out = append(out, p)
	}
	rev := make([]int, n)
	for i := range rev {
		rev[i] = n - 1 - i
	}
	return append(out, rev)
}

// Keys returns the keys of m in the order chosen by the harness.
func Keys[K comparable, V any](site string, m map[K]V) []K {
	keys := make([]K, 0, len(m))
	for k := range m {
		keys = append(keys, k)
	}
	sort.Slice(keys, func(i, j int) bool { return fmt.Sprint(keys[i]) < fmt.Sprint(keys[j]) })
	Seen[site]++
	if Choose == nil || len(keys) < 2 {
		return keys
	}
	ps := perms(len(keys))
	c := Choose(site, len(keys), len(ps))
	if c <= 0 || c >= len(ps) {
		return keys
	}
	out := make([]K, len(keys))
	for i, j := range ps[c] {
		out[i] = keys[j]
	}
	return out
}
`

func main() {
	repo := flag.String("repo", "/repo", "repository root")
	out := flag.String("out", "", "output directory")
	flag.Parse()
	if *out == "" {
		fmt.Fprintln(os.Stderr, "need -out")
		os.Exit(2)
	}
	os.MkdirAll(*out, 0o755)
	pkgs := []string{"pkg/exec", "pkg/value", "pkg/common", "pkg/runtime", "pkg/server", "stdlib/json", "stdlib/file"}
	overlay := map[string]string{}
	var sites []site
	fset := token.NewFileSet()
	os.Chdir(*repo)
	imp := importer.ForCompiler(fset, "source", nil)
	for _, pk := range pkgs {
		dir := filepath.Join(*repo, pk)
		ents, err := os.ReadDir(dir)
		if err != nil {
			continue
		}
		var files []*ast.File
		var names []string
		for _, e := range ents {
			n := e.Name()
			if !strings.HasSuffix(n, ".go") || strings.HasSuffix(n, "_test.go") {
				continue
			}
			if strings.Contains(n, "_windows") || strings.Contains(n, "_darwin") || strings.HasPrefix(n, "verif_") {
				continue
			}
			f, err := parser.ParseFile(fset, filepath.Join(dir, n), nil, parser.ParseComments)
			if err != nil {
				fmt.Fprintln(os.Stderr, "parse:", err)
				os.Exit(1)
			}
			files = append(files, f)
			names = append(names, filepath.Join(dir, n))
		}
		info := &types.Info{Types: map[ast.Expr]types.TypeAndValue{}}
		conf := types.Config{Importer: imp, Error: func(err error) {}}
		conf.Check("github.com/DemoHn/Zn/"+pk, fset, files, info)
		for fi, f := range files {
			changed := false
			ast.Inspect(f, func(n ast.Node) bool {
				rs, ok := n.(*ast.RangeStmt)
				if !ok {
					return true
				}
				tv, ok := info.Types[rs.X]
				if !ok || tv.Type == nil {
					return true
				}
				if _, isMap := tv.Type.Underlying().(*types.Map); !isMap {
					return true
				}
				pos := fset.Position(rs.Pos())
				var xb bytes.Buffer
				format.Node(&xb, fset, rs.X)
				id := fmt.Sprintf("%s:%d", strings.TrimPrefix(pos.Filename, *repo+"/"), pos.Line)
				sites = append(sites, site{ID: id, File: strings.TrimPrefix(pos.Filename, *repo+"/"), Line: pos.Line, Expr: xb.String()})
				// for k, v := range m  ==>  for _, k := range verifperm.Keys(id, m) { v := m[k]; _ = v ...
				keyName := "verifK"
				if rs.Key != nil {
					if idn, ok := rs.Key.(*ast.Ident); ok && idn.Name != "_" {
						keyName = idn.Name
					}
				}
				mapExpr := rs.X
				var pre []ast.Stmt
				if rs.Value != nil {
					if idn, ok := rs.Value.(*ast.Ident); ok && idn.Name != "_" {
						pre = append(pre, &ast.AssignStmt{Lhs: []ast.Expr{ast.NewIdent(idn.Name)}, Tok: token.DEFINE,
							Rhs: []ast.Expr{&ast.IndexExpr{X: mapExpr, Index: ast.NewIdent(keyName)}}})
						pre = append(pre, &ast.AssignStmt{Lhs: []ast.Expr{ast.NewIdent("_")}, Tok: token.ASSIGN, Rhs: []ast.Expr{ast.NewIdent(idn.Name)}})
					}
				}
				pre = append(pre, &ast.AssignStmt{Lhs: []ast.Expr{ast.NewIdent("_")}, Tok: token.ASSIGN, Rhs: []ast.Expr{ast.NewIdent(keyName)}})
				rs.Key = ast.NewIdent("_")
				rs.Value = ast.NewIdent(keyName)
				rs.Tok = token.DEFINE
				rs.X = &ast.CallExpr{Fun: &ast.SelectorExpr{X: ast.NewIdent("verifperm"), Sel: ast.NewIdent("Keys")},
					Args: []ast.Expr{&ast.BasicLit{Kind: token.STRING, Value: fmt.Sprintf("%q", id)}, mapExpr}}
				rs.Body.List = append(pre, rs.Body.List...)
				changed = true
				return true
			})
			if changed {
				// add the import
				f.Decls = append([]ast.Decl{&ast.GenDecl{Tok: token.IMPORT, Specs: []ast.Spec{
					&ast.ImportSpec{Path: &ast.BasicLit{Kind: token.STRING, Value: `"github.com/DemoHn/Zn/pkg/verifperm"`}}}}}, f.Decls...)
				var buf bytes.Buffer
				if err := format.Node(&buf, fset, f); err != nil {
					fmt.Fprintln(os.Stderr, "format:", err)
					os.Exit(1)
				}
				dst := filepath.Join(*out, strings.ReplaceAll(strings.TrimPrefix(names[fi], *repo+"/"), "/", "__"))
				os.WriteFile(dst, buf.Bytes(), 0o644)
				overlay[names[fi]] = dst
			}
		}
	}
	permFile := filepath.Join(*out, "verifperm.go")
	os.WriteFile(permFile, []byte(permSrc), 0o644)
	overlay[filepath.Join(*repo, "pkg/verifperm/verifperm.go")] = permFile
	sort.Slice(sites, func(i, j int) bool { return sites[i].ID < sites[j].ID })
	ob, _ := json.MarshalIndent(map[string]any{"Replace": overlay}, "", " ")
	os.WriteFile(filepath.Join(*out, "overlay.json"), ob, 0o644)
	sb, _ := json.MarshalIndent(sites, "", " ")
	os.WriteFile(filepath.Join(*out, "sites.json"), sb, 0o644)
	fmt.Printf("mapperm: %d range-over-map sites in %d files\n", len(sites), len(overlay)-1)
}
