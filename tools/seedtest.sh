#!/bin/bash
# usage: seedtest.sh <ID> <k> [tier] [check-id ...]
# Confirms a seeded change produced by an independent sub-agent (/tmp/seed-<ID>-out/patch<k>.diff)
# entirely inside the agent's scratch worktree /tmp/seed-<ID> (so several can run at once and
# /repo is never touched):
#  1. tests pass with the change, demo fails with it and passes without it;
#  2. the check of <ID> (or the named checks) is run in scratch mode against the changed worktree.
ID="$1"; K="$2"; TIER="${3:-quick}"; shift; shift; shift
CHECKS="$@"; [ -z "$CHECKS" ] && CHECKS="$ID"
OUT=/tmp/seed-$ID-out; WT=/tmp/seed-$ID
P=$OUT/patch$K.diff
export GOFLAGS=-mod=mod GOPROXY=off GOSUMDB=off GOTOOLCHAIN=local
[ -f "$P" ] || { echo "no patch $P"; exit 2; }
cd $WT && git checkout -q -- . && { git apply "$P" 2>/dev/null || git apply -3 "$P"; } || { echo "patch does not apply in worktree"; git checkout -q -- .; git reset -q; exit 2; }
git reset -q 2>/dev/null
echo "--- repo tests with the change:"
go test -vet=off -count=1 ./pkg/exec/ ./pkg/io/ ./pkg/runtime/ ./pkg/syntax/... ./pkg/value/ 2>&1 | grep -v "no test files" | tr '\n' ' '; echo
echo "--- demo with the change (must FAIL):"
( cd $OUT/demo$K && timeout 300 bash ./run.sh 2>&1 | tail -3 ); echo "demo exit=$?"
for c in $CHECKS; do
  echo "--- check $c $TIER against the changed worktree:"
  VERIF_SCRATCH_REPO=$WT VERIF_SCRATCH_OUT=/tmp/scr-$ID /verif/check $c $TIER 2>&1 | grep -a -E "^(VIOLATION|KNOWN|BUILD|C[0-9]+ (quick|thorough)|  kind)" | cut -c1-400 | head -8
done
git checkout -q -- .
echo "--- demo without the change (must PASS):"
( cd $OUT/demo$K && timeout 300 bash ./run.sh 2>&1 | tail -2 ); echo "demo exit=$?"
rm -rf /tmp/scr-$ID/bin /tmp/scr-$ID/.run
