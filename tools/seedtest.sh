#!/bin/bash
# usage: seedtest.sh <ID> <k> [tier]
# Confirms a seeded change produced by an independent sub-agent (/tmp/seed-<ID>-out/patch<k>.diff):
#  1. in the agent's scratch worktree: tests pass with the change, demo fails with it and passes without it;
#  2. applies it to /repo, runs the check of <ID>, undoes it.
ID="$1"; K="$2"; TIER="${3:-quick}"
OUT=/tmp/seed-$ID-out; WT=/tmp/seed-$ID
P=$OUT/patch$K.diff
export GOFLAGS=-mod=mod GOPROXY=off GOSUMDB=off GOTOOLCHAIN=local
[ -f "$P" ] || { echo "no patch $P"; exit 2; }
cd $WT && git checkout -q -- . && { git apply "$P" 2>/dev/null || git apply -3 "$P"; } || { echo "patch does not apply in worktree"; exit 2; }
git reset -q 2>/dev/null
echo "--- repo tests with the change:"
go test -vet=off -count=1 ./pkg/exec/ ./pkg/io/ ./pkg/runtime/ ./pkg/syntax/... ./pkg/value/ 2>&1 | grep -v "no test files" | tr '\n' ' '; echo
echo "--- demo with the change (must FAIL):"
( cd $OUT/demo$K && timeout 300 bash ./run.sh 2>&1 | tail -3 ); echo "demo exit=$?"
git checkout -q -- .
echo "--- demo without the change (must PASS):"
( cd $OUT/demo$K && timeout 300 bash ./run.sh 2>&1 | tail -2 ); echo "demo exit=$?"
cd /repo && git diff --quiet || { echo "/repo dirty"; exit 2; }
{ git apply "$P" 2>/dev/null || git apply -3 "$P"; } || { echo "patch does not apply to /repo"; git checkout -q -- .; exit 2; }
git reset -q 2>/dev/null
echo "--- check $ID $TIER with the change applied to /repo:"
/verif/check $ID $TIER 2>&1 | grep -a -E "^(VIOLATION|KNOWN|BUILD|C[0-9]+ (quick|thorough))" | head -6
git checkout -- . ; git status --short | head -3
