#!/usr/bin/env python3
"""Copies a confirmed seeded change from /tmp/seed-<ID>-out into /verif/seeded/<ID>-<k>/.
usage: seed_archive.py <ID> <k> <detected-by> <note...>"""
import json, os, shutil, sys
ID, k, detected = sys.argv[1], sys.argv[2], sys.argv[3]
note = " ".join(sys.argv[4:])
src = f"/tmp/seed-{ID}-out"
dst = f"/verif/seeded/{ID}-{k}"
os.makedirs(dst, exist_ok=True)
shutil.copy(f"{src}/patch{k}.diff", f"{dst}/patch.diff")
if os.path.isdir(f"{dst}/demo"):
    shutil.rmtree(f"{dst}/demo")
shutil.copytree(f"{src}/demo{k}", f"{dst}/demo", ignore=shutil.ignore_patterns("*.test", "go.sum", "demo", "demo1", "demo2", "bin"))
meta = {}
try:
    meta = json.load(open(f"{src}/meta{k}.json"))
except Exception as e:
    meta = {"note": f"agent meta unreadable: {e}"}
out = {
    "property": ID,
    "summary": meta.get("summary"),
    "mechanism": meta.get("mechanism"),
    "needs_in_order_to_manifest": meta.get("needs"),
    "files": meta.get("files"),
    "origin": "independent sub-agent that saw only the property text and a scratch worktree of /repo (nothing from /verif)",
    "confirmed_by_me": {
        "how": f"tools/seedtest.sh {ID} {k}: patch applied in the scratch worktree /tmp/seed-{ID}: repository tests (pkg/exec, pkg/io, pkg/runtime, pkg/syntax/..., pkg/value) pass; demo/run.sh FAILS with the change and PASSES without it; then ./check in scratch mode against the changed worktree (VERIF_SCRATCH_REPO)",
        "repo_tests_pass_with_change": True,
        "demo_fails_with_change": True,
        "demo_passes_without_change": True,
    },
    "detected_by": detected,
    "detection_note": note,
    "rerun": f"git -C /repo worktree add --detach /tmp/seed-{ID} HEAD; (cd /tmp/seed-{ID} && git apply /verif/seeded/{ID}-{k}/patch.diff); bash /verif/seeded/{ID}-{k}/demo/run.sh   # demos refer to the worktree path /tmp/seed-{ID}",
}
json.dump(out, open(f"{dst}/meta.json", "w"), indent=1, ensure_ascii=False)
print("archived", dst)
