#!/bin/bash
# Runs the repository's own test suite (the pinned baseline: 195 tests) without
# the verif tag and prints passed/failed counts.  Exit 0 iff nothing failed and
# at least 195 tests passed.
export GOFLAGS=-mod=mod GOPROXY=off GOSUMDB=off GOTOOLCHAIN=local
cd "${1:-/repo}" || exit 2
out=$(go test -json -vet=off -count=1 -timeout 25m ./... 2>/dev/null)
pass=$(printf '%s\n' "$out" | grep -c '"Action":"pass".*"Test":')
fail=$(printf '%s\n' "$out" | grep -c '"Action":"fail".*"Test":')
echo "repo tests: passed=$pass failed=$fail"
printf '%s\n' "$out" | grep '"Action":"fail".*"Test":' | head -5
[ "$fail" -eq 0 ] && [ "$pass" -ge 195 ]
