#!/usr/bin/env python3
"""Regenerates /verif/MANIFEST.json from the table below (single source of truth)."""
import json, os
V = "/verif"
# id -> (level, technique, level text, level note, design ref)
CHECKS = {
 "C13": ("exploration",
         "bounded exhaustive enumeration (E1) of literal bodies against a reference decoder",
         "Every literal body up to the length bound over the critical alphabet, in all five quote families, is lexed by the real lexer and compared with a reference decoder; every text up to the bound is round-tripped through three canonical encoders. Exhaustive below the bound, no sampling.",
         "Trusted: the reference decoder (from manual ch.1/ch.6); bodies beyond the bound and symbols outside the alphabet are not covered.",
         "DESIGN.md §4 C13"),
}
CHECKS.update({
 "C01": ("exploration",
         "bounded exhaustive enumeration (E1) of expression trees against a reference evaluator",
         "Every binary expression tree up to the node bound over all operator spellings and a boundary-value leaf pool is executed by the real interpreter (two renderings each) and compared bit-exactly with a reference evaluator; traced families observe operand evaluation order and short-circuiting. Exhaustive below the bound.",
         "Trusted: Go float64 arithmetic and the reference evaluator; depth above the bound and doubles outside the pool are not covered.",
         "DESIGN.md §4 C01"),
 "C02": ("exploration",
         "bounded exhaustive enumeration (E1, rank/unrank) of statement trees against a reference interpreter",
         "Every statement tree up to the node bound (nesting <= 3) over branches, both loop kinds, break/continue/输出 and expression statements runs as program body and as method body with a trace planted at every position; result and ordered trace must equal the reference interpreter's.",
         "Trusted: the reference interpreter (manual ch.7/8). Trees above the bound are not covered.",
         "DESIGN.md §4 C02"),
 "C03": ("exploration",
         "bounded exhaustive AST enumeration (E1) x deviation-bounded layout DFS (E3) against the parser",
         "Every statement tree up to the node bound over all 14 statement kinds, every program-section combination and every expression form in every slot is rendered under every layout vector with at most d deviations from the default layout; the dumped parser tree must equal the generator's tree. Every single-token corruption of every default rendering must be rejected or yield a complete tree.",
         "Trusted: the harness renderer's reading of the manual's layout rules and the tree dumper. ASTs above the bound and layouts with more than d simultaneous deviations are not covered.",
         "DESIGN.md §4 C03"),
 "C05": ("exploration",
         "bounded exhaustive enumeration (E1) of symbol sequences and of all single/double mutations of a corpus",
         "Every symbol sequence up to the length bound over a 34-symbol hostile alphabet and every truncation/deletion/duplication/insertion of every corpus program is compiled: it must terminate, return a tree xor a positioned SyntaxError, returned trees must be complete and the rendered error must quote a line of the source.",
         "Trusted: hang watchdog (20 s vs microseconds), completeness walker. Longer inputs and symbols outside the alphabet are not covered.",
         "DESIGN.md §4 C05"),
 "C06": ("model_checking",
         "explicit-state BFS over symbol-table histories replayed on fresh real VMs (E2) + bounded exhaustive program enumeration (E1)",
         "Breadth-first search over all begin/end/declare/declare-const/assign histories on the real symbol table up to the length bound, each state rebuilt by replaying its history on a fresh runtime.VM and compared (step error codes, both lookups, depth, live symbols) with a stack-of-maps model; plus every statement tree up to the node bound over 17 name actions in 6 block kinds (incl. method calls, handled exceptions, recursion) against the reference interpreter, with scope and call depth required to be back to zero after the run.",
         "Trusted: the stack-of-maps model and the reference interpreter (lexical block scoping as the property states). Runs that depend on dynamic scoping are skipped and counted.",
         "DESIGN.md §4 C06"),
 "C07": ("model_checking",
         "explicit-state BFS over copy/assign/mutate histories, each successor re-run on a fresh interpreter (E2), with a sharing probe battery per state",
         "Breadth-first search over all histories (up to the length bound) of declarations, assignments, element/key assignments and mutating methods on three names from four nested initial values; after every operation all names are observed structurally on a fresh run of the real interpreter and compared with a heap-of-trees reference; every new state additionally gets a probe battery that mutates through each name at each container position. Literal freshness is checked on 36 programs.",
         "Trusted: the reference interpreter's copy semantics (deep copy on declaration/assignment, objects shared). By-reference argument passing is carved out.",
         "DESIGN.md §4 C07"),
 "C12": ("model_checking",
         "explicit-state BFS over list/dictionary operation histories with a full observation battery after every operation (E2)",
         "Breadth-first search over all histories (up to the length bound) of list and dictionary operations from three initial states; after every operation value, display text, length, ends, reversal, membership, guarded reads around the bounds, iteration order, key/value lists, keyed reads and generated JSON are compared between a fresh run of the real interpreter and a slice / ordered-map reference.",
         "Trusted: the slice / ordered-map reference model. Histories beyond the bound are not covered.",
         "DESIGN.md §4 C12"),
 "C08": ("exploration",
         "bounded exhaustive enumeration (E1, rank/unrank) of call/object programs against a reference interpreter",
         "Every program of m statements whose expressions range over all call/object expressions up to the depth bound (27 forms: arities, mismatches, recursion, two instances, constructor, 其, nested and failing nested calls, chains, unknown members) with traced leaves is executed and compared with the reference interpreter on ordered trace and error-ness; both instances are observed at the end.",
         "Trusted: the reference interpreter (manual ch.8). Deeper expressions / longer programs are not covered.",
         "DESIGN.md §4 C08"),
 "C09": ("exploration",
         "bounded exhaustive enumeration (E1) of the raise-kind x site x depth x handler-placement product with state probes, against a reference interpreter",
         "Every combination of raise kind (7), raise site (6), call depth, handler placement per level (4 each), handler body (3), receiver kind and module boundary is generated as a program with follow-up probes after the handled call (caller locals, caller's 其, a callee local that must be gone, a second call, VM call depth and scope depth) and compared with the reference interpreter.",
         "Trusted: the reference interpreter's exception semantics (manual ch.4). Fault message texts are not compared.",
         "DESIGN.md §4 C09"),
 "C14": ("exploration",
         "bounded exhaustive enumeration (E1) of texts x index pairs, templates x argument lists and directives x doubles, Python %-formatting as independent oracle",
         "All texts <= 3 characters over 1-4-byte characters and a combining mark x all index pairs in [-5,5]^2 for 取样 / 长度 / 字符组 / 分隔; every template up to the length bound over 11 symbols x argument lists of length p-1, p, p+1; every directive x precision x boundary double against Python's % formatting.",
         "Trusted: Go utf8, Python 3 % formatting (batch oracle only), the reference template scanner. Undocumented directive combinations only need to be error-or-artefact-free.",
         "DESIGN.md §4 C14"),
 "C17": ("exploration",
         "bounded exhaustive enumeration (E1) of valid texts at every block-boundary alignment / chunking and of invalid byte strings at every position",
         "Every short text over 1-4-byte characters, U+FFFD and BOM with each internal byte boundary on read-block boundaries 4096 and 8192, every Read(n) chunking n in 1..9 and alternating pairs, every byte string <= 2 over all 256 values (<= 3 over structural bytes) inserted at start/middle/boundary/end, every single-byte substitution of a sample, GBK files, and end-to-end runs of corrupted programs: valid => exactly []rune minus one BOM, invalid => error and nothing executed.",
         "Trusted: Go utf8.Valid and []rune conversion.",
         "DESIGN.md §4 C17"),
 "C15": ("exploration",
         "bounded exhaustive enumeration (E1) of all module dependency digraphs on <= 4 files, oracle computed from the graph",
         "Every directed graph with self-loops on up to 4 module files (module 0 the main file) x import order x probe variants is written as real files and executed through LoadFile; a reachable cycle must give circular-dependency error 63, otherwise the exact load order (each body once, dependencies first), the call traces through imported methods and the read-only / not-exported / selective-import probes must match what the graph implies.",
         "Trusted: the graph oracle (DFS reachability/cycle, deterministic load order). More than 4 files and repeated imports in one file are not covered.",
         "DESIGN.md §4 C15"),
 "C04": ("exploration",
         "bounded exhaustive enumeration (E1): all 0x110000 code points, all strings up to the bound over the numeric and keyword-collision alphabets, against reference recognisers",
         "Identifier alphabet: every code point, lookup vs the range table extracted from the current source, and through the lexer. Numeric form: every string up to length L over the recogniser's input classes (and a concrete digit alphabet) against a chapter-5 reference with exact big.Rat rounding. Keyword segmentation: every string up to the bound over three collision alphabets against a chapter-1 reference tokenizer.",
         "Trusted: the reference recognisers written from manual ch.1/ch.5, math/big. Documented-vs-implemented disagreements outside the statement (.12, --123) are dont_care.",
         "DESIGN.md §4 C04"),
 "C11": ("model_checking",
         "stateless deviation-bounded DFS (E3) over hash-map iteration orders injected through a build overlay generated from the current source",
         "Every range-over-map site of the interpreter (found with go/types at check time) is rewritten through go build -overlay into a harness-chosen key order; for each driver program every order vector with at most d non-sorted iterations is executed on the real interpreter and all executions must agree on result, trace and rendered error.",
         "Trusted: the overlay generator (sites it cannot see would be uncontrolled; its inventory is in evidence). Only map order is controlled, the source the statement names.",
         "DESIGN.md §4 C11"),
 "C16": ("model_checking",
         "history search over polluter sequences with a fresh-process differential oracle (E2) + stateless exploration of all interleavings of concurrent requests under a cooperative scheduler (E3)",
         "Sequential: all singles and pairs (triples in thorough) of polluter programs, through a shared interpreter and through fresh ones, followed by a 12-probe vector that must equal the vector of a fresh process. Concurrent: every ordered pair of 11 requests through the real handlers sharing one interpreter under every interleaving of the statement-level scheduling points (triples below a deviation bound); each response must equal the response alone.",
         "Trusted: scheduling points at Execute/statement/显示 granularity (hooks, tag verif); finer races only through the auxiliary -race pass in thorough.",
         "DESIGN.md §4 C16"),
})
NOT_YET = {}
props = [json.loads(l) for l in open(f"{V}/properties.jsonl")]
checks = []
na = []
for p in props:
    i = p["id"]
    if i in CHECKS:
        lvl, tech, text, note, ref = CHECKS[i]
        checks.append({
            "property_id": i,
            "quick_cmd": f"./check {i} quick",
            "thorough_cmd": f"./check {i} thorough",
            "evidence_file": f"/verif/evidence/{i}.json",
            "replay_cmd_template": f"./check {i} --replay {{path}}",
            "engine": "zncheck",
            "level_claimed": {"category": lvl, "text": text, "design_ref": ref},
            "level_note": note,
            "technique": tech,
        })
    else:
        na.append({"property_id": i, "reason": NOT_YET.get(i, "check not built yet in this revision (work in progress; see DESIGN.md §4 for the planned bounded-exhaustive exploration)")})
m = {
 "version": 1,
 "setup_cmd": "./tools/setup.sh",
 "hooks": {
   "guard": "verif",
   "enable": "go build -tags verif (the harness module /verif/engine replaces github.com/DemoHn/Zn with /repo)",
   "baseline_off_cmd": "cd /repo && GOFLAGS=-mod=mod GOPROXY=off GOSUMDB=off go test -json -vet=off -count=1 -timeout 25m ./...",
   "source_commits": [l.strip() for l in open(f"{V}/HOOK_COMMITS.txt")] if os.path.exists(f"{V}/HOOK_COMMITS.txt") else [],
   "add_only": True,
 },
 "engines": [{"name": "zncheck", "path": "/verif/engine", "serves_properties": sorted(CHECKS), "kind_free_text": "hand-written Go explorers: bounded-exhaustive enumerator (E1), explicit-state BFS over operation histories replayed on fresh real objects (E2), stateless deviation-bounded schedule/choice DFS (E3); sharded worker processes, hang watchdog, 5x confirmation, replay files"}],
 "checks": checks,
 "not_applicable": na,
 "notes": "Every check rebuilds the harness from /repo's working tree (./check). Known findings: /verif/KNOWN_FINDINGS.txt.",
}
json.dump(m, open(f"{V}/MANIFEST.json", "w"), indent=1, ensure_ascii=False)
print("checks:", [c["property_id"] for c in checks], "n/a:", len(na))
