#!/usr/bin/env python3
"""Regenerates /verif/MANIFEST.json from the table below (single source of truth)."""
import json, os
V = "/verif"
# id -> (level, technique, level text, level note, design ref)
CHECKS = {
 "C13": ("exploration",
         "bounded exhaustive enumeration (E1) of literal bodies against a reference decoder",
         "Every literal body up to the length bound over the critical alphabet, in all five quote families, is lexed by the real lexer and compared with a reference decoder; every sequence of escape-name words and every backtick text of <= 5 letters of the escape names (all near misses) likewise; every text up to the bound is round-tripped through three canonical encoders. Exhaustive below the bound, no sampling. The lexer must leave its input unchanged and end-to-end cases execute one loaded script twice.",
         "Trusted: the reference decoder (from manual ch.1/ch.6); bodies beyond the bound and symbols outside the alphabet are not covered.",
         "DESIGN.md §4 C13"),
}
CHECKS.update({
 "C01": ("exploration",
         "bounded exhaustive enumeration (E1) of expression trees against a reference evaluator",
         "Every binary expression tree up to the node bound over all operator spellings and a boundary-value leaf pool is executed by the real interpreter (two renderings each) and compared bit-exactly with a reference evaluator; traced families observe operand evaluation order and short-circuiting. Exhaustive below the bound. Every chain of N distinct literals (N up to 300 / 2000) is evaluated twice in one program.",
         "Trusted: Go float64 arithmetic and the reference evaluator; depth above the bound and doubles outside the pool are not covered.",
         "DESIGN.md §4 C01"),
 "C02": ("exploration",
         "bounded exhaustive enumeration (E1, rank/unrank) of statement trees against a reference interpreter",
         "Every statement tree up to the node bound (nesting <= 3) over branches, both loop kinds, break/continue/输出 and expression statements runs as program body and as method body with a trace planted at every position; result and ordered trace must equal the reference interpreter's. Every expression statement is followed by a hoisted definition and the two-variable list loop changes its index in place. A seventh loop kind has a bare flag variable as its whole condition.",
         "Trusted: the reference interpreter (manual ch.7/8). Trees above the bound are not covered.",
         "DESIGN.md §4 C02"),
 "C03": ("exploration",
         "bounded exhaustive AST enumeration (E1) x deviation-bounded layout DFS (E3) against the parser",
         "Every statement tree up to the node bound over all 14 statement kinds, every program-section combination and every expression form in every slot is rendered under every layout vector with at most d deviations from the default layout; the dumped parser tree must equal the generator's tree. Every single-token corruption of every default rendering must be rejected or yield a complete tree. Chains of two and three 以-calls closed by 得到 in expression position and texts with a real line break inside are among the expression forms.",
         "Trusted: the harness renderer's reading of the manual's layout rules and the tree dumper. ASTs above the bound and layouts with more than d simultaneous deviations are not covered.",
         "DESIGN.md §4 C03"),
 "C05": ("exploration",
         "bounded exhaustive enumeration (E1) of symbol sequences and of all single/double mutations of a corpus",
         "Every symbol sequence up to the length bound over a 34-symbol hostile alphabet and every truncation/deletion/duplication/insertion of every corpus program, and every faulty tail behind paddings of every width 0..160 (400) on one long line, is compiled: it must terminate, return a tree xor a positioned SyntaxError, returned trees must be complete and the rendered error must quote a line of the source. Every input-variable text is submitted twice in one process and must be answered alike. Statement headers with operands of the wrong kind in their name slots, and 6 opening constructs nested up to two million deep (the process must survive), are enumerated too.",
         "Trusted: hang watchdog (20 s vs microseconds), completeness walker. Longer inputs and symbols outside the alphabet are not covered.",
         "DESIGN.md §4 C05"),
 "C06": ("model_checking",
         "explicit-state BFS over symbol-table histories replayed on fresh real VMs (E2) + bounded exhaustive program enumeration (E1)",
         "Breadth-first search over all begin/end/declare/declare-const/assign histories on the real symbol table up to the length bound, each state rebuilt by replaying its history on a fresh runtime.VM and compared (step error codes, both lookups, depth, live symbols) with a stack-of-maps model; plus every statement tree up to the node bound over 17 name actions in 6 block kinds (incl. method calls, handled exceptions, recursion) against the reference interpreter, with scope and call depth required to be back to zero after the run. A depth family covers every nesting / recursion depth 1..300 (700).",
         "Trusted: the stack-of-maps model and the reference interpreter (lexical block scoping as the property states). Runs that depend on dynamic scoping are skipped and counted.",
         "DESIGN.md §4 C06"),
 "C07": ("model_checking",
         "explicit-state BFS over copy/assign/mutate histories, each successor re-run on a fresh interpreter (E2), with a sharing probe battery after every transition",
         "Breadth-first search over all histories (up to the length bound) of declarations, assignments, element/key assignments and mutating methods on three names from four nested initial values; after every operation all names are observed structurally on a fresh run of the real interpreter and compared with a heap-of-trees reference; after every transition a probe battery mutates through each name at each container position. Literal freshness is checked on 270 programs (5 literals x 6 in-place changes x 9 contexts). The probe battery runs after every transition (also into a reference state seen before) and every history is also run with one observation at its end; literal sites are executed repeatedly with their values stored without a copy.",
         "Trusted: the reference interpreter's copy semantics (deep copy on declaration/assignment, objects shared). By-reference argument passing is carved out.",
         "DESIGN.md §4 C07"),
 "C12": ("model_checking",
         "explicit-state BFS over list/dictionary operation histories with a full observation battery after every operation (E2)",
         "Breadth-first search over all histories (up to the length bound) of list and dictionary operations from three initial states; after every operation value, display text, length, ends, reversal, membership, guarded reads around the bounds, iteration order, key/value lists, keyed reads and generated JSON are compared between a fresh run of the real interpreter and a slice / ordered-map reference. Every history is also run with the observation battery only at its end. Assignment from a call returning its receiver, 合并 with the receiver among its arguments and JSON of the dictionary inside lists are covered.",
         "Trusted: the slice / ordered-map reference model. Histories beyond the bound are not covered.",
         "DESIGN.md §4 C12"),
 "C08": ("exploration",
         "bounded exhaustive enumeration (E1, rank/unrank) of call/object programs against a reference interpreter",
         "Every program of m statements whose expressions range over all call/object expressions up to the depth bound (34 forms: arities, mismatches, recursion incl. re-entering one multi-argument call expression, two instances, constructor, 其, defaults only changed in place, nested and failing nested calls, chains, unknown members) with traced leaves is executed and compared with the reference interpreter on ordered trace and error-ness; both instances are observed at the end. Forms include chains of 3-4 links, tree recursion with 得到, higher-order calls and a failed argument binding handled inside a method.",
         "Trusted: the reference interpreter (manual ch.8). Deeper expressions / longer programs are not covered.",
         "DESIGN.md §4 C08"),
 "C09": ("exploration",
         "bounded exhaustive enumeration (E1) of the raise-kind x site x depth x handler-placement product with state probes, against a reference interpreter",
         "Every combination of raise kind (7), raise site (6), call depth, handler placement per level (4 each), handler body (3), receiver kind and module boundary is generated as a program with follow-up probes after the handled call (caller locals, caller's 其, a callee local that must be gone, a second call, VM call depth and scope depth) and compared with the reference interpreter. Handler bodies include one that ends in a valued expression without 输出. Explicit messages carry % directives and must end the rendered report; a handler may call a method that handles an exception of its own; callers may call from inside loops; N = 1..20000 faults are raised and handled in one run.",
         "Trusted: the reference interpreter's exception semantics (manual ch.4). Fault message texts are not compared.",
         "DESIGN.md §4 C09"),
 "C14": ("exploration",
         "bounded exhaustive enumeration (E1) of texts x index pairs, templates x argument lists and directives x doubles, Python %-formatting as independent oracle",
         "All texts <= 3 characters over 1-4-byte characters and a combining mark x all index pairs in [-5,5]^2 for 取样 / 长度 / 字符组 / 分隔; every template up to the length bound over 11 symbols x argument lists of length p-1, p, p+1; every directive x precision x boundary double against Python's % formatting; every sequence of <= 3 operations on ONE text value with 长度 / 字符组 / 取样 re-checked against the text after each step. The argument list must be unchanged by formatting; outside the documented range 取样 selects the same positions as in an ASCII text of the same length.",
         "Trusted: Go utf8, Python 3 % formatting (batch oracle only), the reference template scanner. Undocumented directive combinations only need to be error-or-artefact-free.",
         "DESIGN.md §4 C14"),
 "C17": ("exploration",
         "bounded exhaustive enumeration (E1) of valid texts at every block-boundary alignment / chunking and of invalid byte strings at every position",
         "Every short text over 1-4-byte characters, U+FFFD and BOM with each internal byte boundary on read-block boundaries 4096 and 8192, every Read(n) chunking n in 1..9 and alternating pairs, every byte string <= 2 over all 256 values (<= 3 over structural bytes) inserted at start/middle/boundary/end, every single-byte substitution of a sample, GBK files, and end-to-end runs of corrupted programs: valid => exactly []rune minus one BOM, invalid => error and nothing executed. Runs of one-width characters around one and two read blocks are decoded and executed. 1..3 full read blocks followed by every incomplete head of a character must be rejected.",
         "Trusted: Go utf8.Valid and []rune conversion.",
         "DESIGN.md §4 C17"),
 "C15": ("exploration",
         "bounded exhaustive enumeration (E1) of all module dependency digraphs on <= 4 files, oracle computed from the graph",
         "Every directed graph with self-loops on up to 4 module files (module 0 the main file) x import order x probe variants is written as real files and executed through LoadFile; a reachable cycle must give circular-dependency error 63, otherwise the exact load order (each body once, dependencies first), the call traces through imported methods and the read-only / not-exported / selective-import probes must match what the graph implies. A same-type-name family (types of one name in several modules, only factory methods imported) is enumerated over definers, import orders and call orders. Fixed scenarios include import-only module files, an exception through a loop of the importer and own names staying read-only after load.",
         "Trusted: the graph oracle (DFS reachability/cycle, deterministic load order). More than 4 files and repeated imports in one file are not covered.",
         "DESIGN.md §4 C15"),
 "C04": ("exploration",
         "bounded exhaustive enumeration (E1): all 0x110000 code points, all strings up to the bound over the numeric and keyword-collision alphabets, against reference recognisers",
         "Identifier alphabet: every code point, lookup vs the range table extracted from the current source, and through the lexer. Numeric form: every string up to length L over the recogniser's input classes (and a concrete digit alphabet) against a chapter-5 reference with exact big.Rat rounding. Keyword segmentation: every string up to the bound over three collision alphabets against a chapter-1 reference tokenizer. Identifiers starting with 注 and digits (no colon) are enumerated in a pass of their own; no comment starts inside backticks.",
         "Trusted: the reference recognisers written from manual ch.1/ch.5, math/big. Documented-vs-implemented disagreements outside the statement (.12, --123) are dont_care.",
         "DESIGN.md §4 C04"),
 "C11": ("model_checking",
         "stateless deviation-bounded DFS (E3) over hash-map iteration orders injected through a build overlay generated from the current source",
         "Every range-over-map site of the interpreter (found with go/types at check time) is rewritten through go build -overlay into a harness-chosen key order; for each of 172 driver programs (dictionary comparisons incl. uncomparable entries, JSON documents by shape also as HTTP bodies, object defaults, imports, module collisions/cycles, headers, expression inputs) every order vector with at most d non-sorted iterations is executed on the real interpreter and all executions must agree on result, trace and rendered error.",
         "Trusted: the overlay generator (sites it cannot see would be uncontrolled; its inventory is in evidence). Only map order is controlled, the source the statement names.",
         "DESIGN.md §4 C11"),
 "C16": ("model_checking",
         "history search over polluter sequences with a fresh-process differential oracle (E2) + stateless exploration of all interleavings of concurrent requests under a cooperative scheduler (E3)",
         "Sequential: all singles and pairs (triples in thorough) of polluter programs, through a shared interpreter and through fresh ones, followed by a 12-probe vector that must equal the vector of a fresh process. Concurrent: every ordered pair of 11 requests through the real handlers sharing one interpreter under every interleaving of the statement-level scheduling points (triples below a deviation bound); each response must equal the response alone. Every probe's baseline comes from its own fresh process; the auxiliary race pass serves every request kind from all goroutines at once. Every polluter is also run 300 times in a row; same-named modules are served from two directories; the free-running pass compares every answer with the answer when served alone.",
         "Trusted: scheduling points at Execute/statement/显示 granularity (hooks, tag verif); finer races only through the auxiliary -race pass in thorough.",
         "DESIGN.md §4 C16"),
 "C10": ("exploration",
         "bounded exhaustive enumeration (E1) over member tables extracted from the current source x boundary receivers x argument tuples",
         "Member tables (methods, getters, setters, class properties, library functions, globals, argument-guard type strings) are read from the current source with go/parser; every (fresh boundary receiver x member x argument tuple up to the arity bound from a 24-value pool) runs through the direct Element API and through one-call programs with values supplied as inputs, whole programs (callable bodies that yield no value x every use of the result; every history of <= 3/4 operations over copies of one dictionary / list held by three names), plus every input-variable text of a small grammar: the outcome must be a non-nil value or a Zn error, never a panic or a nil result. A source seam runs whole programs: callable bodies that yield no value or fail, runaway recursion (the worker must survive), histories over copies of one collection including putting it into itself, walks that change the walked collection, templates reused with non-fitting operands.",
         "Trusted: the inventory scanner (falls back to a built-in list and marks the run inexhaustive). stdlib/http does not compile at this commit and is skipped. A worker that dies of a fatal runtime error is re-run to name the fatal case.",
         "DESIGN.md §4 C10"),
 "C18": ("exploration",
         "bounded exhaustive enumeration (E1) of a fault-placement product with generator-known positions",
         "One fault (4 syntax kinds, 4 runtime kinds + a loop-condition fault) is planted at every slot of five template programs x preceding multi-line contexts x LF/CRLF/CR x caret prefixes of known display width x call depth 0-3 x module boundary x an earlier handled exception; the rendered report (and the wrapped error's frames) must name the planted line, quote that line, put the caret under the offending character and list exactly the active call chain. Every call-depth combination is also generated with handlers for another exception class on every level.",
         "Trusted: the generator's own line/column bookkeeping and an embedded East-Asian-width table. Every faulting statement occupies one physical line.",
         "DESIGN.md §4 C18"),
 "C19": ("exploration",
         "bounded exhaustive enumeration (E1, rank/unrank) of dictionaries, Python json as independent strict reader / writer",
         "Every dictionary up to the node bound (depth <= 3, hostile texts, boundary doubles, empty containers) is generated: its JSON must be read by a strict RFC 8259 reader to the same structure and key order, 解析JSON must invert it (structurally and under 为, repeated parses), every document of an independent writer in several styles must parse to the same value in document order, every single-character corruption must parse to the reader's value or raise a catchable exception, non-finite numbers must raise a catchable exception, and a dictionary holding one list / dictionary object twice must serialise like its unshared copy. Hostile texts as member names, parsed numbers changed in place and dictionaries copied and changed are covered.",
         "Trusted: Python 3 json (batch oracle only). Non-object top levels, repeated keys and out-of-range numbers are dont_care.",
         "DESIGN.md §4 C19"),
 "C20": ("model_checking",
         "stateless deviation-bounded DFS (E3) over the hand-over and environment events of the real prefork master with real child processes",
         "The real StartMaster runs in a fresh process per execution with every hand-over point gated (hooks, tag verif); the controller enumerates configurations x environment event sequences and, within each execution, every choice (which pending hand-over the loop sees, which spawn proceeds, when the next event fires) within the deviation bound. After every step live worker processes and the master's child count must be <= max-procs; at quiescence live >= init-procs and the master's registry equals the live processes. An exit may overtake the registration of the same worker; real-worker scenarios include idle pauses longer than --timeout and a sole worker that hangs; a master that stops itself is a violation. Quick also explores single events at deviation bound 2 and runs 6 directed long scenarios in large configurations; real-worker scenarios force garbage collections of the master.",
         "Trusted: the controller's consequence tracking (failures of it are harness errors, never violations). Real-worker timeouts / kernel accept are not explored.",
         "DESIGN.md §4 C20"),
})
NOT_YET = {}
props = [json.loads(l) for l in open(f"{V}/properties.jsonl")]
# additions of the fifth round (appended to the level text)
ROUND5 = {
 "C02": " Trees with loop statements are run again with each 结束循环 / 继续循环 moved into a callee (it must act on no loop of the caller), trees whose blocks end with a compound statement again without the traces at block ends, 如果/再如 chains occur without 否则, and the dictionary loop runs over a dictionary whose first entry was removed again.",
 "C03": " The expression leaves include a name that begins like a comment (注册) and a text with a variation selector.",
 "C04": " Every identifier of <= 4 symbols over {1 2 . e k} is also placed in six positions of a program (value, declared value, list item, call argument, dictionary key, index): a malformed identifier is refused everywhere as it is refused alone.",
 "C05": " A returned tree must belong to a text that the tokeniser alone reads to its end, and the source is handed over as a slice of a larger array whose guard element must stay untouched.",
 "C06": " Methods and types defined inside blocks under the names of variables are among the actions; 16 sets of 60 000 distinct names are alive at once on the real symbol table (undefined before declaration, own value, own assignment, gone after the block).",
 "C07": " Operations include assignment through the list properties 首项 / 末项; for every nesting depth 1..300 (1000) a value is copied by declaration and by assignment and its innermost list changed through an index chain.",
 "C08": " Forms include a method that leaves early with 输出 空 and a type whose default property value creates an object of a type with a constructor.",
 "C09": " A ninth raise site is the condition of a 再如 branch; a fifth handler placement puts the matching handler before a non-matching one.",
 "C11": " Every driver is also executed twice under the default order; drivers include names that differ only in case and failing file-library calls.",
 "C12": " Operations include whole-number keys beyond 2^63 and a two-name loop that stores its position variable while it goes on.",
 "C13": " The round-trip alphabet holds 16 characters without a glyph of their own; texts <= 2 are also evaluated (输出<literal>), as written and spelled `U+hex`.",
 "C14": " U+FFFD is a character of the text alphabet.",
 "C15": " Directed scenarios cover two selective imports of one module in one file and constructors of imported types that use their own module's names.",
 "C16": " A harness library exports a type (constructor replacement as polluter, construction as probe); input-variable texts that reach predefined values are polluters and request fields.",
 "C17": " Sources are also delivered through a named pipe in pieces of every small size (each read returns exactly one piece), as files completed after the stream was made, and as a directory.",
 "C18": " Contexts include a text whose line ends with a backtick; a run variant imports a module that exports methods named like the program's own.",
 "C19": " Text leaves include backslash sequences that are the spelling of an escape.",
 "C10": " Input-variable texts include a unit that binds a name with 得到.",
}
for _i, _t in ROUND5.items():
    lvl, tech, text, note, ref = CHECKS[_i]
    CHECKS[_i] = (lvl, tech, text + _t, note, ref)
# additions of the sixth round
ROUND6 = {
 "C02": " The dictionary of the prelude writes one key twice.",
 "C03": " A comment line of every spelling (also empty) or a white-space-only line is put in front of every line of every section program, statement tree of <= 2 nodes and nested chain: the tree stays the same.",
 "C07": " The constructor of the second type hands the object to a global holder that is observed with the names.",
 "C08": " A form creates an object whose constructor stores it in a global holder, changes it through the name it was bound to and reads it through the holder.",
 "C09": " 抛出 also names the exception type through a variable that holds it.",
 "C10": " The String receivers include a text with stray bytes (as a file in another encoding delivers it); 42 programs store, copy, compare, show and serialise collections holding objects that point at each other.",
 "C11": " Two drivers whose imports both fail are executed 40 times each (goroutine scheduling is not controlled: this is repetition, not enumeration).",
 "C12": " Guarded writes and reads at fractional positions (0.5, 1.5, -0.5).",
 "C13": " Every end-to-end literal is also evaluated as the first of two list items.",
 "C14": " The text argument of the template sub-check itself spells placeholders.",
 "C15": " Directed scenarios cover the order in which imports are carried out and definitions nested in methods of imported modules.",
 "C16": " Two requests in different directories read a relative path.",
 "C17": " Programs of every size within 8 bytes of 1 MiB (and 64 KiB, 256 KiB, 2 MiB, 4 MiB) run through LoadFile like their decoded text.",
 "C18": " Contexts include an empty 注： comment; fault kinds include a method that the object's type does not have; the loop template closes a body statement with ；.",
 "C19": " The empty document and blank documents are among the corruptions.",
 "C20": " Real-worker scenarios include a request that starts a helper program which inherits the worker's output files and outlives it.",
}
for _i, _t in ROUND6.items():
    lvl, tech, text, note, ref = CHECKS[_i]
    CHECKS[_i] = (lvl, tech, text + _t, note, ref)
# additions of the seventh round
ROUND7 = {
 "C03": " Nine kinds of wide expression (width 1..72 and beyond) stand in every slot of every expression form, 14 statement constructs hold n parts of one kind, and texts with a real line break / comments that span a line break stand inside blocks.",
 "C05": " Sources of 15 000 and 120 000 lines are compiled and the processor time compared (at most 24 times); a returned tree stands for the whole text (the tokeniser's end of text is the end of the text); the quoted line is compared exactly.",
 "C07": " Operations store the result of direct calls of program-defined methods that hand back their input or an item of it.",
 "C08": " (The prelude's type names no longer collide with its method names; the run reports the share of reference runs that completed and ends as a harness error below 10 %.)",
 "C09": " A tenth raise kind is a failing % formatting (numeric directive given a text).",
 "C12": " 寻找 is observed through the distance between its answers for a stored and for an absent value (numbering-free).",
 "C13": " Every end-to-end literal is evaluated in nine contexts, among them directly before, behind and between other text literals.",
 "C18": " Run variants put calls that have returned, and that ended on the line number of the next statement (in another module), before the fault and before every call on the chain; fault kinds include calls with the wrong number of arguments.",
}
for _i, _t in ROUND7.items():
    lvl, tech, text, note, ref = CHECKS[_i]
    CHECKS[_i] = (lvl, tech, text + _t, note, ref)
# additions of the eighth round
ROUND8 = {
 "C02": " A dictionary is walked while the body removes, overwrites or adds an entry at pass 1..4: no entry twice, insertion order, every lasting entry visited.",
 "C03": " 抛出 without arguments is a leaf statement.",
 "C04": " Some 6 000 generated long mantissas (16..21 digits, the point in every position) are among the rounding-boundary spellings.",
 "C09": " Every raise kind is also raised and handled 120 000 times in one run.",
 "C10": " A list and an uncopied method result are changed and put into one another in every sequence of <= 3 operations; collections are put into themselves in every way, the refusal handled, the collection rendered in eight ways.",
 "C15": " Scenarios reach an imported method through a variable, as an argument and through a middle module.",
 "C16": " Writing the status line and the body of a response are scheduling points of the explorer.",
 "C18": " A template plants the fault inside the handler of the body that raised; a fault statement may span a line break; every chain entry must quote the line it names; a run variant makes the outermost call the constructor of a type whose name an imported module exports too.",
}
for _i, _t in ROUND8.items():
    lvl, tech, text, note, ref = CHECKS[_i]
    CHECKS[_i] = (lvl, tech, text + _t, note, ref)
checks = []
na = []
for p in props:
    i = p["id"]
    if i in CHECKS:
        lvl, tech, text, note, ref = CHECKS[i]
        checks.append({
            "property_id": i,
            "quick_cmd": f"./check {i} quick",
            "thorough_cmd": f"./check {i} thorough",
            "evidence_file": f"/verif/evidence/{i}.json",
            "replay_cmd_template": f"./check {i} --replay {{path}}",
            "engine": "zncheck",
            "level_claimed": {"category": lvl, "text": text, "design_ref": ref},
            "level_note": note,
            "technique": tech,
        })
    else:
        na.append({"property_id": i, "reason": NOT_YET.get(i, "check not built yet in this revision (work in progress; see DESIGN.md §4 for the planned bounded-exhaustive exploration)")})
m = {
 "version": 1,
 "setup_cmd": "./tools/setup.sh",
 "hooks": {
   "guard": "verif",
   "enable": "go build -tags verif (the harness module /verif/engine replaces github.com/DemoHn/Zn with /repo)",
   "baseline_off_cmd": "cd /repo && GOFLAGS=-mod=mod GOPROXY=off GOSUMDB=off go test -json -vet=off -count=1 -timeout 25m ./...",
   "source_commits": [l.strip() for l in open(f"{V}/HOOK_COMMITS.txt")] if os.path.exists(f"{V}/HOOK_COMMITS.txt") else [],
   "add_only": True,
 },
 "engines": [{"name": "zncheck", "path": "/verif/engine", "serves_properties": sorted(CHECKS), "kind_free_text": "hand-written Go explorers: bounded-exhaustive enumerator (E1), explicit-state BFS over operation histories replayed on fresh real objects (E2), stateless deviation-bounded schedule/choice DFS (E3); sharded worker processes, hang watchdog, 5x confirmation, replay files"}],
 "checks": checks,
 "not_applicable": na,
 "notes": "Every check rebuilds the harness from /repo's working tree (./check). Known findings: /verif/KNOWN_FINDINGS.txt.",
}
json.dump(m, open(f"{V}/MANIFEST.json", "w"), indent=1, ensure_ascii=False)
print("checks:", [c["property_id"] for c in checks], "n/a:", len(na))
