#!/bin/bash
# MANIFEST.setup_cmd: build the harness once (warms the Go build cache) from files on disk only.
export GOFLAGS=-mod=mod GOPROXY=off GOSUMDB=off GOTOOLCHAIN=local
export GOCACHE=/verif/.cache/go-build
cd /verif/engine || exit 2
cp /repo/go.sum go.sum
mkdir -p /verif/bin /verif/evidence /verif/replays
go build -tags verif -o /verif/bin/zncheck ./cmd/zncheck || exit 2
# warm the build cache for the -race variant used by C16's auxiliary pass (first build is slow)
go build -race -tags verif -o /verif/bin/zncheck-race ./cmd/zncheck 2>/dev/null && rm -f /verif/bin/zncheck-race
(cd /verif/tools/mapperm && go build -o /verif/bin/mapperm . ) || exit 2
go build -tags verif -o /verif/bin/pmexec ./cmd/pmexec || exit 2
echo "setup ok"
