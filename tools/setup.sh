#!/bin/bash
# MANIFEST.setup_cmd: build the harness once (warms the Go build cache) from files on disk only.
export GOFLAGS=-mod=mod GOPROXY=off GOSUMDB=off GOTOOLCHAIN=local
export GOCACHE=/verif/.cache/go-build
cd /verif/engine || exit 2
cp /repo/go.sum go.sum
mkdir -p /verif/bin /verif/evidence /verif/replays
go build -tags verif -o /verif/bin/zncheck ./cmd/zncheck || exit 2
echo "setup ok"
