#!/bin/bash
# usage: muttest.sh <ID> <tier> <file-relative-to-/repo> <python-replace-old> <python-replace-new>
# Applies a one-off textual mutation to /repo, runs the repo's own tests, runs the check, reverts.
ID="$1"; TIER="$2"; FILE="$3"; OLD="$4"; NEW="$5"
export GOFLAGS=-mod=mod GOPROXY=off GOSUMDB=off GOTOOLCHAIN=local
cd /repo || exit 2
if ! git diff --quiet; then echo "repo dirty, refusing"; exit 2; fi
python3 - "$FILE" "$OLD" "$NEW" <<'PY'
import sys
f,old,new=sys.argv[1:4]
s=open(f).read()
if s.count(old)!=1:
    print("MUT: pattern count",s.count(old)); sys.exit(3)
open(f,'w').write(s.replace(old,new))
PY
rc=$?
if [ $rc -ne 0 ]; then git checkout -- .; exit $rc; fi
echo "--- repo tests with mutation:"
go test -vet=off -count=1 ./pkg/... 2>&1 | grep -v "no test files" | tail -8
echo "--- check:"
/verif/check "$ID" "$TIER" 2>&1 | tail -12
git checkout -- .
git status --short | head
