import json, subprocess, re
rows = {
 "C01": ("C04 quick", "**caught** by C04 (the value of a literal is C04's clause) - through one of its 43 hand-picked spellings", "C04 quick: some 6 000 generated long mantissas (16..21 digits around 2^52 .. 10^19, the point in every position) joined the rounding-boundary spellings"),
 "C02": ("C02 quick", "**caught**", "C02 quick: caught as the checks stood"),
 "C03": ("C03 quick", "**caught**", "C03 quick: caught as the checks stood (inserted white-space-only lines)"),
 "C04": ("C04 quick", "**caught** (history-dependent confirmation)", "C04 quick: caught as the checks stood"),
 "C05": ("C05 quick", "**caught**", "C05 quick: caught as the checks stood"),
 "C06": ("C06 quick", "**caught**", "C06 quick: caught as the checks stood"),
 "C07": ("C07 quick", "**caught**", "C07 quick: caught as the checks stood"),
 "C08": ("C08 quick", "**caught**", "C08 quick: caught as the checks stood"),
 "C09": ("C09 quick", "missed - no run handled more than 20 000 faults; the leak needs about 100 000 / k", "C09 quick: 120 000 faults raised and handled in one run, for every raise kind"),
 "C10": ("C10 quick", "missed - no refused operation was handled and followed by a rendering of the collection", "C10 quick: family refused-then-rendered (a dictionary / a list put into itself in every way, each attempt in a method with a handler, one or two in a row, then eight renderings)"),
 "C11": ("C11 quick", "**caught**", "C11 quick: caught as the checks stood"),
 "C12": ("C12 quick", "**caught**", "C12 quick: caught as the checks stood"),
 "C13": ("C13 quick", "**caught**", "C13 quick: caught as the checks stood (the contexts added for C13-10)"),
 "C14": ("C14 quick", "**caught** (history-dependent confirmation)", "C14 quick: caught as the checks stood"),
 "C15": ("C15 quick", "**caught**", "C15 quick: caught as the checks stood"),
 "C16": ("C16 quick", "**caught** by the auxiliary free-running pass only (an answer differs from the answer when served alone); the deciding explorer had no scheduling point between the end of an execution and the rendering of its error", "C16 quick: writing the status line and writing the body of a response are scheduling points of the explorer (every pair / triple of requests under all interleavings)"),
 "C17": ("C17 quick", "**caught**", "C17 quick: caught as the checks stood"),
 "C18": ("C18 quick", "missed - no fault was planted inside a handler", "C18 quick: template in_the_handler_of_the_body (the fault stands in the 拦截 block that runs because the body raised)"),
 "C19": ("C19 quick", "**caught**", "C19 quick: caught as the checks stood"),
 "C20": ("C20 quick", "**caught**", "C20 quick: caught as the checks stood"),
}
readme = open('/verif/seeded/README.md').read()
for ID,(det,first,now) in rows.items():
    subprocess.run(["python3","/verif/tools/seed_archive.py",ID,"11",det,now],check=True)
    mp=f"/verif/seeded/{ID}-11/meta.json"
    m=json.load(open(mp))
    m["first_version"]=first
    if ID=="C01": m["run_checks"]=["C04"]
    json.dump(m,open(mp,"w"),indent=1,ensure_ascii=False)
    needs=(m.get("needs_in_order_to_manifest") or "").replace("\n"," ").replace("|","/")
    if len(needs)>180: needs=needs[:180]+"…"
    row=f"| {ID}-11 | {needs} | {first} | {now} |\n"
    # insert after the -9 row
    pat=re.compile(rf"(\| {ID}-10 \|[^\n]*\n)")
    assert pat.search(readme), ID
    readme=pat.sub(lambda mm: mm.group(1)+row, readme, count=1)
open('/verif/seeded/README.md','w').write(readme)
