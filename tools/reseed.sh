#!/bin/bash
# Re-verifies every archived seeded change against the CURRENT checks without touching /repo:
# each seed's patch.diff is applied in a scratch worktree of /repo's HEAD, the named check(s)
# are built against that worktree (scratch mode of /verif/check) and run in the quick tier.
# usage: reseed.sh [-j N] [seed-id ...]      (C20 seeds always run one at a time, last)
# Worktrees and outputs live under /tmp/reseed-* and are removed at the end.
J=3
if [ "$1" = "-j" ]; then J="$2"; shift; shift; fi
IDS="$@"; [ -z "$IDS" ] && IDS=$(cd /verif/seeded && ls -d C*-* | sort)
HEAD=$(git -C /repo rev-parse HEAD)
one() {
  s="$1"; slot="$2"
  wt=/tmp/reseed-wt-$slot; out=/tmp/reseed-out-$slot
  [ -d "$wt" ] || git -C /repo worktree add -q --detach "$wt" "$HEAD" || { echo "$s: no worktree"; return; }
  prop=${s%%-*}
  checks=$(python3 -c "import json;print(' '.join(json.load(open('/verif/seeded/$s/meta.json')).get('run_checks',['$prop'])))")
  cd "$wt" && git checkout -q -- . && git clean -fdq
  { git apply /verif/seeded/$s/patch.diff 2>/dev/null || git apply -3 /verif/seeded/$s/patch.diff 2>/dev/null; } || { echo "$s: patch does not apply"; git checkout -q -- .; git reset -q; return; }
  git reset -q
  res=""
  for c in $checks; do
    o=$(VERIF_SCRATCH_REPO=$wt VERIF_SCRATCH_OUT=$out /verif/check $c quick 2>&1)
    n=$(echo "$o" | grep -a -c "^VIOLATION")
    b=$(echo "$o" | grep -a -c "^BUILD-FAILED")
    res="$res $c:violations=$n"; [ "$b" != 0 ] && res="$res(BUILD-FAILED)"
  done
  git checkout -q -- .; git clean -fdq
  echo "$s ->$res"
}
export -f one; export HEAD
PAR=$(for s in $IDS; do case $s in C20-*) ;; *) echo $s;; esac; done)
SER=$(for s in $IDS; do case $s in C20-*) echo $s;; esac; done)
# slot = position modulo J: xargs gives each process a slot number through its own counter file
i=0; for s in $PAR; do echo "$s $((i % J))"; i=$((i+1)); done > /tmp/reseed-list.$$
# seeds of one slot run one after another (they share a worktree)
for k in $(seq 0 $((J-1))); do
  ( grep " $k\$" /tmp/reseed-list.$$ | while read s slot; do one "$s" "$slot"; done ) &
done
wait
for s in $SER; do one "$s" 0; done
rm -f /tmp/reseed-list.$$
for k in $(seq 0 $((J-1))); do git -C /repo worktree remove --force /tmp/reseed-wt-$k 2>/dev/null; rm -rf /tmp/reseed-out-$k; done
