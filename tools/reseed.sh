#!/bin/bash
# Re-verifies every archived seeded change against the CURRENT checks: applies
# /verif/seeded/<id>/patch.diff to /repo, runs the named check(s) (quick), undoes it.
# usage: reseed.sh [seed-id ...]
cd /verif/seeded || exit 2
IDS="$@"; [ -z "$IDS" ] && IDS=$(ls -d C*-* | sort)
for s in $IDS; do
  prop=${s%%-*}
  checks=$(python3 -c "import json;print(' '.join(json.load(open('/verif/seeded/$s/meta.json')).get('run_checks',['$prop'])))")
  cd /repo && git diff --quiet || { echo "/repo dirty"; exit 2; }
  { git apply /verif/seeded/$s/patch.diff 2>/dev/null || git apply -3 /verif/seeded/$s/patch.diff 2>/dev/null; } || { echo "$s: patch does not apply"; git checkout -q -- .; git reset -q; continue; }
  git reset -q
  res=""
  for c in $checks; do
    out=$(/verif/check $c quick 2>&1)
    n=$(echo "$out" | grep -a -c "^VIOLATION")
    res="$res $c:violations=$n"
  done
  git checkout -- .
  echo "$s ->$res"
done
