#!/bin/bash
# usage: sweep.sh <tier> [ids...]  — runs the checks one after another and prints one summary line each
TIER="$1"; shift
IDS="$@"
HERE="$(cd "$(dirname "$(readlink -f "$0")")/.." && pwd)"
[ -z "$IDS" ] && IDS="C01 C02 C03 C04 C05 C06 C07 C08 C09 C10 C11 C12 C13 C14 C15 C16 C17 C18 C19 C20"
for c in $IDS; do
  "$HERE/check" $c $TIER > /tmp/sweep-$c-$TIER.log 2>&1
  rc=$?
  echo "rc=$rc $(grep -a -E "^$c $TIER:" /tmp/sweep-$c-$TIER.log)"
  grep -a -E "^(VIOLATION|KNOWN-FINDING|BUILD-FAILED|NOTE)" /tmp/sweep-$c-$TIER.log | head -5
done
