// znrun runs one Zn program (stdin) through the harness's real-interpreter seam
// and prints the classified outcome.  A manual exploration aid; no check uses it.
// With -raw it runs the program through exec.Interpreter.Execute and prints the
// rendered error exactly as a user sees it.
package main

import (
	"fmt"
	"io"
	"os"

	"github.com/DemoHn/Zn/pkg/exec"
	r "github.com/DemoHn/Zn/pkg/runtime"

	"verif/engine/zn"
)

func main() {
	b, _ := io.ReadAll(os.Stdin)
	if len(os.Args) > 1 && os.Args[1] == "-var" {
		m, err := exec.ExecVarInputText(string(b))
		fmt.Println(m, err)
		return
	}
	if len(os.Args) > 1 && os.Args[1] == "-raw" {
		v, err := exec.NewInterpreter("x").SetExternalLibs(zn.Libs()).LoadScript([]rune(string(b))).Execute(r.ElementMap{})
		if err != nil {
			fmt.Println(exec.DisplayError(err))
			return
		}
		fmt.Println("OK", v)
		return
	}
	o := zn.RunReal(string(b), nil)
	switch {
	case o.Panic != "":
		fmt.Println("PANIC", o.Panic)
	case o.Err != nil:
		fmt.Printf("ERR kind=%s code=%d msg=%s\n", o.Err.Kind, o.Err.Code, o.Err.Msg)
	default:
		fmt.Printf("OK val=%s elem-nil=%v trace=%v\n", o.Val, o.Elem == nil, o.Trace)
	}
}
