// znrun runs one Zn program (stdin) through the harness's real-interpreter seam
// and prints the classified outcome.  A manual exploration aid; no check uses it.
package main

import (
	"fmt"
	"io"
	"os"

	"verif/engine/zn"
)

func main() {
	b, _ := io.ReadAll(os.Stdin)
	o := zn.RunReal(string(b), nil)
	switch {
	case o.Panic != "":
		fmt.Println("PANIC", o.Panic)
	case o.Err != nil:
		fmt.Printf("ERR kind=%s code=%d msg=%s\n", o.Err.Kind, o.Err.Code, o.Err.Msg)
	default:
		fmt.Printf("OK val=%s elem-nil=%v trace=%v\n", o.Val, o.Elem == nil, o.Trace)
	}
}
