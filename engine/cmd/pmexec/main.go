// pmexec runs ONE execution of the prefork master under the C20 controller
// (argument: JSON parameters) and prints the result as JSON; started with
// --child-worker (by the master itself) it is the fake worker.
package main

import (
	"encoding/json"
	"fmt"
	"os"

	"verif/engine/pm"
)

func main() {
	for _, a := range os.Args[1:] {
		if a == "--child-worker" {
			if os.Getenv("VERIF_REAL_WORKER") == "1" {
				pm.RealWorker()
				return
			}
			pm.FakeWorker()
			return
		}
	}
	if len(os.Args) >= 3 && os.Args[1] == "real" {
		var rp pm.RealParams
		if err := json.Unmarshal([]byte(os.Args[2]), &rp); err != nil {
			fmt.Println(`{"harness_error":"bad params"}`)
			os.Exit(2)
		}
		b, _ := json.Marshal(pm.RealMaster(rp))
		fmt.Println(string(b))
		return
	}
	if len(os.Args) < 2 {
		fmt.Println(`{"harness_error":"usage: pmexec <json params>"}`)
		os.Exit(2)
	}
	var p pm.Params
	if err := json.Unmarshal([]byte(os.Args[1]), &p); err != nil {
		fmt.Println(`{"harness_error":"bad params"}`)
		os.Exit(2)
	}
	b, _ := json.Marshal(pm.Master(p))
	fmt.Println(string(b))
}
