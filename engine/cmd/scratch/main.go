package main

import (
	"fmt"
	"verif/engine/zn"
)

func main() {
	o := zn.RunRealFile("/tmp/t9/主.zn", nil)
	fmt.Println(o.Val, o.Err, o.Trace, o.Panic)
	if o.RawErr != nil {
		fmt.Println(o.RawErr.Error())
	}
}
