// zncheck runs one property check: parent mode (default), worker mode
// (-worker k/n) or replay mode (-replay file).
package main

import (
	"flag"
	"fmt"
	"os"
	"strconv"
	"strings"

	_ "verif/engine/checks"
	"verif/engine/mc"
	"verif/engine/zn"
)

func main() {
	for _, a := range os.Args[1:] {
		if a == "--child-worker" && mc.ChildWorker != nil {
			mc.ChildWorker()
			return
		}
	}
	id := flag.String("id", "", "property id")
	tier := flag.String("tier", "quick", "quick|thorough")
	seed := flag.Int64("seed", 0, "VERIF_SEED (rotates shard order only)")
	worker := flag.String("worker", "", "k/n (internal)")
	resume := flag.Int64("resume", 0, "(internal)")
	upto := flag.Int64("upto", -1, "(internal) skip cases beyond this index")
	out := flag.String("out", "", "(internal)")
	replay := flag.String("replay", "", "replay file")
	aux := flag.String("aux", "", "(internal) run the check's auxiliary computation")
	flag.Parse()
	if s := os.Getenv("VERIF_SEED"); s != "" && *seed == 0 {
		if v, err := strconv.ParseInt(s, 10, 64); err == nil {
			*seed = v
		}
	}
	ch := mc.Lookup(*id)
	if ch == nil {
		fmt.Println("unknown check", *id, "; have", mc.IDs())
		os.Exit(2)
	}
	if *aux != "" {
		if ch.Aux == nil {
			os.Exit(2)
		}
		fmt.Print(ch.Aux(*aux))
		return
	}
	if *replay != "" {
		os.Exit(mc.RunReplay(ch, *tier, *replay))
	}
	if *worker != "" {
		p := strings.Split(*worker, "/")
		k, _ := strconv.Atoi(p[0])
		n, _ := strconv.Atoi(p[1])
		mc.RunWorker(ch, *tier, *seed, k, n, *resume, *upto, *out)
		return
	}
	if err := zn.SelfTest(); err != nil {
		fmt.Println("HARNESS-ERROR the harness can no longer observe the interpreter (not a property verdict):", err)
		os.Exit(2)
	}
	os.Exit(mc.RunParent(ch, *tier, *seed))
}
