// Package pm is the closed system of C20: the real prefork master
// (server.StartMaster) driven by a controller that owns every hand-over point
// (hooks, build tag verif) and the fake worker the master re-executes.  It is
// kept free of the rest of the harness so that the binary the master spawns
// again and again (cmd/pmexec) stays small.
package pm

import (
	"bufio"
	"encoding/binary"
	"fmt"
	"io"
	"log"
	"net"
	"os"
	"path/filepath"
	"runtime"
	"sort"
	"strconv"
	"strings"
	"syscall"
	"time"

	"github.com/DemoHn/Zn/pkg/server"
)

// Point is one recorded choice point (same shape as mc.Point).
type Point struct {
	Kind   string
	N      int
	Chosen int
}

type recorder struct {
	Prefix []int
	Log    []Point
}

func (r *recorder) Choose(kind string, n int) int {
	v := 0
	if i := len(r.Log); i < len(r.Prefix) {
		v = r.Prefix[i]
		if v >= n {
			panic(fmt.Sprintf("pm: replay divergence at point %d: choice %d of %d", i, v, n))
		}
	}
	r.Log = append(r.Log, Point{Kind: kind, N: n, Chosen: v})
	return v
}

// ---- fake worker: announces itself to the controller, exits when told to
func FakeWorker() {
	c, err := net.Dial("unix", os.Getenv("VERIF_CTRL"))
	if err != nil {
		os.Exit(3)
	}
	fmt.Fprintf(c, "%d %s\n", os.Getpid(), os.Getenv(server.EnvNamedPipeID))
	buf := make([]byte, 16)
	c.Read(buf) // blocks until told to exit or the controller goes away
	os.Exit(0)
}

type Event struct {
	Worker int    `json:"w"`    // registration index
	Kind   string `json:"kind"` // busy idle timeout exit
}

type Params struct {
	Init   int     `json:"init"`
	Max    int     `json:"max"`
	Events []Event `json:"events"`
	Prefix []int   `json:"prefix"`
}

type Result struct {
	Log        []Point  `json:"log"`
	Violations []string `json:"violations"`
	Harness    string   `json:"harness_error,omitempty"`
	Actions    []string `json:"actions"`
	MaxAlive   int      `json:"max_alive"`
	MaxMaster  int      `json:"max_master_live"`
	Spawned    int      `json:"spawned"`
}

type c20Gate struct {
	point   string
	arg     int
	gid     int
	live    int
	ref     int
	states  map[int]uint8
	release chan struct{}
}

func c20Gid() int {
	var buf [64]byte
	n := runtime.Stack(buf[:], false)
	f := strings.Fields(string(buf[:n]))
	if len(f) >= 2 {
		id, _ := strconv.Atoi(f[1])
		return id
	}
	return -1
}

type c20Batch struct {
	gid       int
	remaining int
	respawn   bool
}

type c20Worker struct {
	pid        int
	conn       net.Conn
	alive      bool // process not yet told to exit
	addDone    bool // its registration has been delivered to the master
	state      uint8
	exitQueued bool
	delDone    bool // the master's loop has been handed this worker's exit
}

type c20Ctl struct {
	p        Params
	rec      *recorder
	gates    chan *c20Gate
	regs     chan [2]string
	pendSend []*c20Gate
	pendSpwn []*c20Gate
	batches  map[int]*c20Batch
	workers  []*c20Worker
	byPid    map[int]*c20Worker
	pipeW    *os.File
	pipeID   string
	res      Result
	framesW  int
	updSeen  int
	nextEv   int
	lastLive int
	lastRef  int
	stashUnk []*c20Gate
	batchSeq map[int]int
}

const c20Wait = 8 * time.Second

func (c *c20Ctl) harness(msg string) {
	if c.res.Harness == "" {
		c.res.Harness = msg
	}
}

// next returns the next gate satisfying pred, stashing others.
func (c *c20Ctl) next(what string, pred func(g *c20Gate) bool) *c20Gate {
	for i, g := range c.stashUnk {
		if pred(g) {
			c.stashUnk = append(c.stashUnk[:i], c.stashUnk[i+1:]...)
			return g
		}
	}
	deadline := time.After(c20Wait)
	for {
		select {
		case g := <-c.gates:
			if pred(g) {
				return g
			}
			c.file(g)
		case <-deadline:
			c.harness("expected gate did not arrive: " + what)
			return nil
		}
	}
}

// await makes sure a gate satisfying pred is in the pending lists: it may have
// arrived already (filed while another gate was awaited) or is waited for now.
func (c *c20Ctl) await(what string, pred func(g *c20Gate) bool) {
	for _, g := range c.pendSend {
		if pred(g) {
			return
		}
	}
	for _, g := range c.pendSpwn {
		if pred(g) {
			return
		}
	}
	if g := c.next(what, pred); g != nil {
		c.file(g)
	}
}

// file puts an unsolicited gate where it belongs.
func (c *c20Ctl) file(g *c20Gate) {
	switch g.point {
	case "add-send", "update-send", "del-send":
		if g.point == "update-send" {
			c.updSeen++
		}
		c.pendSend = append(c.pendSend, g)
	case "spawn-enter":
		c.pendSpwn = append(c.pendSpwn, g)
	default:
		c.stashUnk = append(c.stashUnk, g)
	}
}

func (c *c20Ctl) alive() int {
	n := 0
	for _, w := range c.workers {
		if w.alive {
			n++
		}
	}
	return n
}

func (c *c20Ctl) checkBounds(where string) {
	a := c.alive()
	if a > c.res.MaxAlive {
		c.res.MaxAlive = a
	}
	if a > c.p.Max {
		c.res.Violations = append(c.res.Violations, fmt.Sprintf("%d live worker processes under max-procs %d (%s)", a, c.p.Max, where))
	}
}

// loopGates handles what the bookkeeping loop does after receiving a message:
// optionally batch-start / respawn-start, then loop-done.
func (c *c20Ctl) loopGates() {
	for {
		g := c.next("loop gate", func(g *c20Gate) bool {
			return g.point == "loop-done" || g.point == "batch-start" || g.point == "respawn-start"
		})
		if g == nil {
			return
		}
		c.lastLive, c.lastRef = g.live, g.ref
		if g.live > c.res.MaxMaster {
			c.res.MaxMaster = g.live
		}
		if g.live > c.p.Max {
			c.res.Violations = append(c.res.Violations, fmt.Sprintf("master registered %d children under max-procs %d", g.live, c.p.Max))
		}
		if g.point == "loop-done" {
			close(g.release)
			return
		}
		n := g.arg
		respawn := g.point == "respawn-start"
		close(g.release)
		if n > 0 {
			// the new goroutine's first action is a spawn (a respawn sleeps 100 ms first)
			isNew := func(x *c20Gate) bool {
				if x.point != "spawn-enter" {
					return false
				}
				_, known := c.batches[x.gid]
				return !known
			}
			var sg *c20Gate
			for _, x := range c.pendSpwn {
				if isNew(x) {
					sg = x
				}
			}
			if sg == nil {
				sg = c.next("first spawn of a batch", isNew)
				if sg == nil {
					return
				}
				c.pendSpwn = append(c.pendSpwn, sg)
			}
			c.batches[sg.gid] = &c20Batch{gid: sg.gid, remaining: n, respawn: respawn}
			c.batchSeq[sg.gid] = len(c.batchSeq)
		}
	}
}

func (c *c20Ctl) act(s string) { c.res.Actions = append(c.res.Actions, s) }

// runSpawn lets one spawnProcess call proceed: a real process is started.
func (c *c20Ctl) runSpawn(g *c20Gate) {
	c.act(fmt.Sprintf("spawn(batch%d)", c.batchSeq[g.gid]))
	close(g.release)
	var reg [2]string
	select {
	case reg = <-c.regs:
	case <-time.After(c20Wait):
		c.harness("spawned worker did not register")
		return
	}
	pid, _ := strconv.Atoi(reg[0])
	w := c.byPid[pid]
	if w == nil {
		c.harness("registration of unknown pid")
		return
	}
	c.res.Spawned++
	if c.pipeW == nil {
		c.pipeID = reg[1]
		f, err := os.OpenFile("/tmp/zinc-server-pipe-"+reg[1], os.O_WRONLY, 0)
		if err != nil {
			c.harness("cannot open the master's pipe: " + err.Error())
			return
		}
		c.pipeW = f
	}
	c.checkBounds("after a spawn")
	c.await("add-send of the spawned worker", func(x *c20Gate) bool { return x.point == "add-send" && x.arg == pid })
}

// deliver hands one pending message to the master's loop.
func (c *c20Ctl) deliver(g *c20Gate) {
	switch g.point {
	case "add-send":
		c.act(fmt.Sprintf("deliver add(w%d)", c.widx(g.arg)))
		close(g.release)
		c.loopGates()
		w := c.byPid[g.arg]
		if w != nil {
			w.addDone = true
		}
		if b := c.batches[g.gid]; b != nil {
			b.remaining--
			if b.remaining > 0 {
				c.await("next spawn of the batch", func(x *c20Gate) bool { return x.point == "spawn-enter" && x.gid == g.gid })
			}
		}
		if w != nil && !w.alive && !w.delDone {
			// the process is already gone: its waiter reports right away
			c.await("del-send of an already exited worker", func(x *c20Gate) bool { return x.point == "del-send" && x.arg == g.arg })
		}
	case "update-send":
		c.act(fmt.Sprintf("deliver update(w%d,%d)", c.widx(g.arg>>8), g.arg&0xff))
		close(g.release)
		c.loopGates()
		if c.framesW > c.updSeen {
			c.await("next queued state report", func(x *c20Gate) bool { return x.point == "update-send" })
		}
	case "del-send":
		c.act(fmt.Sprintf("deliver del(w%d)", c.widx(g.arg)))
		if w := c.byPid[g.arg]; w != nil {
			w.delDone = true
		}
		close(g.release)
		c.loopGates()
	}
}

func (c *c20Ctl) widx(pid int) int {
	for i, w := range c.workers {
		if w.pid == pid {
			return i
		}
	}
	return -1
}

func (c *c20Ctl) frame(pid int, st uint8) {
	b := make([]byte, 5)
	binary.BigEndian.PutUint32(b, uint32(pid))
	b[4] = st
	c.pipeW.Write(b)
	c.framesW++
	if c.framesW-c.updSeen == 1 {
		// the reader is idle: the report shows up at once
		pending := false
		for _, g := range c.pendSend {
			if g.point == "update-send" {
				pending = true
			}
		}
		if !pending {
			c.await("state report", func(x *c20Gate) bool { return x.point == "update-send" })
		}
	}
}

func (c *c20Ctl) kill(w *c20Worker) {
	w.alive = false
	w.conn.Write([]byte("x"))
	w.conn.Close()
	if w.addDone {
		c.await("del-send of the exited worker", func(x *c20Gate) bool { return x.point == "del-send" && x.arg == w.pid })
	} else {
		// not registered yet: the master as written reports the exit only after the
		// registration went through.  Give an exit report that does NOT wait for it a moment
		// to show up, so that "exit delivered before registration" becomes a choice
		// (a gate that is late is merely found at the next await: no verdict depends on this pause)
		c.settle(500*time.Millisecond, func(x *c20Gate) bool { return x.point == "del-send" && x.arg == w.pid })
	}
}

// settle files whatever gates arrive within d; it returns early once one satisfies until.
func (c *c20Ctl) settle(d time.Duration, until func(g *c20Gate) bool) {
	deadline := time.After(d)
	for {
		select {
		case g := <-c.gates:
			c.file(g)
			if until != nil && until(g) {
				return
			}
		case <-deadline:
			return
		}
	}
}

// fire applies the next scheduled environment event.
func (c *c20Ctl) fire(ev Event) {
	if ev.Worker >= len(c.workers) || c.pipeW == nil {
		c.act(fmt.Sprintf("event %s(w%d) skipped: no such worker yet", ev.Kind, ev.Worker))
		return
	}
	w := c.workers[ev.Worker]
	if !w.alive {
		c.act(fmt.Sprintf("event %s(w%d) skipped: worker gone", ev.Kind, ev.Worker))
		return
	}
	c.act(fmt.Sprintf("event %s(w%d)", ev.Kind, ev.Worker))
	switch ev.Kind {
	case "busy":
		w.state = server.WORKER_STATE_BUSY
		c.frame(w.pid, server.WORKER_STATE_BUSY)
	case "idle":
		w.state = server.WORKER_STATE_IDLE
		c.frame(w.pid, server.WORKER_STATE_IDLE)
	case "timeout":
		w.state = server.WORKER_STATE_STOPPED
		c.frame(w.pid, server.WORKER_STATE_STOPPED)
		c.kill(w)
	case "exit":
		c.kill(w)
	}
}

// c20Master runs ONE execution in this (fresh) process.
func Master(p Params) (res Result) {
	log.SetOutput(io.Discard)
	defer func() {
		if x := recover(); x != nil {
			res.Harness = fmt.Sprint("controller panic: ", x)
		}
	}()
	c := &c20Ctl{p: p, rec: &recorder{Prefix: p.Prefix}, gates: make(chan *c20Gate, 256), regs: make(chan [2]string, 64),
		batches: map[int]*c20Batch{}, byPid: map[int]*c20Worker{}, batchSeq: map[int]int{}}
	sock := filepath.Join(os.TempDir(), fmt.Sprintf("verif-c20-%d.sock", os.Getpid()))
	os.Remove(sock)
	os.Setenv("VERIF_CTRL", sock)
	ln, err := net.Listen("unix", sock)
	if err != nil {
		c.harness("listen: " + err.Error())
		return c.res
	}
	defer os.Remove(sock)
	go func() {
		for {
			conn, err := ln.Accept()
			if err != nil {
				return
			}
			line, _ := bufio.NewReader(conn).ReadString('\n')
			f := strings.Fields(line)
			if len(f) != 2 {
				continue
			}
			pid, _ := strconv.Atoi(f[0])
			w := &c20Worker{pid: pid, conn: conn, alive: true, state: server.WORKER_STATE_IDLE}
			c.workers = append(c.workers, w)
			c.byPid[pid] = w
			c.regs <- [2]string{f[0], f[1]}
		}
	}()
	server.VerifHook = func(point string, zns *server.ZnPMServer, arg int) {
		g := &c20Gate{point: point, arg: arg, gid: c20Gid(), release: make(chan struct{})}
		if point == "loop-done" || point == "batch-start" || point == "respawn-start" {
			g.live, g.ref, g.states = zns.VerifSnapshot()
		}
		c.gates <- g
		<-g.release
	}
	cfg := server.ZnPMServerConfig{InitProcs: p.Init, MaxProcs: p.Max, Timeout: 1}
	srv := server.NewZnPMServer(cfg)
	go func() {
		if err := srv.StartMaster("tcp://127.0.0.1:0", cfg); err != nil {
			c.harness("StartMaster: " + err.Error())
		}
	}()
	defer func() {
		for _, w := range c.workers {
			if w.alive {
				w.conn.Close()
			}
			syscall.Kill(w.pid, syscall.SIGKILL)
		}
		if c.pipeID != "" {
			os.Remove("/tmp/zinc-server-pipe-" + c.pipeID)
		}
	}()
	// the initial spawns come from StartMaster's own goroutine
	if p.Init > 0 {
		sg := c.next("first initial spawn", func(x *c20Gate) bool { return x.point == "spawn-enter" })
		if sg == nil {
			c.res.Log = c.rec.Log
			return c.res
		}
		c.batches[sg.gid] = &c20Batch{gid: sg.gid, remaining: p.Init}
		c.batchSeq[sg.gid] = 0
		c.pendSpwn = append(c.pendSpwn, sg)
	}
	// ---- main loop: one choice per step
	for step := 0; step < 400 && c.res.Harness == ""; step++ {
		type action struct {
			kind string
			g    *c20Gate
		}
		var acts []action
		// canonical order (independent of the order in which the gates happened to
		// arrive): hand-overs by kind and worker, spawns by batch creation order
		rank := map[string]int{"add-send": 0, "update-send": 1, "del-send": 2}
		sort.SliceStable(c.pendSend, func(i, j int) bool {
			a, b := c.pendSend[i], c.pendSend[j]
			if rank[a.point] != rank[b.point] {
				return rank[a.point] < rank[b.point]
			}
			pa, pb := a.arg, b.arg
			if a.point == "update-send" {
				pa, pb = a.arg>>8, b.arg>>8
			}
			return c.widx(pa) < c.widx(pb)
		})
		sort.SliceStable(c.pendSpwn, func(i, j int) bool {
			return c.batchSeq[c.pendSpwn[i].gid] < c.batchSeq[c.pendSpwn[j].gid]
		})
		for _, g := range c.pendSend {
			acts = append(acts, action{"deliver", g})
		}
		for _, g := range c.pendSpwn {
			acts = append(acts, action{"spawn", g})
		}
		if c.nextEv < len(p.Events) {
			acts = append(acts, action{"event", nil})
		}
		if len(acts) == 0 {
			break
		}
		ch := 0
		if len(acts) > 1 {
			ch = c.rec.Choose("step", len(acts))
		}
		a := acts[ch]
		switch a.kind {
		case "deliver":
			for i, g := range c.pendSend {
				if g == a.g {
					c.pendSend = append(c.pendSend[:i], c.pendSend[i+1:]...)
					break
				}
			}
			c.deliver(a.g)
		case "spawn":
			for i, g := range c.pendSpwn {
				if g == a.g {
					c.pendSpwn = append(c.pendSpwn[:i], c.pendSpwn[i+1:]...)
					break
				}
			}
			c.runSpawn(a.g)
		case "event":
			ev := p.Events[c.nextEv]
			c.nextEv++
			c.fire(ev)
		}
		c.checkBounds("after " + c.res.Actions[len(c.res.Actions)-1])
	}
	// ---- quiescence: every worker idle, everything drained
	if c.res.Harness == "" {
		for _, w := range c.workers {
			if w.alive && w.addDone && w.state == server.WORKER_STATE_BUSY {
				w.state = server.WORKER_STATE_IDLE
				c.act(fmt.Sprintf("quiesce idle(w%d)", c.widx(w.pid)))
				c.frame(w.pid, server.WORKER_STATE_IDLE)
			}
			for len(c.pendSend) > 0 || len(c.pendSpwn) > 0 {
				if c.res.Harness != "" {
					break
				}
				if len(c.pendSend) > 0 {
					g := c.pendSend[0]
					c.pendSend = c.pendSend[1:]
					c.deliver(g)
				} else {
					g := c.pendSpwn[0]
					c.pendSpwn = c.pendSpwn[1:]
					c.runSpawn(g)
				}
				c.checkBounds("while draining")
			}
		}
		for (len(c.pendSend) > 0 || len(c.pendSpwn) > 0) && c.res.Harness == "" {
			if len(c.pendSend) > 0 {
				g := c.pendSend[0]
				c.pendSend = c.pendSend[1:]
				c.deliver(g)
			} else {
				g := c.pendSpwn[0]
				c.pendSpwn = c.pendSpwn[1:]
				c.runSpawn(g)
			}
			c.checkBounds("while draining")
		}
	}
	if c.res.Harness == "" {
		a := c.alive()
		if a < p.Init {
			c.res.Violations = append(c.res.Violations, fmt.Sprintf("quiet system has %d live workers, fewer than init-procs %d", a, p.Init))
		}
		// the master's registry equals the set of live processes
		if c.lastLive != a {
			c.res.Violations = append(c.res.Violations, fmt.Sprintf("quiet system: master registers %d children, %d worker processes are alive", c.lastLive, a))
		}
	}
	c.res.Log = c.rec.Log
	return c.res
}
