package pm

// Real-worker family of C20: the real master AND the real StartWorker (with a
// handler the controller can make hang), free-running — no gates.  This is a
// small enumerated family of request scenarios, not an exhaustive exploration:
// it covers the part of the property that is about real time-outs (a hung worker
// is terminated and replaced without disturbing the others; every request is
// served by exactly one worker, one at a time).

import (
	"fmt"
	"io"
	"log"
	"net"
	"net/http"
	"os"
	"os/exec"
	"runtime"
	"strings"
	"sync"
	"syscall"
	"time"

	"github.com/DemoHn/Zn/pkg/server"
)

// RealWorker is what the re-executed binary does for VERIF_REAL_WORKER=1.
func RealWorker() {
	log.SetOutput(io.Discard)
	srv := server.NewZnPMServer(server.ZnPMServerConfig{})
	srv.SetHandler(http.HandlerFunc(func(w http.ResponseWriter, r *http.Request) {
		switch {
		case strings.HasPrefix(r.URL.Path, "/child"):
			// the request starts a helper program that inherits the worker's output files and
			// outlives it (a handler that runs an external program which hangs), then hangs itself
			helper := exec.Command("sleep", "40."+r.URL.Query().Get("m"))
			helper.Stdout, helper.Stderr = os.Stdout, os.Stderr
			_ = helper.Start()
			select {}
		case strings.HasPrefix(r.URL.Path, "/hang"):
			select {} // never returns: the worker's time-out must fire
		case strings.HasPrefix(r.URL.Path, "/slow"):
			time.Sleep(300 * time.Millisecond)
		}
		w.Header().Add("Content-Type", "text/plain")
		w.WriteHeader(200)
		fmt.Fprintf(w, "ok %d %s", os.Getpid(), r.URL.Path)
	}))
	if err := srv.StartWorker(); err != nil {
		os.Exit(1)
	}
}

// RealParams: Requests is a sequence over F (fast), S (slow, 300 ms), H (hangs), C (starts a helper
// program that inherits the worker's output files and outlives it, then hangs), P (no request:
// wait for everything in flight, then stay idle for 1.6 s, longer than the 1 s --timeout); request
// i+1 is issued as soon as request i has been picked up by a worker (its worker
// reported BUSY) — arrivals are ordered by events, not by sleeping.
type RealParams struct {
	Init     int    `json:"init"`
	Max      int    `json:"max"`
	Requests string `json:"requests"`
}

type RealResult struct {
	Violations []string `json:"violations"`
	Harness    string   `json:"harness_error,omitempty"`
	Outcomes   []string `json:"outcomes"`
	Reports    []string `json:"state_reports"`
	FinalLive  int      `json:"final_live"`
	MaxLive    int      `json:"max_live"`
}

// RealMaster runs one scenario in this (fresh) process.
func RealMaster(p RealParams) (res RealResult) {
	log.SetOutput(os.Stderr) // the master's log.Fatal must not be silent: the caller captures stderr
	os.Setenv("VERIF_REAL_WORKER", "1")
	// a free port
	l, err := net.Listen("tcp", "127.0.0.1:0")
	if err != nil {
		res.Harness = err.Error()
		return
	}
	addr := l.Addr().String()
	l.Close()

	var mu sync.Mutex
	live, maxLive := 0, 0
	busyNow := map[int]bool{}
	var reports []string
	busyCount := 0
	busySig := make(chan int, 64)
	var pids []int
	server.VerifHook = func(point string, zns *server.ZnPMServer, arg int) {
		mu.Lock()
		defer mu.Unlock()
		switch point {
		case "add-send":
			pids = append(pids, arg)
		case "update-send":
			pid, st := arg>>8, uint8(arg&0xff)
			reports = append(reports, fmt.Sprintf("%d:%d", pid, st))
			if st == server.WORKER_STATE_BUSY {
				if busyNow[pid] {
					res.Violations = append(res.Violations, fmt.Sprintf("worker %d reported BUSY twice without IDLE in between (serving two requests at once)", pid))
				}
				busyNow[pid] = true
				busyCount++
				select {
				case busySig <- pid:
				default:
				}
			} else {
				busyNow[pid] = false
			}
		case "loop-done":
			n, _, _ := zns.VerifSnapshot()
			live = n
			if n > maxLive {
				maxLive = n
			}
			if n > p.Max {
				res.Violations = append(res.Violations, fmt.Sprintf("master registered %d children under max-procs %d", n, p.Max))
			}
		}
	}
	cfg := server.ZnPMServerConfig{InitProcs: p.Init, MaxProcs: p.Max, Timeout: 1}
	srv := server.NewZnPMServer(cfg)
	go func() {
		if err := srv.StartMaster("tcp://"+addr, cfg); err != nil {
			mu.Lock()
			res.Harness = "StartMaster: " + err.Error()
			mu.Unlock()
		}
	}()
	defer func() {
		// StartMaster only kills its children on a signal: kill them and remove the named pipe
		mu.Lock()
		pipe := ""
		for _, pid := range pids {
			if b, err := os.ReadFile(fmt.Sprintf("/proc/%d/environ", pid)); err == nil {
				for _, kv := range strings.Split(string(b), "\x00") {
					if strings.HasPrefix(kv, server.EnvNamedPipeID+"=") {
						pipe = strings.TrimPrefix(kv, server.EnvNamedPipeID+"=")
					}
				}
			}
			syscall.Kill(pid, syscall.SIGKILL)
		}
		if pipe != "" {
			os.Remove("/tmp/zinc-server-pipe-" + pipe)
		}
		if strings.Contains(p.Requests, "C") {
			_ = exec.Command("pkill", "-f", fmt.Sprintf("sleep 40.%d", os.Getpid())).Run()
		}
		res.Reports = reports
		res.MaxLive = maxLive
		res.FinalLive = live
		mu.Unlock()
	}()
	waitLive := func(n int, d time.Duration) bool {
		end := time.Now().Add(d)
		for time.Now().Before(end) {
			mu.Lock()
			ok := live >= n
			mu.Unlock()
			if ok {
				return true
			}
			time.Sleep(20 * time.Millisecond)
		}
		return false
	}
	if !waitLive(p.Init, 15*time.Second) {
		res.Harness = "initial workers did not register within 15 s"
		return
	}
	type outcome struct {
		idx  int
		text string
	}
	outc := make(chan outcome, len(p.Requests))
	client := func(i int, kind byte) {
		path := map[byte]string{'F': "/fast", 'S': "/slow", 'H': "/hang", 'C': "/child"}[kind]
		query := ""
		if kind == 'C' {
			query = fmt.Sprintf("?m=%d", os.Getpid())
		}
		conn, err := net.DialTimeout("tcp", addr, 5*time.Second)
		if err != nil {
			outc <- outcome{i, "dial-error " + err.Error()}
			return
		}
		defer conn.Close()
		conn.SetDeadline(time.Now().Add(9 * time.Second))
		fmt.Fprintf(conn, "GET %s%d%s HTTP/1.1\r\nHost: x\r\n\r\n", path, i, query)
		b, err := io.ReadAll(conn)
		s := string(b)
		switch {
		case strings.Contains(s, "200 OK") && strings.Contains(s, "ok "):
			body := s[strings.Index(s, "ok "):]
			outc <- outcome{i, "response " + body}
		case len(b) == 0:
			outc <- outcome{i, "closed-without-response"}
		default:
			outc <- outcome{i, "garbled " + fmt.Sprintf("%q %v", s, err)}
		}
	}
	res.Outcomes = make([]string, len(p.Requests))
	issued, received := 0, 0
	drain := func() bool {
		for received < issued {
			select {
			case o := <-outc:
				res.Outcomes[o.idx] = o.text
				received++
			case <-time.After(12 * time.Second):
				res.Violations = append(res.Violations, "a request got neither a response nor a closed connection within 12 s")
				return false
			}
		}
		return true
	}
	for i := 0; i < len(p.Requests); i++ {
		if p.Requests[i] == 'G' {
			// two garbage collections in the master process (the Go runtime forces one at least
			// every two minutes of a real server's life): nothing the master holds only loosely may go
			if !drain() {
				return
			}
			runtime.GC()
			runtime.GC()
			time.Sleep(50 * time.Millisecond)
			res.Outcomes[i] = "gc"
			continue
		}
		if p.Requests[i] == 'P' {
			// a pause longer than --timeout with no request in flight: the workers sit idle
			if !drain() {
				return
			}
			time.Sleep(1600 * time.Millisecond)
			res.Outcomes[i] = "pause"
			continue
		}
		mu.Lock()
		before := busyCount
		mu.Unlock()
		issued++
		go client(i, p.Requests[i])
		// wait until some worker picked it up (BUSY report), bounded
		end := time.Now().Add(4 * time.Second)
		for time.Now().Before(end) {
			mu.Lock()
			ok := busyCount > before
			mu.Unlock()
			if ok {
				break
			}
			time.Sleep(5 * time.Millisecond)
		}
	}
	if !drain() {
		return
	}
	served := map[string]int{}
	for i, o := range res.Outcomes {
		kind := p.Requests[i]
		switch {
		case kind == 'P' || kind == 'G':
		case kind == 'H' || kind == 'C':
			if !strings.HasPrefix(o, "closed-without-response") {
				res.Violations = append(res.Violations, fmt.Sprintf("hanging request %d: expected the connection to be closed when its worker is terminated, got %s", i, o))
			}
		default:
			want := fmt.Sprintf("/%s%d", map[byte]string{'F': "fast", 'S': "slow"}[kind], i)
			if !strings.HasPrefix(o, "response ok ") || !strings.HasSuffix(o, want) {
				res.Violations = append(res.Violations, fmt.Sprintf("request %d (%c): expected exactly its own response, got %s", i, kind, o))
			} else {
				served[o]++
			}
		}
	}
	// quiet again: the pool returns to at least init-procs (generous bound: respawn delay is 100 ms)
	time.Sleep(300 * time.Millisecond)
	if !waitLive(p.Init, 8*time.Second) {
		res.Violations = append(res.Violations, fmt.Sprintf("pool did not return to init-procs %d within 8 s of quiet", p.Init))
	}
	return
}
