// Package mc is the shared runner of every check: sharded worker subprocesses,
// heartbeat / hang watchdog, panic containment, 5x confirmation of failures in
// fresh processes, known-finding classification, replay files and evidence.
//
// A check enumerates its bounded space inside Run; it never samples.  The
// runner only adds process isolation and bookkeeping around that enumeration.
package mc

import (
	"bytes"
	"encoding/json"
	"fmt"
	"os"
	"os/exec"
	"runtime"
	"runtime/debug"
	"sort"
	"sync"
	"sync/atomic"
	"time"
)

// Check is one property's machinery.
type Check struct {
	ID          string
	Level       string // evidence "level": exploration | model_checking | ...
	Rule        string // how cases are enumerated / what counts as non-trivial
	Assumptions []string
	// Shards returns the number of worker processes for a tier (0 = default 16).
	Shards func(tier string) int
	// Run enumerates this worker's share of the space (use c.Mine).
	Run func(c *Ctx)
	// Replay re-executes exactly one recorded case (no explorer in the loop)
	// and reports through c.Fail if it still fails.
	Replay func(c *Ctx, raw json.RawMessage)
	// Aux runs a helper computation in a FRESH process (e.g. a clean baseline) and
	// returns its result as text: zncheck -id X -aux <arg> prints it.
	Aux func(arg string) string
	// Budget is the internal deadline per tier; on expiry the run stops, reports
	// exhaustive:false and still exits 0.
	Budget func(tier string) time.Duration
	// MinRefCompleted is the vacuity floor of a check whose oracle is the reference interpreter:
	// the share of reference runs that must complete without a fault (and not open).  A run below
	// it is a HARNESS error (exit 2), never a violation: it depends on the harness alone.
	// 0 = the default floor (see parent.go).
	MinRefCompleted float64
}

// ExtraStats are added to every worker's statistics when it ends (the reference interpreter
// registers its run counters here; mc does not import it).
var ExtraStats []func() map[string]int64

// ChildWorker, when set, is what the binary does when it is started with the
// argument --child-worker (the prefork master of C20 re-executes os.Args[0]).
var ChildWorker func()

var registry = map[string]*Check{}

// Register adds a check (called from init functions).
func Register(c *Check) { registry[c.ID] = c }

// Lookup finds a registered check.
func Lookup(id string) *Check { return registry[id] }

// IDs lists registered ids.
func IDs() []string {
	var out []string
	for k := range registry {
		out = append(out, k)
	}
	sort.Strings(out)
	return out
}

// Failure is one case on which the property did not hold.
type Failure struct {
	// Sig is the classifier's signature ("" = unclassified).  A failure is a
	// known finding only if KNOWN_FINDINGS.txt lists "open: property=<id> sig=<Sig>".
	Sig string `json:"sig"`
	// Bucket is a coarse diagnostic grouping (not used for known-finding matching).
	Bucket   string          `json:"bucket,omitempty"`
	Kind     string          `json:"kind"` // mismatch | panic | hang | crash
	Case     json.RawMessage `json:"case"`
	Expected string          `json:"expected,omitempty"`
	Observed string          `json:"observed,omitempty"`
	Detail   string          `json:"detail,omitempty"`
	// At is where the worker was when the case failed (set by Fail).
	At *HistInfo `json:"at,omitempty"`
	// Hist is set by the parent when the case passes on its own in a fresh
	// process but fails, every time, after the cases that preceded it in its
	// worker: replay then re-runs that prefix of the worker's enumeration.
	Hist *HistInfo `json:"history,omitempty"`
}

// HistInfo identifies a prefix of one worker's enumeration.
type HistInfo struct {
	Shard   int    `json:"shard"`
	NShards int    `json:"nshards"`
	Resume  int64  `json:"resume"`
	UpTo    int64  `json:"upto"`
	Tier    string `json:"tier"`
	Seed    int64  `json:"seed"`
}

// Result is what one worker (or a merge of workers) reports.
type Result struct {
	Evaluations  int64            `json:"evaluations"`
	Nontrivial   int64            `json:"nontrivial"`
	Stats        map[string]int64 `json:"stats"`
	Samples      []any            `json:"samples"`
	Failures     []Failure        `json:"failures"`
	FailureCount map[string]int64 `json:"failure_count"` // by sig ("" for unclassified)
	BucketCount  map[string]int64 `json:"bucket_count"`
	Exhaustive   bool             `json:"exhaustive"`
	Notes        []string         `json:"notes"`
	HangIdx      int64            `json:"hang_idx"` // -1 = none
	Bounds       map[string]any   `json:"bounds"`
}

func newResult() *Result {
	return &Result{Stats: map[string]int64{}, FailureCount: map[string]int64{}, BucketCount: map[string]int64{}, Exhaustive: true, HangIdx: -1, Bounds: map[string]any{}}
}

type curCase struct {
	idx   int64
	descr func() json.RawMessage
}

// Ctx is handed to Run / Replay.
type Ctx struct {
	Tier    string
	Seed    int64
	Shard   int
	NShards int
	Resume  int64 // cases with index < Resume were already done by a previous incarnation
	UpTo    int64 // >= 0: cases with a larger index are skipped (prefix replay of a history-dependent failure)
	Replay  bool

	// Describe, if set, maps a case index published with CaseIdx to its
	// replayable description (rank/unrank style enumerations).
	Describe func(idx int64) json.RawMessage

	mu       sync.Mutex
	res      *Result
	cur      atomic.Pointer[curCase]
	curIdx   atomic.Int64
	ticks    atomic.Int64
	slow     atomic.Int64 // AllowSlow: seconds the current case may take (0 = default)
	active   atomic.Bool
	deadline time.Time
	expired  atomic.Bool
	maxKeep  int
	keepSig  map[string]int
	trace    *os.File // see traceCase
	dueCnt   int64
}

// Mine reports whether case index i belongs to this worker (and was not
// completed by an earlier incarnation of it).
func (c *Ctx) Mine(i int64) bool {
	if c.UpTo >= 0 && i > c.UpTo {
		return false
	}
	return i >= c.Resume && int(i%int64(c.NShards)) == c.Shard
}

// Case publishes the case the worker is on (heartbeat for the hang watchdog).
// descr is only called if the case hangs or kills the process.
func (c *Ctx) Case(idx int64, descr func() json.RawMessage) {
	c.slow.Store(0)
	c.cur.Store(&curCase{idx: idx, descr: descr})
	c.curIdx.Store(idx)
	c.ticks.Add(1)
	c.active.Store(true)
	if c.trace != nil {
		c.traceCase(idx, descr)
	}
}

// CaseIdx is the allocation-free heartbeat for enumerations whose cases can be
// rebuilt from their index through c.Describe.
func (c *Ctx) CaseIdx(idx int64) {
	c.slow.Store(0)
	c.curIdx.Store(idx)
	c.ticks.Add(1)
	c.active.Store(true)
	if c.trace != nil {
		c.traceCase(idx, nil)
	}
}

// traceCase (only in the re-run of a shard whose worker died without a result): the case
// about to run is written to a file first, so that the parent can name the case that
// killed the process (a fatal runtime error cannot be recovered).
func (c *Ctx) traceCase(idx int64, descr func() json.RawMessage) {
	var d json.RawMessage
	func() {
		defer func() { recover() }()
		if descr != nil {
			d = descr()
		} else if cc := c.cur.Load(); cc != nil && cc.idx == idx && cc.descr != nil {
			d = cc.descr()
		} else if c.Describe != nil {
			d = c.Describe(idx)
		}
	}()
	b, _ := json.Marshal(map[string]any{"idx": idx, "case": d})
	_ = c.trace.Truncate(0)
	_, _ = c.trace.WriteAt(b, 0)
}

// AllowSlow gives the case just published more time than the default 20 s before the watchdog
// calls it a hang (a case that is slow by design, e.g. recursion down to the interpreter's own
// limit: seconds on an idle machine, much longer on a loaded one).  Reset by the next case.
func (c *Ctx) AllowSlow(seconds int64) { c.slow.Store(seconds) }

// Idle tells the watchdog that no case is in flight (e.g. while merging).
func (c *Ctx) Idle() { c.active.Store(false); c.ticks.Add(1) }

// Eval counts one evaluated case; nontrivial by the check's stated rule.
func (c *Ctx) Eval(nontrivial bool) {
	c.res.Evaluations++
	if nontrivial {
		c.res.Nontrivial++
	}
}

// EvalN counts n evaluated cases of which k were non-trivial.
func (c *Ctx) EvalN(n, k int64) { c.res.Evaluations += n; c.res.Nontrivial += k }

// Stat adds to a named counter that ends up in evidence coverage.
func (c *Ctx) Stat(name string, d int64) { c.res.Stats[name] += d }

// StatMax keeps the maximum.
func (c *Ctx) StatMax(name string, v int64) {
	if v > c.res.Stats[name] {
		c.res.Stats[name] = v
	}
}

// Bound records a bound that was completed (goes to evidence).
func (c *Ctx) Bound(name string, v any) { c.res.Bounds[name] = v }

// Note adds a free-text note to evidence.
func (c *Ctx) Note(s string) {
	if len(c.res.Notes) < 50 {
		c.res.Notes = append(c.res.Notes, s)
	}
}

// Sample records an example case (first few only, shard 0 keeps more).
func (c *Ctx) Sample(v any) {
	if len(c.res.Samples) < 4 {
		c.res.Samples = append(c.res.Samples, v)
	}
}

// WantSample reports whether another sample would be kept.
func (c *Ctx) WantSample() bool { return len(c.res.Samples) < 4 }

// Fail records a failing case.  Only the first few per signature are kept in
// full; all are counted.
func (c *Ctx) Fail(f Failure) {
	c.mu.Lock()
	defer c.mu.Unlock()
	if !c.Replay && f.At == nil {
		f.At = &HistInfo{Shard: c.Shard, NShards: c.NShards, Resume: c.Resume, UpTo: c.curIdx.Load(), Tier: c.Tier, Seed: c.Seed}
	}
	c.res.FailureCount[f.Sig]++
	k := f.Sig + "\x00" + f.Bucket
	if f.Bucket != "" {
		c.res.BucketCount[f.Sig+"/"+f.Bucket]++
	}
	if c.keepSig[k] < c.maxKeep {
		c.keepSig[k]++
		c.res.Failures = append(c.res.Failures, f)
	}
}

// Expired reports whether the internal deadline has passed; a check polls it
// at coarse granularity, stops, and the run is reported exhaustive:false.
func (c *Ctx) Expired() bool {
	if c.expired.Load() {
		return true
	}
	if !c.deadline.IsZero() && time.Now().After(c.deadline) {
		c.expired.Store(true)
		c.mu.Lock()
		c.res.Exhaustive = false
		c.mu.Unlock()
		return true
	}
	return false
}

// Due is the deadline poll for enumeration loops: called once per case of THIS worker,
// it looks at the clock every mask+1 calls (mask = 2^k - 1).  (Polling on the global case
// index instead would let only one shard ever look.)
func (c *Ctx) Due(mask int64) bool {
	c.dueCnt++
	return c.dueCnt&mask == 0 && c.Expired()
}

// Inexhaustive marks the run as not having completed its space.
func (c *Ctx) Inexhaustive(why string) {
	c.mu.Lock()
	c.res.Exhaustive = false
	c.mu.Unlock()
	c.Note(why)
}

// Try runs fn, converting a Go panic into a Failure of kind "panic".
// It returns false if fn panicked.
func (c *Ctx) Try(descr func() json.RawMessage, sig func(p any, stack string) string, fn func()) (ok bool) {
	defer func() {
		if p := recover(); p != nil {
			ok = false
			st := string(debug.Stack())
			s := ""
			if sig != nil {
				s = sig(p, st)
			}
			c.Fail(Failure{Sig: s, Kind: "panic", Case: descr(), Observed: fmt.Sprint(p), Detail: trimStack(st)})
		}
	}()
	fn()
	return true
}

func trimStack(s string) string {
	if len(s) > 2500 {
		return s[:2500]
	}
	return s
}

// J marshals v (helper for case descriptors).
func J(v any) json.RawMessage {
	b, err := json.Marshal(v)
	if err != nil {
		b, _ = json.Marshal(fmt.Sprint(v))
	}
	return b
}

// ---------------------------------------------------------------- worker

const (
	exitHang = 3
	hangSecs = 20
	memLimit = 6 << 30
)

// RunWorker executes one shard in this process and writes its Result to out.
func RunWorker(ch *Check, tier string, seed int64, shard, nshards int, resume, upto int64, out string) {
	c := &Ctx{Tier: tier, Seed: seed, Shard: shard, NShards: nshards, Resume: resume, UpTo: upto, res: newResult(), maxKeep: 3, keepSig: map[string]int{}}
	if ch.Budget != nil {
		c.deadline = time.Now().Add(ch.Budget(tier))
	}
	if tp := os.Getenv("VERIF_TRACE_CASES"); tp != "" {
		c.trace, _ = os.OpenFile(tp, os.O_CREATE|os.O_RDWR|os.O_TRUNC, 0o644)
	}
	debug.SetMemoryLimit(memLimit)
	// a runaway recursion of the code under test must end this worker quickly (a "fatal
	// error: stack overflow" cannot be recovered): do not let it eat 1 GB per worker first
	debug.SetMaxStack(256 << 20)
	write := func() {
		c.mu.Lock()
		b, _ := json.Marshal(c.res)
		c.mu.Unlock()
		_ = os.WriteFile(out+".tmp", b, 0o644)
		_ = os.Rename(out+".tmp", out)
	}
	// watchdog: a case that does not finish, or memory running away
	go func() {
		var ms runtime.MemStats
		lastTick, lastChange := int64(-1), time.Now()
		for {
			time.Sleep(500 * time.Millisecond)
			if t := c.ticks.Load(); t != lastTick {
				lastTick, lastChange = t, time.Now()
			}
			limit := int64(hangSecs)
			if sl := c.slow.Load(); sl > limit {
				limit = sl
			}
			stuck := c.active.Load() && time.Since(lastChange) > time.Duration(limit)*time.Second
			runtime.ReadMemStats(&ms)
			fat := ms.HeapAlloc > memLimit
			if stuck || fat {
				c.mu.Lock()
				if c.active.Load() {
					idx := c.curIdx.Load()
					cc := c.cur.Load()
					c.res.HangIdx = idx
					var d json.RawMessage
					func() {
						defer func() { recover() }()
						if cc != nil && cc.idx == idx && cc.descr != nil {
							d = cc.descr()
						} else if c.Describe != nil {
							d = c.Describe(idx)
						}
					}()
					why := fmt.Sprintf("case did not finish within %d s", limit)
					if fat {
						why = "heap grew beyond 6 GiB"
					}
					c.res.Failures = append(c.res.Failures, Failure{Kind: "hang", Case: d, Observed: why})
					c.res.FailureCount[""]++
				}
				c.res.Exhaustive = c.res.Exhaustive && true
				b, _ := json.Marshal(c.res)
				_ = os.WriteFile(out, b, 0o644)
				os.Exit(exitHang)
			}
		}
	}()
	ch.Run(c)
	c.Idle()
	for _, f := range ExtraStats {
		for k, v := range f() {
			if v != 0 {
				c.res.Stats[k] += v
			}
		}
	}
	write()
}

// RunReplay re-executes one recorded case; exit status 1 if it fails.
func RunReplay(ch *Check, tier string, file string) int {
	b, err := os.ReadFile(file)
	if err != nil {
		fmt.Println("replay: cannot read", file, err)
		return 2
	}
	var f Failure
	if err := json.Unmarshal(b, &f); err != nil {
		fmt.Println("replay: bad file", err)
		return 2
	}
	debug.SetMaxStack(256 << 20)
	if f.Hist != nil {
		return runHistReplay(ch, &f)
	}
	c := &Ctx{Tier: tier, NShards: 1, UpTo: -1, Replay: true, res: newResult(), maxKeep: 10, keepSig: map[string]int{}}
	done := make(chan struct{})
	go func() {
		defer close(done)
		defer func() {
			if p := recover(); p != nil {
				c.Fail(Failure{Kind: "panic", Case: f.Case, Observed: fmt.Sprint(p), Detail: trimStack(string(debug.Stack()))})
			}
		}()
		ch.Replay(c, f.Case)
	}()
	select {
	case <-done:
	case <-time.After(30 * time.Second):
		fmt.Printf("REPLAY property=%s result=HANG (no result after 30 s)\n", ch.ID)
		return 1
	}
	if len(c.res.Failures) == 0 {
		fmt.Printf("REPLAY property=%s result=PASS\n", ch.ID)
		return 0
	}
	for _, x := range c.res.Failures {
		fmt.Printf("REPLAY property=%s result=FAIL kind=%s sig=%q expected=%s observed=%s\n", ch.ID, x.Kind, x.Sig, x.Expected, x.Observed)
	}
	return 1
}

// RunAux spawns a fresh process of this binary to evaluate ch.Aux(arg).
func RunAux(id, arg string) (string, error) {
	cmd := exec.Command(os.Args[0], "-id", id, "-aux", arg)
	cmd.Stderr = os.Stderr
	out, err := cmd.Output()
	return string(out), err
}

// SameCase compares two case descriptors modulo JSON white space.
func SameCase(a, b json.RawMessage) bool {
	var x, y bytes.Buffer
	if json.Compact(&x, a) != nil || json.Compact(&y, b) != nil {
		return string(a) == string(b)
	}
	return x.String() == y.String()
}

// runHistReplay re-runs the recorded prefix of one worker's enumeration in this
// process and reports whether the recorded case fails again at its end.
func runHistReplay(ch *Check, f *Failure) int {
	h := f.Hist
	c := &Ctx{Tier: h.Tier, Seed: h.Seed, Shard: h.Shard, NShards: h.NShards, Resume: h.Resume, UpTo: h.UpTo, res: newResult(), maxKeep: 3, keepSig: map[string]int{}}
	limit := 30 * time.Minute
	if ch.Budget != nil {
		c.deadline = time.Now().Add(ch.Budget(h.Tier))
		limit = ch.Budget(h.Tier) + 2*time.Minute
	}
	done := make(chan struct{})
	go func() {
		defer close(done)
		defer func() { recover() }()
		ch.Run(c)
	}()
	select {
	case <-done:
	case <-time.After(limit):
		fmt.Printf("REPLAY property=%s result=HANG (history replay did not finish)\n", ch.ID)
		return 1
	}
	c.mu.Lock()
	defer c.mu.Unlock()
	for _, x := range c.res.Failures {
		if x.Kind == f.Kind && SameCase(x.Case, f.Case) {
			fmt.Printf("REPLAY property=%s result=FAIL (after the preceding cases of worker %d/%d) kind=%s sig=%q expected=%s observed=%s\n", ch.ID, h.Shard, h.NShards, x.Kind, x.Sig, x.Expected, x.Observed)
			return 1
		}
	}
	fmt.Printf("REPLAY property=%s result=PASS\n", ch.ID)
	return 0
}
