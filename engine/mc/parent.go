package mc

import (
	"bufio"
	"crypto/sha1"
	"encoding/hex"
	"encoding/json"
	"fmt"
	"os"
	"os/exec"
	"path/filepath"
	"sort"
	"strings"
	"sync"
	"time"
)

// VerifDir is the root of the verification tree.
var VerifDir = "/verif"

func init() {
	// scratch mode of /verif/check (seed evaluation in a worktree): outputs go elsewhere
	if d := os.Getenv("VERIF_DIR"); d != "" {
		VerifDir = d
	}
}

type knownFinding struct {
	sig  string
	text string
}

// loadKnown reads KNOWN_FINDINGS.txt: only "open:" lines for this property
// suppress anything; "fixed:" lines are documentation.
func loadKnown(id string) []knownFinding {
	f, err := os.Open(filepath.Join(VerifDir, "KNOWN_FINDINGS.txt"))
	if err != nil {
		return nil
	}
	defer f.Close()
	var out []knownFinding
	sc := bufio.NewScanner(f)
	sc.Buffer(make([]byte, 1<<20), 1<<20)
	for sc.Scan() {
		line := strings.TrimSpace(sc.Text())
		if !strings.HasPrefix(line, "open:") {
			continue
		}
		rest := strings.TrimSpace(strings.TrimPrefix(line, "open:"))
		fs := strings.Fields(rest)
		if len(fs) < 2 || fs[0] != "property="+id || !strings.HasPrefix(fs[1], "sig=") {
			continue
		}
		out = append(out, knownFinding{sig: strings.TrimPrefix(fs[1], "sig="), text: strings.TrimSpace(strings.Join(fs[2:], " "))})
	}
	return out
}

func merge(dst, src *Result) {
	dst.Evaluations += src.Evaluations
	dst.Nontrivial += src.Nontrivial
	for k, v := range src.Stats {
		if strings.HasPrefix(k, "max_") {
			if v > dst.Stats[k] {
				dst.Stats[k] = v
			}
		} else {
			dst.Stats[k] += v
		}
	}
	for _, s := range src.Samples {
		if len(dst.Samples) < 6 {
			dst.Samples = append(dst.Samples, s)
		}
	}
	dst.Failures = append(dst.Failures, src.Failures...)
	for k, v := range src.FailureCount {
		dst.FailureCount[k] += v
	}
	for k, v := range src.BucketCount {
		dst.BucketCount[k] += v
	}
	dst.Exhaustive = dst.Exhaustive && src.Exhaustive
	for _, n := range src.Notes {
		dup := false
		for _, m := range dst.Notes {
			if m == n {
				dup = true
			}
		}
		if !dup && len(dst.Notes) < 40 {
			dst.Notes = append(dst.Notes, n)
		}
	}
	for k, v := range src.Bounds {
		dst.Bounds[k] = v
	}
}

// RunParent drives a whole check: workers, confirmation, evidence, verdict.
// It returns the process exit status.
func RunParent(ch *Check, tier string, seed int64) int {
	t0 := time.Now()
	n := 16
	if ch.Shards != nil {
		if k := ch.Shards(tier); k > 0 {
			n = k
		}
	}
	runDir := filepath.Join(VerifDir, ".run", ch.ID+"-"+tier)
	_ = os.RemoveAll(runDir)
	_ = os.MkdirAll(runDir, 0o755)
	defer os.RemoveAll(runDir)
	runDirKeep := runDir

	total := newResult()
	var mu sync.Mutex
	var wg sync.WaitGroup
	crashed := 0
	for k := 0; k < n; k++ {
		wg.Add(1)
		go func(k int) {
			defer wg.Done()
			resume := int64(0)
			for attempt := 0; attempt < 40; attempt++ {
				out := filepath.Join(runDir, fmt.Sprintf("shard-%d-%d.json", k, attempt))
				cmd := exec.Command(os.Args[0], "-id", ch.ID, "-tier", tier, "-seed", fmt.Sprint(seed),
					"-worker", fmt.Sprintf("%d/%d", k, n), "-resume", fmt.Sprint(resume), "-out", out)
				// a worker that dies of a fatal runtime error prints a huge goroutine dump: keep the head only
				var errBuf cappedBuf
				cmd.Stderr = &errBuf
				cmd.Stdout = &errBuf
				cmd.Env = append(os.Environ(), "GOMAXPROCS=2")
				err := cmd.Run()
				if errBuf.n > 0 {
					fmt.Fprintf(os.Stderr, "[worker %d/%d stderr, first %d of %d bytes]\n%s\n", k, n, len(errBuf.b), errBuf.n, errBuf.b)
				}
				var r Result
				b, rerr := os.ReadFile(out)
				if rerr == nil {
					rerr = json.Unmarshal(b, &r)
				}
				if rerr != nil {
					// the worker died without a result (a fatal runtime error: stack overflow,
					// out of memory, os.Exit in the code under test).  Run the same part of the
					// shard again with every case written down before it runs, to name the case.
					tracePath := filepath.Join(runDir, fmt.Sprintf("trace-%d-%d.json", k, attempt))
					tcmd := exec.Command(os.Args[0], "-id", ch.ID, "-tier", tier, "-seed", fmt.Sprint(seed),
						"-worker", fmt.Sprintf("%d/%d", k, n), "-resume", fmt.Sprint(resume), "-out", out+".trace")
					var tbuf cappedBuf
					tcmd.Stderr, tcmd.Stdout = &tbuf, &tbuf
					tcmd.Env = append(os.Environ(), "GOMAXPROCS=2", "VERIF_TRACE_CASES="+tracePath)
					terr := tcmd.Run()
					var tr struct {
						Idx  int64           `json:"idx"`
						Case json.RawMessage `json:"case"`
					}
					tb, _ := os.ReadFile(tracePath)
					named := terr != nil && json.Unmarshal(tb, &tr) == nil && len(tr.Case) > 0 && string(tr.Case) != "null"
					mu.Lock()
					crashed++
					if named {
						total.Failures = append(total.Failures, Failure{Kind: "fatal", Bucket: "process-death", Case: tr.Case,
							Observed: fmt.Sprintf("the worker process died while running this case (%v): %s", err, clip(firstFatalLine(string(errBuf.b)), 300))})
					} else {
						total.Exhaustive = false
						total.Failures = append(total.Failures, Failure{Kind: "crash", Case: J(map[string]any{"shard": k, "attempt": attempt}),
							Observed: fmt.Sprintf("worker died without a result: %v", err)})
					}
					total.FailureCount[""]++
					mu.Unlock()
					if named {
						// the cases this worker completed before it died were lost with it: run them
						// once more (up to the case before the fatal one) and keep their results
						if tr.Idx > resume {
							pout := out + ".prefix"
							pcmd := exec.Command(os.Args[0], "-id", ch.ID, "-tier", tier, "-seed", fmt.Sprint(seed),
								"-worker", fmt.Sprintf("%d/%d", k, n), "-resume", fmt.Sprint(resume), "-upto", fmt.Sprint(tr.Idx-1), "-out", pout)
							var pbuf cappedBuf
							pcmd.Stderr, pcmd.Stdout = &pbuf, &pbuf
							pcmd.Env = append(os.Environ(), "GOMAXPROCS=2")
							_ = pcmd.Run()
							var pr Result
							if pb, perr := os.ReadFile(pout); perr == nil && json.Unmarshal(pb, &pr) == nil {
								mu.Lock()
								merge(total, &pr)
								mu.Unlock()
							} else {
								mu.Lock()
								total.Exhaustive = false
								total.Notes = append(total.Notes, fmt.Sprintf("shard %d: the cases before the fatal one could not be re-run", k))
								mu.Unlock()
							}
						}
						resume = tr.Idx + 1
						continue
					}
					return
				}
				mu.Lock()
				merge(total, &r)
				mu.Unlock()
				if err == nil {
					return
				}
				if r.HangIdx >= 0 {
					resume = r.HangIdx + 1
					continue
				}
				mu.Lock()
				total.Exhaustive = false
				total.Notes = append(total.Notes, fmt.Sprintf("shard %d exited abnormally: %v", k, err))
				mu.Unlock()
				return
			}
		}(k)
	}
	wg.Wait()

	// ---- confirmation: every kept failure is re-run 5x in fresh processes
	known := loadKnown(ch.ID)
	isKnown := func(sig string) *knownFinding {
		if sig == "" {
			return nil
		}
		for i := range known {
			if known[i].sig == sig {
				return &known[i]
			}
		}
		return nil
	}
	repDir := filepath.Join(VerifDir, "replays", ch.ID)
	_ = os.RemoveAll(repDir)
	_ = os.MkdirAll(repDir, 0o755)
	sort.SliceStable(total.Failures, func(i, j int) bool { return total.Failures[i].Sig < total.Failures[j].Sig })
	type verdict struct {
		f         Failure
		path      string
		confirmed bool
	}
	var verdicts []verdict
	perSig := map[string]int{}
	unrepro := int64(0)
	for _, f := range total.Failures {
		pk := f.Sig + "\x00" + f.Bucket
		if perSig[pk] >= 2 || len(verdicts) >= 40 {
			continue
		}
		perSig[pk]++
		b, _ := json.MarshalIndent(f, "", " ")
		h := sha1.Sum(b)
		p := filepath.Join(repDir, hex.EncodeToString(h[:6])+".json")
		_ = os.WriteFile(p, b, 0o644)
		ok := true
		if f.Kind != "crash" && ch.Replay != nil {
			reps := 5
			if f.Kind == "hang" || f.Kind == "fatal" {
				reps = 2 // each confirmation of a hang costs its full 30 s timeout, of a process death its stack or heap growth
			}
			for i := 0; i < reps && ok; i++ {
				cmd := exec.Command(os.Args[0], "-id", ch.ID, "-tier", tier, "-replay", p)
				done := make(chan error, 1)
				if err := cmd.Start(); err != nil {
					ok = false
					break
				}
				go func() { done <- cmd.Wait() }()
				select {
				case err := <-done:
					if err == nil {
						ok = false // passed on replay: not reproducible
					}
				case <-time.After(45 * time.Second):
					_ = cmd.Process.Kill()
					<-done // a hang reproduces as a hang
				}
			}
		}
		if !ok && f.At != nil && f.Kind != "hang" {
			// passes on its own: does it fail, every time, after the cases that
			// preceded it in its worker (state that survives in the process)?
			if histConfirm(ch, &f, runDirKeep) {
				ok = true
				h := *f.At
				f.Hist = &h
				b, _ = json.MarshalIndent(f, "", " ")
				_ = os.WriteFile(p, b, 0o644)
			}
		}
		if !ok {
			unrepro++
			_ = os.Remove(p)
			fmt.Printf("NOTE property=%s a failing case did not reproduce in a fresh process (not reported): kind=%s bucket=%q case=%s observed=%s\n", ch.ID, f.Kind, f.Bucket, clip(string(f.Case), 400), clip(f.Observed, 200))
		}
		verdicts = append(verdicts, verdict{f: f, path: p, confirmed: ok})
	}

	// ---- verdict lines
	violations := 0
	knownSeen := map[string]bool{}
	sigConfirmed := map[string]bool{}
	for _, v := range verdicts {
		if v.confirmed {
			sigConfirmed[v.f.Sig] = true
		}
	}
	for _, v := range verdicts {
		if !v.confirmed {
			continue
		}
		if k := isKnown(v.f.Sig); k != nil {
			if !knownSeen[v.f.Sig] {
				knownSeen[v.f.Sig] = true
				fmt.Printf("KNOWN-FINDING: property=%s sig=%s %s (%d cases this run; example replay=%s)\n", ch.ID, v.f.Sig, k.text, total.FailureCount[v.f.Sig], v.path)
			}
			continue
		}
		violations++
		fmt.Printf("VIOLATION property=%s replay=%s\n", ch.ID, v.path)
		if v.f.Hist != nil {
			fmt.Printf("  history-dependent: the case passes on its own in a fresh process and fails (twice out of twice) after the preceding cases of worker %d/%d; the replay file re-runs that prefix\n", v.f.Hist.Shard, v.f.Hist.NShards)
		}
		fmt.Printf("  kind=%s sig=%q bucket=%q expected=%s observed=%s\n", v.f.Kind, v.f.Sig, v.f.Bucket, clip(v.f.Expected, 300), clip(v.f.Observed, 300))
	}
	// signatures that were counted but whose examples are all known are fine;
	// anything counted under a signature that is not known and not printed yet
	// (because >3 examples) is already represented by its first examples.

	// ---- evidence
	cov := map[string]any{
		"evaluations":                total.Evaluations,
		"distinct_nontrivial":        total.Nontrivial,
		"rule":                       ch.Rule,
		"samples":                    total.Samples,
		"exhaustive":                 total.Exhaustive,
		"bounds":                     total.Bounds,
		"unreproducible":             unrepro,
		"workers":                    n,
		"failing_cases_by_signature": total.FailureCount,
		"failing_cases_by_bucket":    total.BucketCount,
	}
	for k, v := range total.Stats {
		cov[k] = v
	}
	if len(total.Notes) > 0 {
		cov["notes"] = total.Notes
	}
	if len(total.Samples) == 0 {
		cov["samples"] = []any{"(no sample recorded)"}
	}
	var kf []string
	for s := range knownSeen {
		kf = append(kf, s)
	}
	sort.Strings(kf)
	cov["known_findings_reproduced"] = kf
	ev := map[string]any{
		"property_id": ch.ID,
		"tier":        tier,
		"seed":        seed,
		"level":       ch.Level,
		"coverage":    cov,
		"assumptions": ch.Assumptions,
		"wall_s":      time.Since(t0).Seconds(),
		"violations":  violations,
	}
	eb, _ := json.MarshalIndent(ev, "", " ")
	_ = os.MkdirAll(filepath.Join(VerifDir, "evidence"), 0o755)
	_ = os.WriteFile(filepath.Join(VerifDir, "evidence", ch.ID+".json"), eb, 0o644)

	fmt.Printf("%s %s: evaluations=%d nontrivial=%d exhaustive=%v violations=%d known=%d unreproducible=%d wall=%.1fs\n",
		ch.ID, tier, total.Evaluations, total.Nontrivial, total.Exhaustive, violations, len(knownSeen), unrepro, time.Since(t0).Seconds())
	var sk []string
	for k := range total.Stats {
		sk = append(sk, k)
	}
	sort.Strings(sk)
	for _, k := range sk {
		fmt.Printf("  %s=%d\n", k, total.Stats[k])
	}
	if violations > 0 {
		return 1
	}
	// vacuity guard: an oracle that refuses (nearly) every generated program decides nothing.  The
	// share of reference runs that completed depends on the harness alone, not on the tree under test.
	if runs := total.Stats["ref_runs"]; runs >= 100 {
		floor := ch.MinRefCompleted
		if floor == 0 {
			floor = 0.10
		}
		if share := float64(total.Stats["ref_completed"]) / float64(runs); share < floor {
			fmt.Printf("HARNESS-ERROR property=%s vacuous: only %.1f%% of %d reference runs completed without a fault (floor %.0f%%) - the generator or its prelude is broken, nothing was decided\n",
				ch.ID, 100*share, runs, 100*floor)
			return 2
		}
	}
	return 0
}

// histConfirm re-runs, twice, in fresh processes, the prefix of the worker's
// enumeration that ended in f and reports whether f failed again both times.
func histConfirm(ch *Check, f *Failure, dir string) bool {
	h := f.At
	limit := 30 * time.Minute
	if ch.Budget != nil {
		limit = ch.Budget(h.Tier) + 2*time.Minute
	}
	for i := 0; i < 2; i++ {
		out := filepath.Join(dir, fmt.Sprintf("hist-%d-%d-%d.json", h.Shard, h.UpTo, i))
		cmd := exec.Command(os.Args[0], "-id", ch.ID, "-tier", h.Tier, "-seed", fmt.Sprint(h.Seed),
			"-worker", fmt.Sprintf("%d/%d", h.Shard, h.NShards), "-resume", fmt.Sprint(h.Resume), "-upto", fmt.Sprint(h.UpTo), "-out", out)
		var errBuf cappedBuf
		cmd.Stderr, cmd.Stdout = &errBuf, &errBuf
		cmd.Env = append(os.Environ(), "GOMAXPROCS=2")
		if err := cmd.Start(); err != nil {
			return false
		}
		done := make(chan error, 1)
		go func() { done <- cmd.Wait() }()
		select {
		case <-done:
		case <-time.After(limit):
			_ = cmd.Process.Kill()
			<-done
			return false
		}
		var r Result
		b, err := os.ReadFile(out)
		if err != nil || json.Unmarshal(b, &r) != nil {
			return false
		}
		again := false
		for _, x := range r.Failures {
			if x.Kind == f.Kind && SameCase(x.Case, f.Case) {
				again = true
			}
		}
		if !again {
			return false
		}
	}
	return true
}

// firstFatalLine picks the runtime's own verdict out of a dying worker's stderr.
func firstFatalLine(s string) string {
	for _, ln := range strings.Split(s, "\n") {
		if strings.HasPrefix(ln, "fatal error:") || strings.HasPrefix(ln, "runtime:") || strings.HasPrefix(ln, "panic:") {
			return ln
		}
	}
	return clip(s, 200)
}

// cappedBuf keeps the first 3000 bytes written to it.
type cappedBuf struct {
	b []byte
	n int
}

func (c *cappedBuf) Write(p []byte) (int, error) {
	c.n += len(p)
	if room := 3000 - len(c.b); room > 0 {
		if len(p) < room {
			room = len(p)
		}
		c.b = append(c.b, p[:room]...)
	}
	return len(p), nil
}

func clip(s string, n int) string {
	if len(s) > n {
		return s[:n] + "…"
	}
	return s
}
