package mc

import "fmt"

// E3: stateless deviation-bounded exploration of a recorded choice sequence.
// A run replays a prefix of choices, then takes alternative 0 (the default) at
// every later point.  Alternatives are explored while the number of
// deviations (non-zero choices) stays within the bound.

// Point is one recorded choice point.
type Point struct {
	Kind   string
	N      int
	Chosen int
}

// Recorder implements a chooser that replays a prefix and records the log.
type Recorder struct {
	Prefix []int
	Log    []Point
}

// Choose returns the prefix's choice if one is left, else 0.  An out-of-range
// replayed choice is a hard error (the execution diverged from its recording).
func (r *Recorder) Choose(kind string, n int) int {
	v := 0
	if i := len(r.Log); i < len(r.Prefix) {
		v = r.Prefix[i]
		if v >= n {
			panic(fmt.Sprintf("mc: replay divergence at point %d (%s): choice %d of %d", i, kind, v, n))
		}
	}
	r.Log = append(r.Log, Point{Kind: kind, N: n, Chosen: v})
	return v
}

// Choices returns the full choice sequence of the run.
func (r *Recorder) Choices() []int {
	out := make([]int, len(r.Log))
	for i, p := range r.Log {
		out[i] = p.Chosen
	}
	return out
}

// Explore runs `run` for every choice sequence with at most bound deviations.
// run receives a fresh Recorder primed with the prefix and must drive the
// system to completion through it.  visit is called after each run.
// It returns the number of executions.  stop (optional) aborts early.
func Explore(bound int, run func(rec *Recorder), stop func() bool) int64 {
	var count int64
	var rec func(prefix []int, devs int)
	rec = func(prefix []int, devs int) {
		if stop != nil && stop() {
			return
		}
		r := &Recorder{Prefix: prefix}
		run(r)
		count++
		if devs >= bound {
			return
		}
		log := r.Log
		choices := r.Choices()
		for i := len(prefix); i < len(log); i++ {
			for alt := 1; alt < log[i].N; alt++ {
				np := append(append([]int{}, choices[:i]...), alt)
				rec(np, devs+1)
			}
		}
	}
	rec(nil, 0)
	return count
}
