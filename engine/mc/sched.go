package mc

// Cooperative scheduler for E3: runs n bodies as goroutines, exactly one at a
// time; a body hands control back at every Yield.  Which runnable goroutine
// proceeds is a choice point of the Recorder (canonical order: the running
// goroutine first if still runnable, then ascending ids), so choice 0 = "keep
// running" and every non-zero choice is a deviation (a preemption, or a
// non-default pick after a goroutine finished).

type Sched struct {
	rec     *Recorder
	resume  []chan struct{}
	parked  chan int
	done    []bool
	current int
	// Preemptions counts switches away from a goroutine that could have continued.
	Preemptions int
	Steps       int
}

// Current returns the id of the goroutine that is running.
func (s *Sched) Current() int { return s.current }

// Yield parks the running goroutine until the scheduler picks it again.
func (s *Sched) Yield() {
	i := s.current
	s.parked <- i
	<-s.resume[i]
}

// RunSched executes the bodies to completion under rec's choices.
// setYield installs / removes the hook through which the code under test yields.
func RunSched(rec *Recorder, bodies []func(id int), setYield func(y func())) *Sched {
	n := len(bodies)
	s := &Sched{rec: rec, resume: make([]chan struct{}, n), parked: make(chan int), done: make([]bool, n), current: -1}
	for i := range s.resume {
		s.resume[i] = make(chan struct{})
	}
	setYield(s.Yield)
	defer setYield(nil)
	for i := 0; i < n; i++ {
		go func(i int) {
			<-s.resume[i]
			defer func() {
				// a panic in a body must not take the scheduler down
				recover()
				s.done[i] = true
				s.parked <- i
			}()
			bodies[i](i)
		}(i)
	}
	cur := -1
	for {
		var enabled []int
		if cur >= 0 && !s.done[cur] {
			enabled = append(enabled, cur)
		}
		for i := 0; i < n; i++ {
			if !s.done[i] && i != cur {
				enabled = append(enabled, i)
			}
		}
		if len(enabled) == 0 {
			break
		}
		c := 0
		if len(enabled) > 1 {
			c = rec.Choose("sched", len(enabled))
		}
		next := enabled[c]
		if cur >= 0 && !s.done[cur] && next != cur {
			s.Preemptions++
		}
		cur, s.current = next, next
		s.Steps++
		s.resume[next] <- struct{}{}
		<-s.parked
	}
	return s
}
