package zn

import (
	"fmt"
	"math"
	"sort"
	"strconv"
	"strings"
)

// V is a reference-interpreter value: float64, string, bool, Null, *LV, *DV,
// *OV, *FV, *CV, *XV.
type V interface{}

type Null struct{}

// LV is a list (1-indexed in the language).
type LV struct{ Items []V }

// DV is an insertion-ordered dictionary.
type DV struct {
	Keys []string
	M    map[string]V
}

// OV is an object: shared by reference.
type OV struct {
	Class *CV
	Props map[string]V
}

// FV is a user-defined method or a builtin.
type FV struct {
	Name    string
	Def     *Func
	Builtin string
	Module  *modEnv
}

// CV is a type.
type CV struct {
	Name    string
	Props   []string
	Default map[string]V
	Methods map[string]*FV
	Ctor    *FV
	Builtin bool // the predefined 异常
	Module  *modEnv
}

// XV is a builtin exception value (class 异常).
type XV struct {
	Msg      string
	MsgKnown bool // false for runtime faults: the message text is not specified
	Code     int  // runtime-fault code (0 for thrown exceptions)
}

func NewDV() *DV { return &DV{M: map[string]V{}} }

func (d *DV) Set(k string, v V) {
	if _, ok := d.M[k]; !ok {
		d.Keys = append(d.Keys, k)
	}
	d.M[k] = v
}

func (d *DV) Del(k string) {
	if _, ok := d.M[k]; !ok {
		return
	}
	delete(d.M, k)
	for i, x := range d.Keys {
		if x == k {
			d.Keys = append(append([]string{}, d.Keys[:i]...), d.Keys[i+1:]...)
			break
		}
	}
}

// Dup is the copy made by declaration and assignment: lists and dictionaries
// deeply, objects shared.
func Dup(v V) V {
	switch x := v.(type) {
	case *LV:
		out := &LV{Items: make([]V, len(x.Items))}
		for i, it := range x.Items {
			out.Items[i] = Dup(it)
		}
		return out
	case *DV:
		out := NewDV()
		for _, k := range x.Keys {
			out.Set(k, Dup(x.M[k]))
		}
		return out
	}
	return v
}

// NumText is the display form of a number (Go %v of a float64, which is what
// the manual's examples show: 8400, 0.5, 2.4687933425797506).
func NumText(f float64) string { return strconv.FormatFloat(f, 'g', -1, 64) }

// Canon renders a value structurally for comparison with the real interpreter.
func Canon(v V) string {
	var b strings.Builder
	canonP(&b, v, 0, &valPath{})
	return b.String()
}

// valPath: the containers being rendered right now.  A container met again on its own
// path is written as <cycle> (an object may hold a list that holds the object); without
// this a cyclic value with two references per level renders 2^depth nodes.
type valPath []V

func (vp *valPath) enter(b *strings.Builder, v V) bool {
	for _, p := range *vp {
		if p == v {
			b.WriteString("<cycle>")
			return false
		}
	}
	*vp = append(*vp, v)
	return true
}

func (vp *valPath) leave() { *vp = (*vp)[:len(*vp)-1] }

func canonNum(f float64) string {
	if math.IsNaN(f) {
		return "n:NaN"
	}
	return fmt.Sprintf("n:%016x", math.Float64bits(f))
}

func canonP(b *strings.Builder, v V, depth int, vp *valPath) {
	if depth > 40 {
		b.WriteString("<deep>")
		return
	}
	switch x := v.(type) {
	case nil:
		b.WriteString("<nil>")
	case float64:
		b.WriteString(canonNum(x))
	case string:
		b.WriteString(strconv.Quote(x))
	case bool:
		if x {
			b.WriteString("真")
		} else {
			b.WriteString("假")
		}
	case Null:
		b.WriteString("空")
	case *LV:
		if !vp.enter(b, x) {
			return
		}
		defer vp.leave()
		b.WriteByte('[')
		for i, it := range x.Items {
			if i > 0 {
				b.WriteByte(',')
			}
			canonP(b, it, depth+1, vp)
		}
		b.WriteByte(']')
	case *DV:
		if !vp.enter(b, x) {
			return
		}
		defer vp.leave()
		b.WriteByte('{')
		for i, k := range x.Keys {
			if i > 0 {
				b.WriteByte(',')
			}
			b.WriteString(strconv.Quote(k))
			b.WriteByte(':')
			canonP(b, x.M[k], depth+1, vp)
		}
		b.WriteByte('}')
	case *OV:
		if !vp.enter(b, x) {
			return
		}
		defer vp.leave()
		b.WriteString("obj:" + x.Class.Name + "{")
		ks := make([]string, 0, len(x.Props))
		for k := range x.Props {
			ks = append(ks, k)
		}
		sort.Strings(ks)
		for i, k := range ks {
			if i > 0 {
				b.WriteByte(',')
			}
			b.WriteString(k + ":")
			canonP(b, x.Props[k], depth+1, vp)
		}
		b.WriteByte('}')
	case *FV:
		b.WriteString("<method>")
	case *CV:
		b.WriteString("<type " + x.Name + ">")
	case *XV:
		if x.MsgKnown {
			b.WriteString("exc(" + strconv.Quote(x.Msg) + ")")
		} else {
			b.WriteString("exc(?)")
		}
	default:
		fmt.Fprintf(b, "<?%T>", v)
	}
}

// Equal is the structural equality of 为 / == on plain values; ok=false when a
// non-plain value (object, method, type, exception) is on the left.
func Equal(a, b V) (eq bool, ok bool) {
	switch x := a.(type) {
	case Null:
		_, is := b.(Null)
		return is, true
	case float64:
		y, is := b.(float64)
		return is && x == y, true
	case string:
		y, is := b.(string)
		return is && x == y, true
	case bool:
		y, is := b.(bool)
		return is && x == y, true
	case *LV:
		y, is := b.(*LV)
		if !is || len(x.Items) != len(y.Items) {
			return false, true
		}
		for i := range x.Items {
			e, ok := Equal(x.Items[i], y.Items[i])
			if !ok {
				return false, false
			}
			if !e {
				return false, true
			}
		}
		return true, true
	case *DV:
		y, is := b.(*DV)
		if !is || len(x.M) != len(y.M) {
			return false, true
		}
		for _, k := range x.Keys {
			yv, has := y.M[k]
			if !has {
				return false, true
			}
			e, ok := Equal(x.M[k], yv)
			if !ok {
				return false, false
			}
			if !e {
				return false, true
			}
		}
		return true, true
	}
	return false, false
}

// Display is the documented display form used by 显示, {} formatting and
// dictionary/list text: numbers by NumText, texts verbatim, 真/假/空, lists
// and dictionaries in [a，b] / [k=v，…] form in stored order.
func Display(v V) string {
	switch x := v.(type) {
	case float64:
		return NumText(x)
	case string:
		return x
	case bool:
		if x {
			return "真"
		}
		return "假"
	case Null:
		return "空"
	case *LV:
		var parts []string
		for _, it := range x.Items {
			parts = append(parts, Display(it))
		}
		return "[" + strings.Join(parts, "，") + "]"
	case *DV:
		var parts []string
		for _, k := range x.Keys {
			parts = append(parts, k+"="+Display(x.M[k]))
		}
		return "[" + strings.Join(parts, "，") + "]"
	}
	return Canon(v)
}
