package zn

import (
	"strings"
)

// Chooser resolves layout choice points.  kind names the point, n is the
// number of alternatives; 0 is always the default layout.
type Chooser interface {
	Choose(kind string, n int) int
}

// Default picks alternative 0 everywhere.
type Default struct{}

func (Default) Choose(string, int) int { return 0 }

// token kinds
const (
	kID = iota // identifier / number: must be separated from a neighbouring kID
	kKW        // keyword (cut greedily, no space needed)
	kOP        // + - * / % : needs a space on both sides
	kPU        // punctuation / other operator
	kST        // string literal
	kNL        // line break; Indent = indentation of the next line
	kLP        // opening bracket-like punctuation after which a line break is allowed
)

type Tok struct {
	S      string
	K      int
	Indent int
	// Brk marks punctuation after which the manual allows a line break
	// (， 、 { 【 ： ？) — used by the layout explorer.
	Brk bool
	// Comma marks a position where an optional ， may be inserted before this token.
	Comma bool
	// Semi marks a line break that separates two simple statements of one block
	// and may be written as ； instead.
	Semi bool
}

type renderer struct {
	ch   Chooser
	toks []Tok
	ind  int
	// lastDeclBlock: the statement just rendered was a 令 written in block form
	lastDeclBlock bool
}

// Render produces source text for a program under the chooser's layout.
func Render(p *Program, ch Chooser) string {
	if ch == nil {
		ch = Default{}
	}
	r := &renderer{ch: ch}
	r.program(p)
	return Layout(r.toks, ch)
}

// RenderExpr renders a single expression (default spellings unless chooser says otherwise).
func RenderExpr(e Expr, ch Chooser) string {
	if ch == nil {
		ch = Default{}
	}
	r := &renderer{ch: ch}
	r.expr(e, 0)
	return Layout(r.toks, ch)
}

// Tokens exposes the token stream (C03 corrupts it at token level).
func Tokens(p *Program, ch Chooser) []Tok {
	if ch == nil {
		ch = Default{}
	}
	r := &renderer{ch: ch}
	r.program(p)
	return r.toks
}

func (r *renderer) id(s string) { r.toks = append(r.toks, Tok{S: s, K: kID}) }
func (r *renderer) kw(s string) { r.toks = append(r.toks, Tok{S: s, K: kKW}) }
func (r *renderer) op(s string) { r.toks = append(r.toks, Tok{S: s, K: kOP}) }
func (r *renderer) pu(s string) { r.toks = append(r.toks, Tok{S: s, K: kPU}) }
func (r *renderer) nl()         { r.toks = append(r.toks, Tok{K: kNL, Indent: r.ind}) }

// punct with ASCII alternative
func (r *renderer) pa(full, ascii string, brk bool) {
	s := full
	if r.ch.Choose("punct:"+full, 2) == 1 {
		s = ascii
	}
	r.toks = append(r.toks, Tok{S: s, K: kPU, Brk: brk})
}
func (r *renderer) colon()  { r.pa("：", ":", true) }
func (r *renderer) qmark()  { r.pa("？", "?", true) }
func (r *renderer) bang()   { r.pa("！", "!", false) }
func (r *renderer) lparen() { r.pa("（", "(", false) }
func (r *renderer) rparen() { r.pa("）", ")", false) }
func (r *renderer) lbrk()   { r.pa("【", "[", true) }
func (r *renderer) rbrk()   { r.pa("】", "]", false) }
func (r *renderer) pause()  { r.toks = append(r.toks, Tok{S: "、", K: kPU, Brk: true}) }
func (r *renderer) comma()  { r.pa("，", ",", true) }

func (r *renderer) str(v string, lib bool) {
	if lib {
		r.toks = append(r.toks, Tok{S: "《" + EncodeStr(v) + "》", K: kST})
		return
	}
	if r.ch.Choose("quote", 2) == 1 {
		r.toks = append(r.toks, Tok{S: "「" + EncodeStr(v) + "」", K: kST})
		return
	}
	r.toks = append(r.toks, Tok{S: "“" + EncodeStr(v) + "”", K: kST})
}

// EncodeStr writes a text as a literal body (canonical encoder of C13).
func EncodeStr(v string) string {
	var b strings.Builder
	for _, ch := range v {
		switch ch {
		case 0:
			b.WriteString("`U+0`")
		case '`':
			b.WriteString("`BK`")
		case '“', '”', '「', '」', '‘', '’', '『', '』', '《', '》':
			b.WriteRune('`')
			b.WriteRune(ch)
			b.WriteRune('`')
		default:
			b.WriteRune(ch)
		}
	}
	return b.String()
}

// precedence levels: 1 或, 2 且, 3 comparison, 5 + -, 6 * / | %, 7 postfix/basic
func prec(op string) int {
	switch op {
	case "或":
		return 1
	case "且":
		return 2
	case "==", "/=", ">", "<", ">=", "<=", "为", "不为":
		return 3
	case "+", "-":
		return 5
	case "*", "/", "|", "%":
		return 6
	}
	return 7
}

var opAlt = map[string][]string{
	"==": {"==", "等于"}, "/=": {"/=", "不等于"}, ">": {">", "大于"}, "<": {"<", "小于"},
	">=": {">=", "不小于"}, "<=": {"<=", "不大于"},
}

// OpSpellings lists every spelling of a canonical operator.
func OpSpellings(op string) []string {
	if a, ok := opAlt[op]; ok {
		return a
	}
	return []string{op}
}

func (r *renderer) braced(e Expr) {
	r.toks = append(r.toks, Tok{S: "{", K: kPU, Brk: true})
	r.expr(e, 0)
	r.pu("}")
}

// expr renders e where the context requires precedence >= min.
func (r *renderer) expr(e Expr, min int) {
	switch v := e.(type) {
	case Num:
		r.id(v.Lit)
	case Str:
		r.str(v.Val, false)
	case Var:
		r.id(v.Name)
	case Bin:
		p := prec(v.Op)
		if p < min {
			r.braced(e)
			return
		}
		lmin, rmin := p, p+1
		if p == 3 {
			lmin, rmin = 5, 5 // comparisons do not chain; their operands are below assignment level too
		}
		r.expr(v.L, lmin)
		sp := OpSpellings(v.Op)
		s := sp[0]
		if len(sp) > 1 {
			a := v.Alt
			if a == 0 {
				a = r.ch.Choose("op:"+v.Op, len(sp))
			} else {
				a = a % len(sp)
			}
			s = sp[a]
		}
		switch v.Op {
		case "+", "-", "*", "/", "%":
			r.op(s)
		case "且", "或":
			r.toks = append(r.toks, Tok{S: s, K: kKW, Comma: true})
		default:
			if s == v.Op && v.Op != "为" && v.Op != "不为" {
				r.pu(s) // symbol form
			} else {
				r.kw(s)
			}
		}
		r.expr(v.R, rmin)
	case List:
		r.lbrk()
		for i, it := range v.Items {
			if i > 0 {
				r.comma()
			}
			r.expr(it, 1)
		}
		r.rbrk()
	case Dict:
		r.lbrk()
		if len(v.Pairs) == 0 {
			r.pu("=")
		}
		for i, kv := range v.Pairs {
			if i > 0 {
				r.comma()
			}
			if kv.KeyStr {
				r.str(kv.Key, false)
			} else {
				r.id(kv.Key)
			}
			r.pu("=")
			r.expr(kv.Val, 1)
		}
		r.rbrk()
	case Call:
		r.call(v)
		if v.Yield != "" {
			r.toks = append(r.toks, Tok{S: "得到", K: kKW, Comma: true})
			r.id(v.Yield)
		}
	case New:
		r.lparen()
		r.kw("新建")
		r.id(v.Class)
		if len(v.Args) > 0 {
			r.colon()
			r.args(v.Args)
		}
		r.rparen()
	case MCall:
		if min > 6 {
			// a method-call expression is a basic expression only through its own 以 form
		}
		r.kw("以")
		r.root(v.Root)
		for i, c := range v.Chain {
			if i > 0 {
				r.pause()
			}
			r.call(c)
		}
		if v.Yield != "" {
			r.toks = append(r.toks, Tok{S: "得到", K: kKW, Comma: true})
			r.id(v.Yield)
		}
	case Index:
		r.root(v.Root)
		r.pu("#")
		switch ix := v.Idx.(type) {
		case Num:
			r.id(ix.Lit)
		case Var:
			r.id(ix.Name)
		case Str:
			r.str(ix.Val, false)
		default:
			r.braced(v.Idx)
		}
	case Member:
		r.root(v.Root)
		a := v.Alt
		if a == 0 {
			a = r.ch.Choose("dot", 2)
		}
		if a%2 == 1 {
			r.kw("的")
		} else {
			r.kw("之")
		}
		r.id(v.Name)
	case This:
		r.kw("其")
		r.id(v.Name)
	case Group:
		r.braced(v.E)
	case Assign:
		if min > 0 {
			r.braced(e)
			return
		}
		r.expr(v.Target, 7)
		a := v.Alt
		if a == 0 {
			a = r.ch.Choose("assign", 2)
		}
		if a%2 == 1 {
			r.kw("设为")
		} else {
			r.pu("=")
		}
		r.expr(v.Val, 5)
	default:
		panic("render: unknown expr")
	}
}

func groupLeadMCall(e Expr, top bool) Expr {
	switch v := e.(type) {
	case MCall:
		if !top {
			return Group{E: v}
		}
	case Bin:
		v.L = groupLeadMCall(v.L, false)
		return v
	}
	return e
}

// root renders the root of a postfix chain / 以-call: only basic forms go bare.
func (r *renderer) root(e Expr) {
	switch e.(type) {
	case Num, Str, Var, List, Dict, Call, New, Index, Member, This, Group:
		r.expr(e, 7)
	default:
		r.braced(e)
	}
}

func (r *renderer) call(c Call) {
	r.lparen()
	r.id(c.Name)
	if len(c.Args) > 0 {
		r.colon()
		r.args(c.Args)
	}
	r.rparen()
}

// endsOpen: the rendering of e ends with a construct that would swallow a
// following 、 (a 以…（…） call chain without 得到), so e must be braced when a
// 、 follows it.
func endsOpen(e Expr) bool {
	switch v := e.(type) {
	case MCall:
		return v.Yield == ""
	case Bin:
		return endsOpen(v.R)
	case Assign:
		return endsOpen(v.Val)
	}
	return false
}

// args renders a 、-separated expression list.
func (r *renderer) args(as []Expr) {
	for i, a := range as {
		if i > 0 {
			r.pause()
		}
		if i < len(as)-1 && endsOpen(a) {
			r.braced(a)
		} else {
			r.expr(a, 1)
		}
	}
}

func (r *renderer) names(ns []string) {
	for i, n := range ns {
		if i > 0 {
			r.pause()
		}
		r.id(n)
	}
}

func (r *renderer) block(body []Stmt) {
	r.ind++
	r.stmts(body, true)
	r.ind--
}

func simpleStmt(s Stmt, left bool) bool {
	switch v := s.(type) {
	case Decl:
		return left && !v.Block && len(v.Pairs) == 1
	case Return, Throw, Break, Continue, ExprStmt:
		return true
	}
	return false
}

// stmts renders a statement list; a line break between two simple statements
// is marked as replaceable by ；.
func (r *renderer) stmts(body []Stmt, leadNL bool) {
	for i, s := range body {
		if i > 0 || leadNL {
			r.nl()
			if i > 0 && simpleStmt(body[i-1], true) && simpleStmt(s, false) && !r.lastDeclBlock {
				r.toks[len(r.toks)-1].Semi = true
			}
		}
		r.lastDeclBlock = false
		r.stmt(s)
	}
}

func (r *renderer) stmt(s Stmt) {
	switch v := s.(type) {
	case Decl:
		r.kw("令")
		blk := v.Block
		if !blk && len(v.Pairs) == 1 && r.ch.Choose("declblock", 2) == 1 {
			blk = true
		}
		if blk {
			r.lastDeclBlock = true
			r.colon()
			r.ind++
			for _, p := range v.Pairs {
				r.nl()
				r.declPair(p)
			}
			r.ind--
			return
		}
		r.declPair(v.Pairs[0])
	case If:
		r.kw("如果")
		r.expr(v.Cond, 1)
		r.colon()
		r.block(v.Then)
		for _, e := range v.Elifs {
			r.nl()
			r.kw("再如")
			r.expr(e.Cond, 1)
			r.colon()
			r.block(e.Body)
		}
		if v.HasElse {
			r.nl()
			r.kw("否则")
			r.colon()
			r.block(v.Else)
		}
	case While:
		r.kw("每当")
		r.expr(v.Cond, 1)
		r.colon()
		r.block(v.Body)
	case Iter:
		if len(v.Vars) > 0 {
			r.kw("以")
			r.names(v.Vars)
		}
		r.kw("遍历")
		r.expr(v.Target, 1)
		r.colon()
		r.block(v.Body)
	case Func:
		r.fn(v, "如何")
	case Class:
		r.kw("定义")
		r.id(v.Name)
		r.colon()
		r.ind++
		for _, p := range v.Props {
			r.nl()
			r.kw("其")
			r.id(p.Name)
			if r.ch.Choose("assign", 2) == 1 {
				r.kw("设为")
			} else {
				r.pu("=")
			}
			r.expr(p.Val, 1)
		}
		for _, m := range v.Methods {
			r.nl()
			r.fn(m, "如何")
		}
		for _, g := range v.Getters {
			r.nl()
			r.fn(g, "何为")
		}
		r.ind--
	case Return:
		r.kw("输出")
		r.expr(v.Val, 0)
	case Throw:
		r.kw("抛出")
		r.id(v.Class)
		if len(v.Args) > 0 { // the arguments are optional (BNF)
			r.colon()
			r.args(v.Args)
		}
		r.bang()
	case Break:
		r.kw("结束循环")
	case Continue:
		r.kw("继续循环")
	case ExprStmt:
		// a statement that starts with 以 is parsed as a 以-statement, so a
		// 以…（…） call that is only the leftmost operand must be grouped
		r.expr(groupLeadMCall(v.E, true), 0)
	case Empty:
		r.pa("；", ";", false)
	default:
		panic("render: unknown stmt")
	}
}

func (r *renderer) declPair(p DeclPair) {
	r.names(p.Names)
	if p.Const {
		r.kw("恒为")
	} else {
		a := p.Alt
		if a == 0 {
			a = r.ch.Choose("assign", 2)
		}
		if a%2 == 1 {
			r.kw("设为")
		} else {
			r.pu("=")
		}
	}
	r.expr(p.Val, 1)
}

func (r *renderer) fn(f Func, head string) {
	r.kw(head)
	if f.Ctor {
		r.kw("新建")
	}
	r.id(f.Name)
	r.qmark()
	r.ind++
	if len(f.Params) > 0 {
		r.nl()
		r.kw("输入")
		r.names(f.Params)
	}
	r.stmts(f.Body, true)
	for _, c := range f.Catches {
		r.nl()
		r.kw("拦截")
		r.id(c.Class)
		r.colon()
		r.block(c.Body)
	}
	r.ind--
}

func (r *renderer) program(p *Program) {
	first := true
	line := func() {
		if !first {
			r.nl()
		}
		first = false
	}
	for _, im := range p.Imports {
		line()
		r.kw("导入")
		r.str(im.Name, im.Lib)
		if len(im.Items) > 0 {
			if (im.Alt+r.ch.Choose("dot", 2))%2 == 1 {
				r.kw("的")
			} else {
				r.kw("之")
			}
			r.names(im.Items)
		}
	}
	if len(p.Inputs) > 0 {
		line()
		r.kw("输入")
		r.names(p.Inputs)
	}
	if len(p.Body) > 0 {
		r.stmts(p.Body, !first)
		first = false
	}
	for _, c := range p.Catches {
		line()
		r.kw("拦截")
		r.id(c.Class)
		r.colon()
		r.block(c.Body)
	}
}

// Layout serialises tokens.  Choice points (all default 0):
//
//	"indent"  2  4 spaces | TAB (asked once)
//	"eol"     4  LF | CRLF | CR | LFCR (per line break)
//	"blank"   2  no blank line | one blank line before the line (per line break)
//	"eolc"    4  nothing | // c | 注：c | /* c */ at the end of the line
//	"gap"     3  tight | one space | /* c */ between two tokens (where optional)
//	"comma"   2  no | optional ， before 且/或/得到
//	"brk"     2  no | line break (+ deeper indent) after ， 、 { 【
func Layout(toks []Tok, ch Chooser) string {
	var b strings.Builder
	tab := ch.Choose("indent", 2) == 1
	indent := func(n int) {
		for i := 0; i < n; i++ {
			if tab {
				b.WriteByte('\t')
			} else {
				b.WriteString("    ")
			}
		}
	}
	mode := ch.Choose("eolmode", 4)
	eol := func() {
		switch (mode + ch.Choose("eol", 4)) % 4 {
		case 1:
			b.WriteString("\r\n")
		case 2:
			b.WriteString("\r")
		case 3:
			b.WriteString("\n\r")
		default:
			b.WriteString("\n")
		}
	}
	curInd := 0
	// deepBrk: the current line is a continuation line indented deeper than its
	// statement; whether a further statement may follow on it after ； is not
	// fixed by the manual (the parser attributes a statement to the indentation
	// of the line it starts on), so ； is not offered there.
	deepBrk := false
	for i, t := range toks {
		if t.K == kNL {
			if t.Semi && !deepBrk && ch.Choose("semi", 2) == 1 {
				if ch.Choose("punct:；", 2) == 1 {
					b.WriteString(";")
				} else {
					b.WriteString("；")
				}
				continue
			}
			switch ch.Choose("eolc", 4) {
			case 1:
				b.WriteString(" // 注释")
			case 2:
				b.WriteString(" 注：说明")
			case 3:
				b.WriteString(" /* 块 */")
			}
			eol()
			if ch.Choose("blank", 2) == 1 {
				eol()
			}
			indent(t.Indent)
			curInd = t.Indent
			deepBrk = false
			continue
		}
		if i > 0 && toks[i-1].K != kNL {
			a := toks[i-1]
			if t.Comma && ch.Choose("comma", 2) == 1 {
				b.WriteString("，")
			}
			must := (a.K == kID && t.K == kID) || a.K == kOP || t.K == kOP
			if must {
				b.WriteByte(' ')
				if ch.Choose("gap+", 2) == 1 {
					b.WriteByte(' ')
				}
			} else {
				brk := 0
				if a.Brk && a.S != "：" && a.S != ":" && a.S != "？" && a.S != "?" {
					// a continuation line may be indented deeper unless the
					// statement's block header (…： + deeper block) ends on it
					header := false
					for j := i; j < len(toks); j++ {
						if toks[j].K == kNL {
							header = toks[j].Indent > curInd
							break
						}
					}
					if header {
						brk = ch.Choose("brk", 2)
					} else {
						brk = ch.Choose("brk", 3)
					}
				}
				if brk == 1 {
					eol()
					indent(curInd)
				} else if brk == 2 {
					eol()
					indent(curInd + 1)
					deepBrk = true
				} else {
					switch ch.Choose("gap", 3) {
					case 1:
						b.WriteByte(' ')
					case 2:
						b.WriteString("/* 间 */")
					}
				}
			}
		}
		b.WriteString(t.S)
	}
	return b.String()
}
