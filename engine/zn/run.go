package zn

import (
	"fmt"
	"math"
	"sort"
	"strconv"
	"strings"

	zerr "github.com/DemoHn/Zn/pkg/error"
	"github.com/DemoHn/Zn/pkg/exec"
	r "github.com/DemoHn/Zn/pkg/runtime"
	"github.com/DemoHn/Zn/pkg/syntax"
	"github.com/DemoHn/Zn/pkg/syntax/zh"
	"github.com/DemoHn/Zn/pkg/value"
	libFile "github.com/DemoHn/Zn/stdlib/file"
	libJson "github.com/DemoHn/Zn/stdlib/json"
)

// RealErr classifies an error of the real interpreter structurally.
type RealErr struct {
	Kind     string // syntax | semantic | runtime | exception | io | signal | other
	Code     int
	Msg      string
	ExcClass string
}

// Outcome is what one real execution produced.
type Outcome struct {
	Val       string // canonical result, "" on error
	Elem      r.Element
	NilResult bool // success with a nil Element
	Err       *RealErr
	RawErr    error
	Trace     []string
	Panic     string
	Stack     string
}

var traceBuf []string
var traceOn bool

// TraceWithText also records each displayed value's String() form (the
// "displayed form" of C12) next to its structural form.
var TraceWithText bool

func init() {
	// capture 显示 structurally (no stdout parsing): same map the interpreter reads.
	exec.GlobalValues["显示"] = value.NewFunction(func(recv r.Element, params []r.Element) (r.Element, error) {
		if traceOn {
			var parts []string
			for _, p := range params {
				if TraceWithText && !isNilElem(p) {
					parts = append(parts, CanonElem(p)+"⟦"+p.String()+"⟧")
				} else {
					parts = append(parts, CanonElem(p))
				}
			}
			traceBuf = append(traceBuf, strings.Join(parts, " "))
		}
		return value.NewNull(), nil
	})
}

// Libs are the libraries the root package would register (stdlib/http does not
// compile at the pinned commit, see DESIGN.md).
func Libs() []*r.Library { return []*r.Library{libJson.Export(), libFile.Export()} }

// Classify turns an error returned by Execute (or a raw evaluator error) into RealErr.
func Classify(err error) *RealErr {
	if err == nil {
		return nil
	}
	inner, _, _, _ := exec.VerifUnwrap(err)
	if inner == nil {
		return &RealErr{Kind: "other", Msg: err.Error()}
	}
	switch e := inner.(type) {
	case *zerr.SyntaxError:
		return &RealErr{Kind: "syntax", Code: e.Code, Msg: e.Message}
	case *zerr.SemanticError:
		return &RealErr{Kind: "semantic", Code: e.Code, Msg: e.Message}
	case *zerr.RuntimeError:
		return &RealErr{Kind: "runtime", Code: e.Code, Msg: e.Message}
	case *zerr.IOError:
		return &RealErr{Kind: "io", Code: e.Code, Msg: e.Message}
	case *value.Exception:
		return &RealErr{Kind: "exception", Msg: e.Message, ExcClass: "异常"}
	case *zerr.Signal:
		if e.SigType == zerr.SigTypeException {
			switch x := e.Extra.(type) {
			case *value.Exception:
				return &RealErr{Kind: "exception", Msg: x.Message, ExcClass: "异常"}
			case *value.Object:
				return &RealErr{Kind: "exception", ExcClass: x.GetObjectName()}
			}
			return &RealErr{Kind: "exception"}
		}
		return &RealErr{Kind: "signal", Code: int(e.SigType)}
	}
	return &RealErr{Kind: "other", Msg: inner.Error()}
}

// RunReal executes a script through the real Interpreter.LoadScript/Execute.
func RunReal(src string, inputs map[string]r.Element) (o Outcome) {
	traceBuf = nil
	traceOn = true
	defer func() {
		traceOn = false
		o.Trace = traceBuf
		if p := recover(); p != nil {
			o.Panic = fmt.Sprint(p)
			o.Stack = stack()
		}
	}()
	if inputs == nil {
		inputs = r.ElementMap{}
	}
	in := exec.NewInterpreter("verif").SetExternalLibs(Libs())
	v, err := in.LoadScript([]rune(src)).Execute(inputs)
	o.fill(v, err)
	return
}

// RunRealWith executes a script through a given (possibly shared) interpreter.
func RunRealWith(in *exec.Interpreter, src string, inputs map[string]r.Element) (o Outcome) {
	traceBuf = nil
	traceOn = true
	defer func() {
		traceOn = false
		o.Trace = traceBuf
		if p := recover(); p != nil {
			o.Panic = fmt.Sprint(p)
			o.Stack = stack()
		}
	}()
	if inputs == nil {
		inputs = r.ElementMap{}
	}
	v, err := in.LoadScript([]rune(src)).Execute(inputs)
	o.fill(v, err)
	return
}

// RunRealVM executes a script with the same steps as Interpreter.Execute spelled
// out through exported calls, so that the VM can be inspected afterwards.
func RunRealVM(src string, inputs map[string]r.Element) (o Outcome, vm *r.VM) {
	traceBuf = nil
	traceOn = true
	defer func() {
		traceOn = false
		o.Trace = traceBuf
		if p := recover(); p != nil {
			o.Panic = fmt.Sprint(p)
			o.Stack = stack()
		}
	}()
	if inputs == nil {
		inputs = r.ElementMap{}
	}
	parser := syntax.NewParser([]rune(src), zh.NewParserZH())
	program, err := parser.Compile()
	if err != nil {
		o.fill(nil, err)
		return
	}
	vm = r.InitVM(exec.GlobalValues)
	vm.SetModuleCodeFinder(func(isMain bool, info r.LibNameInfo) ([]rune, error) {
		if info.LibType == r.LIB_TYPE_STD {
			return []rune{}, nil
		}
		return nil, fmt.Errorf("no modules in script mode")
	})
	vm.LoadExternalLibs(Libs())
	v, err := exec.EvalMainModule(vm, program, inputs)
	o.fill(v, err)
	return
}

// RunRealFile executes a file through Interpreter.LoadFile/Execute.
func RunRealFile(path string, inputs map[string]r.Element) (o Outcome) {
	traceBuf = nil
	traceOn = true
	defer func() {
		traceOn = false
		o.Trace = traceBuf
		if p := recover(); p != nil {
			o.Panic = fmt.Sprint(p)
			o.Stack = stack()
		}
	}()
	if inputs == nil {
		inputs = r.ElementMap{}
	}
	in := exec.NewInterpreter("verif").SetExternalLibs(Libs())
	v, err := in.LoadFile(path).Execute(inputs)
	o.fill(v, err)
	return
}

func (o *Outcome) fill(v r.Element, err error) {
	if err != nil {
		o.RawErr = err
		o.Err = Classify(err)
		return
	}
	o.Elem = v
	if isNilElem(v) {
		o.NilResult = true
		o.Val = "<nil>"
		return
	}
	o.Val = CanonElem(v)
}

func isNilElem(v r.Element) bool {
	if v == nil {
		return true
	}
	switch x := v.(type) {
	case *value.Number:
		return x == nil
	case *value.String:
		return x == nil
	case *value.Array:
		return x == nil
	case *value.HashMap:
		return x == nil
	case *value.Object:
		return x == nil
	case *value.Bool:
		return x == nil
	case *value.Null:
		return x == nil
	case *value.Function:
		return x == nil
	case *value.ClassModel:
		return x == nil
	case *value.Exception:
		return x == nil
	}
	return false
}

// CanonElem renders a real value in the same canonical form as Canon.
func CanonElem(e r.Element) string {
	var b strings.Builder
	canonElem(&b, e, 0)
	return b.String()
}

// elemPath: see canonPath (per call: display capture may run on several goroutines).
type elemPath []r.Element

func (ep *elemPath) enter(b *strings.Builder, e r.Element) bool {
	for _, p := range *ep {
		if p == e {
			b.WriteString("<cycle>")
			return false
		}
	}
	*ep = append(*ep, e)
	return true
}

func (ep *elemPath) leave() { *ep = (*ep)[:len(*ep)-1] }

func canonElem(b *strings.Builder, e r.Element, depth int) {
	canonElemP(b, e, depth, &elemPath{})
}

func canonElemP(b *strings.Builder, e r.Element, depth int, ep *elemPath) {
	if depth > 40 {
		b.WriteString("<deep>")
		return
	}
	if isNilElem(e) {
		b.WriteString("<nil>")
		return
	}
	switch x := e.(type) {
	case *value.Number:
		b.WriteString(canonNum(x.GetValue()))
	case *value.String:
		b.WriteString(strconv.Quote(x.GetValue()))
	case *value.Bool:
		if x.GetValue() {
			b.WriteString("真")
		} else {
			b.WriteString("假")
		}
	case *value.Null:
		b.WriteString("空")
	case *value.Array:
		if !ep.enter(b, x) {
			return
		}
		defer ep.leave()
		b.WriteByte('[')
		for i, it := range x.GetValue() {
			if i > 0 {
				b.WriteByte(',')
			}
			canonElemP(b, it, depth+1, ep)
		}
		b.WriteByte(']')
	case *value.HashMap:
		if !ep.enter(b, x) {
			return
		}
		defer ep.leave()
		b.WriteByte('{')
		m := x.GetValue()
		for i, k := range x.GetKeyOrder() {
			if i > 0 {
				b.WriteByte(',')
			}
			b.WriteString(strconv.Quote(k))
			b.WriteByte(':')
			if v, ok := m[k]; ok {
				canonElemP(b, v, depth+1, ep)
			} else {
				b.WriteString("<missing>")
			}
		}
		if len(m) != len(x.GetKeyOrder()) {
			fmt.Fprintf(b, "<keyorder %d != map %d>", len(x.GetKeyOrder()), len(m))
		}
		b.WriteByte('}')
	case *value.Object:
		if !ep.enter(b, x) {
			return
		}
		defer ep.leave()
		b.WriteString("obj:" + x.GetObjectName() + "{")
		// properties are only reachable by name; the class's names are not
		// exported, so callers that need them use ObjProps.
		b.WriteString(objPropsCanon(x, depth, ep))
		b.WriteByte('}')
	case *value.Function:
		b.WriteString("<method>")
	case *value.ClassModel:
		b.WriteString("<type " + x.GetName() + ">")
	case *value.Exception:
		b.WriteString("exc(" + strconv.Quote(x.Message) + ")")
	default:
		fmt.Fprintf(b, "<?%T>", e)
	}
}

// ObjPropNames: names to probe on objects (set by the check that generates the classes).
var ObjPropNames []string

func ObjPropsCanon(o *value.Object, depth int) string {
	return objPropsCanon(o, depth, &elemPath{})
}

func objPropsCanon(o *value.Object, depth int, ep *elemPath) string {
	var parts []string
	names := append([]string{}, ObjPropNames...)
	sort.Strings(names)
	for _, n := range names {
		if v, err := o.GetProperty(n); err == nil {
			var b strings.Builder
			canonElemP(&b, v, depth+1, ep)
			parts = append(parts, n+":"+b.String())
		}
	}
	return strings.Join(parts, ",")
}

// ToElem converts a reference value to a real one (for 输入 variables).
func ToElem(v V) r.Element {
	switch x := v.(type) {
	case float64:
		return value.NewNumber(x)
	case string:
		return value.NewString(x)
	case bool:
		return value.NewBool(x)
	case Null:
		return value.NewNull()
	case *LV:
		var items []r.Element
		for _, it := range x.Items {
			items = append(items, ToElem(it))
		}
		if items == nil {
			items = []r.Element{}
		}
		return value.NewArray(items)
	case *DV:
		var kv []value.KVPair
		for _, k := range x.Keys {
			kv = append(kv, value.KVPair{Key: k, Value: ToElem(x.M[k])})
		}
		return value.NewHashMap(kv)
	}
	panic(fmt.Sprintf("ToElem: unsupported %T", v))
}

var _ = math.NaN

func stack() string {
	buf := make([]byte, 4096)
	n := runtimeStack(buf)
	return string(buf[:n])
}

// SelfTest verifies that the harness can still observe the interpreter the way
// every check assumes (display capture through exec.GlobalValues, error
// classification through exec.VerifUnwrap).  A failure is a harness problem
// (e.g. after an API refactoring), never a property violation.
func SelfTest() error {
	o := RunReal("（显示：1、“a”）\n输出2", nil)
	if o.Panic != "" || o.Err != nil || len(o.Trace) != 1 || o.Val != Canon(float64(2)) {
		return fmt.Errorf("display capture / result observation does not work: %+v", o)
	}
	o = RunReal("输出1 / 0", nil)
	if o.Err == nil || o.Err.Kind != "runtime" || o.Err.Code != EDivZero {
		return fmt.Errorf("error classification does not work: %+v", o.Err)
	}
	o = RunReal("如果", nil)
	if o.Err == nil || o.Err.Kind != "syntax" {
		return fmt.Errorf("syntax error classification does not work: %+v", o.Err)
	}
	return nil
}
