package zn

import "runtime"

func runtimeStack(buf []byte) int { return runtime.Stack(buf, false) }
