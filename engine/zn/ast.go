// Package zn holds the harness's own view of the Zn language: an AST, a
// renderer with explicit layout choice points, a dumper of the real parser's
// tree into that AST, a reference interpreter written from the manual, and
// adapters that run the real interpreter.
package zn

// ---- expressions

type Expr interface{}

// Num is a numeric literal in a concrete spelling (an identifier of numeric form).
type Num struct{ Lit string }

// Str is a text literal (value, not spelling).
type Str struct{ Val string }

// Var is a name.
type Var struct{ Name string }

// Bin is a binary operator node.  Op is canonical:
// + - * / | %  == /= > < >= <=  为 不为  且 或
// Alt selects the alternative spelling (0 = symbol / first form).
type Bin struct {
	Op   string
	L, R Expr
	Alt  int
}

type List struct{ Items []Expr }

// Dict keys are ID/number spellings or texts (KeyStr).
type DictPair struct {
	Key    string
	KeyStr bool // key written as a string literal
	Val    Expr
}
type Dict struct{ Pairs []DictPair }

// Call is （name：args）[得到 yield]
type Call struct {
	Name  string
	Args  []Expr
	Yield string
}

// New is （新建name：args）
type New struct {
	Class string
	Args  []Expr
}

// MCall is 以 root（m：args）、（m2：args）[得到 yield]
type MCall struct {
	Root  Expr
	Chain []Call
	Yield string
}

// Index is root#idx : idx is Num / Var / Str directly, or any expression (rendered in {}).
type Index struct {
	Root Expr
	Idx  Expr
}

// Member is root之name.
type Member struct {
	Root Expr
	Name string
	Alt  int // 0 = 之, 1 = 的
}

// This is 其name.
type This struct{ Name string }

// Group is { e }: explicit grouping, transparent for the tree.
type Group struct{ E Expr }

// Assign is target = val  (target: Var, Index, Member, This)
type Assign struct {
	Target Expr
	Val    Expr
	Alt    int // 0 '=', 1 '设为'
}

// ---- statements

type Stmt interface{}

type DeclPair struct {
	Names []string
	Const bool
	Val   Expr
	Alt   int // 0 '=', 1 '设为' (ignored when Const)
}
type Decl struct {
	Pairs []DeclPair
	Block bool // 令： block form
}

type If struct {
	Cond    Expr
	Then    []Stmt
	Elifs   []Elif
	Else    []Stmt // nil = no else
	HasElse bool
}
type Elif struct {
	Cond Expr
	Body []Stmt
}

type While struct {
	Cond Expr
	Body []Stmt
}

type Iter struct {
	Vars   []string
	Target Expr
	Body   []Stmt
	Lead   bool // true: 以V遍历T ; false (no vars): 遍历T
}

type Catch struct {
	Class string
	Body  []Stmt
}

type Func struct {
	Name    string
	Ctor    bool // 如何新建Name？
	Params  []string
	Body    []Stmt
	Catches []Catch
}

type Prop struct {
	Name string
	Val  Expr
}
type Class struct {
	Name    string
	Props   []Prop
	Methods []Func
	Getters []Func
}

type Return struct{ Val Expr }
type Throw struct {
	Class string
	Args  []Expr
}
type Break struct{}
type Continue struct{}
type ExprStmt struct{ E Expr }
type Empty struct{}

type Import struct {
	Name  string
	Lib   bool // 《》
	Items []string
	Alt   int
}

type Program struct {
	Imports []Import
	Inputs  []string
	Body    []Stmt
	Catches []Catch
}
