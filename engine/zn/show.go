package zn

import (
	"fmt"
	"strconv"
	"strings"
)

// Show renders a program as an S-expression that contains exactly the
// tree-relevant information (no spellings, no layout, EmptyStmt dropped).
func Show(p *Program) string {
	var b strings.Builder
	b.WriteString("(program")
	for _, im := range p.Imports {
		fmt.Fprintf(&b, " (import %s lib=%v %v)", strconv.Quote(im.Name), im.Lib, im.Items)
	}
	fmt.Fprintf(&b, " (inputs %v)", p.Inputs)
	showBody(&b, p.Body)
	showCatches(&b, p.Catches)
	b.WriteString(")")
	return b.String()
}

func showBody(b *strings.Builder, body []Stmt) {
	b.WriteString(" (block")
	for _, s := range body {
		if _, ok := s.(Empty); ok {
			continue
		}
		b.WriteByte(' ')
		showStmt(b, s)
	}
	b.WriteString(")")
}

func showCatches(b *strings.Builder, cs []Catch) {
	for _, c := range cs {
		fmt.Fprintf(b, " (catch %s", c.Class)
		showBody(b, c.Body)
		b.WriteString(")")
	}
}

func showFn(b *strings.Builder, tag string, f Func) {
	fmt.Fprintf(b, "(%s %s ctor=%v %v", tag, f.Name, f.Ctor, f.Params)
	showBody(b, f.Body)
	showCatches(b, f.Catches)
	b.WriteString(")")
}

func showStmt(b *strings.Builder, s Stmt) {
	switch v := s.(type) {
	case Decl:
		b.WriteString("(decl")
		for _, p := range v.Pairs {
			fmt.Fprintf(b, " (%v const=%v %s)", p.Names, p.Const, ShowExpr(p.Val))
		}
		b.WriteString(")")
	case If:
		fmt.Fprintf(b, "(if %s", ShowExpr(v.Cond))
		showBody(b, v.Then)
		for _, e := range v.Elifs {
			fmt.Fprintf(b, " (elif %s", ShowExpr(e.Cond))
			showBody(b, e.Body)
			b.WriteString(")")
		}
		if v.HasElse {
			b.WriteString(" (else")
			showBody(b, v.Else)
			b.WriteString(")")
		}
		b.WriteString(")")
	case While:
		fmt.Fprintf(b, "(while %s", ShowExpr(v.Cond))
		showBody(b, v.Body)
		b.WriteString(")")
	case Iter:
		fmt.Fprintf(b, "(iter %v %s", v.Vars, ShowExpr(v.Target))
		showBody(b, v.Body)
		b.WriteString(")")
	case Func:
		showFn(b, "func", v)
	case Class:
		fmt.Fprintf(b, "(class %s", v.Name)
		for _, p := range v.Props {
			fmt.Fprintf(b, " (prop %s %s)", p.Name, ShowExpr(p.Val))
		}
		for _, m := range v.Methods {
			b.WriteByte(' ')
			showFn(b, "method", m)
		}
		for _, g := range v.Getters {
			b.WriteByte(' ')
			showFn(b, "getter", g)
		}
		b.WriteString(")")
	case Return:
		fmt.Fprintf(b, "(return %s)", ShowExpr(v.Val))
	case Throw:
		fmt.Fprintf(b, "(throw %s", v.Class)
		for _, a := range v.Args {
			b.WriteString(" " + ShowExpr(a))
		}
		b.WriteString(")")
	case Break:
		b.WriteString("(break)")
	case Continue:
		b.WriteString("(continue)")
	case ExprStmt:
		b.WriteString(ShowExpr(v.E))
	case Empty:
	default:
		fmt.Fprintf(b, "(?%T)", s)
	}
}

// ShowExpr renders an expression tree.
func ShowExpr(e Expr) string {
	switch v := e.(type) {
	case Group:
		return ShowExpr(v.E)
	case Num:
		return "#" + v.Lit
	case Str:
		return strconv.Quote(v.Val)
	case Var:
		return v.Name
	case Bin:
		return "(" + v.Op + " " + ShowExpr(v.L) + " " + ShowExpr(v.R) + ")"
	case List:
		var parts []string
		for _, it := range v.Items {
			parts = append(parts, ShowExpr(it))
		}
		return "(list " + strings.Join(parts, " ") + ")"
	case Dict:
		var parts []string
		for _, kv := range v.Pairs {
			k := kv.Key
			if kv.KeyStr {
				k = strconv.Quote(k)
			}
			parts = append(parts, k+"="+ShowExpr(kv.Val))
		}
		return "(dict " + strings.Join(parts, " ") + ")"
	case Call:
		return showCall(v)
	case New:
		var parts []string
		for _, a := range v.Args {
			parts = append(parts, ShowExpr(a))
		}
		return "(new " + v.Class + " " + strings.Join(parts, " ") + ")"
	case MCall:
		var parts []string
		for _, c := range v.Chain {
			parts = append(parts, showCall(c))
		}
		return "(mcall " + ShowExpr(v.Root) + " " + strings.Join(parts, " ") + " yield=" + v.Yield + ")"
	case Index:
		return "(index " + ShowExpr(v.Root) + " " + ShowExpr(v.Idx) + ")"
	case Member:
		return "(member " + ShowExpr(v.Root) + " " + v.Name + ")"
	case This:
		return "(this " + v.Name + ")"
	case Assign:
		return "(assign " + ShowExpr(v.Target) + " " + ShowExpr(v.Val) + ")"
	case nil:
		return "<nil>"
	}
	return fmt.Sprintf("(?%T)", e)
}

func showCall(c Call) string {
	var parts []string
	for _, a := range c.Args {
		parts = append(parts, ShowExpr(a))
	}
	return "(call " + c.Name + " [" + strings.Join(parts, " ") + "] yield=" + c.Yield + ")"
}
