package zn

import (
	"math"
	"strings"
	"unicode/utf8"
)

func (rf *Ref) indexGet(root, idx V) (V, *ZErr) {
	switch t := root.(type) {
	case *LV:
		f, ok := idx.(float64)
		if !ok {
			return nil, fault(EExprType, "index must be a number")
		}
		i := int(f)
		if i < 1 || i > len(t.Items) {
			return nil, fault(EIndexRange, "")
		}
		return t.Items[i-1], nil
	case *DV:
		k, e := dictKey(idx)
		if e != nil {
			return nil, e
		}
		v, ok := t.M[k]
		if !ok {
			return nil, fault(EKeyMissing, k)
		}
		return v, nil
	}
	return nil, fault(EExprType, "not indexable")
}

func dictKey(idx V) (string, *ZErr) {
	switch x := idx.(type) {
	case float64:
		return NumText(x), nil
	case string:
		return x, nil
	}
	return "", fault(EExprType, "key must be number or text")
}

func (rf *Ref) indexSet(root, idx, val V) *ZErr {
	switch t := root.(type) {
	case *LV:
		f, ok := idx.(float64)
		if !ok {
			return fault(EExprType, "index must be a number")
		}
		i := int(f)
		if i < 1 || i > len(t.Items) {
			return fault(EIndexRange, "")
		}
		t.Items[i-1] = val
		return nil
	case *DV:
		k, e := dictKey(idx)
		if e != nil {
			return e
		}
		t.Set(k, val)
		return nil
	}
	return fault(EExprType, "not indexable")
}

func (rf *Ref) getProp(root V, name string) (V, *ZErr) {
	switch t := root.(type) {
	case *OV:
		if name == "自身" {
			return t, nil
		}
		if v, ok := t.Props[name]; ok {
			return v, nil
		}
	case *XV:
		if name == "内容" {
			if !t.MsgKnown {
				return unknownText{}, nil
			}
			return t.Msg, nil
		}
	case *LV:
		switch name {
		case "首项":
			if len(t.Items) == 0 {
				return Null{}, nil
			}
			return t.Items[0], nil
		case "末项":
			if len(t.Items) == 0 {
				return Null{}, nil
			}
			return t.Items[len(t.Items)-1], nil
		case "长度", "数目":
			return float64(len(t.Items)), nil
		case "逆序":
			out := &LV{}
			for i := len(t.Items) - 1; i >= 0; i-- {
				out.Items = append(out.Items, t.Items[i])
			}
			return out, nil
		case "文本":
			return Display(t), nil
		}
	case *DV:
		switch name {
		case "长度", "数目":
			return float64(len(t.Keys)), nil
		case "所有索引":
			out := &LV{}
			for _, k := range t.Keys {
				out.Items = append(out.Items, k)
			}
			return out, nil
		case "所有值":
			out := &LV{}
			for _, k := range t.Keys {
				out.Items = append(out.Items, t.M[k])
			}
			return out, nil
		}
	case string:
		switch name {
		case "长度", "字数":
			return float64(utf8.RuneCountInString(t)), nil
		case "文本":
			return t, nil
		case "字符组":
			out := &LV{}
			for _, r := range t {
				out.Items = append(out.Items, string(r))
			}
			return out, nil
		}
	case float64:
		switch name {
		case "文本":
			return NumText(t), nil
		case "平方":
			return t * t, nil
		case "立方":
			return t * t * t, nil
		case "平方根":
			if t <= 0 {
				return nil, fault(ESqrt, "")
			}
			return math.Sqrt(t), nil
		}
	case bool:
		if name == "文本" {
			return Display(t), nil
		}
	}
	return nil, fault(ENoProp, name)
}

// unknownText stands for a text whose content the statement does not fix
// (message of a runtime fault).
type unknownText struct{}

func (rf *Ref) setProp(root V, name string, val V) *ZErr {
	rf.writes++
	switch t := root.(type) {
	case *OV:
		if _, ok := t.Props[name]; ok {
			t.Props[name] = val
			return nil
		}
	case *LV:
		switch name {
		case "首项":
			if len(t.Items) == 0 {
				t.Items = []V{val}
			} else {
				t.Items[0] = val
			}
			return nil
		case "末项":
			if len(t.Items) == 0 {
				t.Items = []V{val}
			} else {
				t.Items[len(t.Items)-1] = val
			}
			return nil
		}
	}
	return fault(ENoProp, name)
}

func argN(args []V, n int) *ZErr {
	if len(args) != n {
		return fault(EExactParams, "argument count")
	}
	return nil
}

// method executes a method of a builtin value or of an object.
func (rf *Ref) method(recv V, name string, args []V) (V, *ZErr) {
	switch t := recv.(type) {
	case *OV:
		m, ok := t.Class.Methods[name]
		if !ok {
			return nil, fault(ENoMethod, name)
		}
		return rf.callFunc(m, t, args)
	case *LV:
		return rf.listMethod(t, name, args)
	case *DV:
		return rf.dictMethod(t, name, args)
	case float64:
		return rf.numMethod(t, name, args)
	case string:
		if rf.StrMethodHook != nil {
			return rf.StrMethodHook(t, name, args)
		}
	}
	return nil, fault(ENoMethod, name)
}

func (rf *Ref) numMethod(n float64, name string, args []V) (V, *ZErr) {
	nums := func() ([]float64, *ZErr) {
		var out []float64
		for _, a := range args {
			f, ok := a.(float64)
			if !ok {
				return nil, fault(EParamType, "number expected")
			}
			out = append(out, f)
		}
		return out, nil
	}
	switch name {
	case "加", "减", "乘", "除":
		fs, e := nums()
		if e != nil {
			return nil, e
		}
		for _, f := range fs {
			switch name {
			case "加":
				n += f
			case "减":
				n -= f
			case "乘":
				n *= f
			case "除":
				if f == 0 {
					return nil, fault(EDivZero, "")
				}
				n /= f
			}
		}
		return n, nil
	case "向下取整":
		return math.Floor(n), nil
	case "向上取整":
		return math.Ceil(n), nil
	}
	return nil, fault(ENoMethod, name)
}

func (rf *Ref) listMethod(l *LV, name string, args []V) (V, *ZErr) {
	switch name {
	case "后增":
		if e := argN(args, 1); e != nil {
			return nil, e
		}
		l.Items = append(l.Items, args[0])
		return l, nil
	case "前增":
		if e := argN(args, 1); e != nil {
			return nil, e
		}
		l.Items = append([]V{args[0]}, l.Items...)
		return l, nil
	case "左移":
		if len(l.Items) == 0 {
			return Null{}, nil
		}
		v := l.Items[0]
		l.Items = append([]V{}, l.Items[1:]...)
		return v, nil
	case "右移":
		if len(l.Items) == 0 {
			return Null{}, nil
		}
		v := l.Items[len(l.Items)-1]
		l.Items = append([]V{}, l.Items[:len(l.Items)-1]...)
		return v, nil
	case "交换":
		if e := argN(args, 2); e != nil {
			return nil, e
		}
		a, ok1 := args[0].(float64)
		b, ok2 := args[1].(float64)
		if !ok1 || !ok2 {
			return nil, fault(EParamType, "")
		}
		i, j := int(math.Floor(a))-1, int(math.Floor(b))-1
		if i < 0 || i >= len(l.Items) || j < 0 || j >= len(l.Items) {
			return nil, fault(EIndexRange, "")
		}
		l.Items[i], l.Items[j] = l.Items[j], l.Items[i]
		return l, nil
	case "合并":
		var add []V
		for _, a := range args {
			x, ok := a.(*LV)
			if !ok {
				return nil, fault(EParamType, "")
			}
			add = append(add, x.Items...)
		}
		l.Items = append(append([]V{}, l.Items...), add...)
		return &LV{Items: append([]V{}, l.Items...)}, nil
	case "包含", "寻找":
		if e := argN(args, 1); e != nil {
			return nil, e
		}
		for i, it := range l.Items {
			eq, ok := Equal(it, args[0])
			if !ok {
				return nil, fault(ECmpL, "")
			}
			if eq {
				if name == "包含" {
					return true, nil
				}
				return foundAt(i), nil
			}
		}
		if name == "包含" {
			return false, nil
		}
		return foundAt(-1), nil
	case "拼接":
		if e := argN(args, 1); e != nil {
			return nil, e
		}
		sep, ok := args[0].(string)
		if !ok {
			return nil, fault(EParamType, "")
		}
		var parts []string
		for _, it := range l.Items {
			s, ok := it.(string)
			if !ok {
				return nil, fault(EParamType, "")
			}
			parts = append(parts, s)
		}
		return strings.Join(parts, sep), nil
	}
	return nil, fault(ENoMethod, name)
}

// foundAt: the numeric convention of 寻找 is not fixed by the statement; only
// "found iff 包含" is compared (see C12), so the reference returns a marker.
// The one arithmetic defined on it is the difference of two markers (the distance between the two
// positions, -1 standing for "absent"), which is the same under every numbering.
type FoundIdx struct {
	Found bool
	Pos   int
}

func foundAt(i int) V { return FoundIdx{Found: i >= 0, Pos: i} }

func (rf *Ref) dictMethod(d *DV, name string, args []V) (V, *ZErr) {
	switch name {
	case "读取":
		if len(args) < 1 {
			return nil, fault(EParamType, "")
		}
		var cur V = d
		for _, a := range args {
			k, ok := a.(string)
			if !ok {
				return nil, fault(EParamType, "")
			}
			dd, isD := cur.(*DV)
			if !isD {
				return Null{}, nil
			}
			v, has := dd.M[k]
			if !has {
				return Null{}, nil
			}
			cur = v
		}
		return cur, nil
	case "写入":
		if e := argN(args, 2); e != nil {
			return nil, e
		}
		k, ok := args[0].(string)
		if !ok {
			return nil, fault(EParamType, "")
		}
		d.Set(k, args[1])
		return args[1], nil
	case "移除":
		if e := argN(args, 1); e != nil {
			return nil, e
		}
		k, ok := args[0].(string)
		if !ok {
			return nil, fault(EParamType, "")
		}
		v, has := d.M[k]
		if !has {
			return Null{}, nil
		}
		d.Del(k)
		return v, nil
	}
	return nil, fault(ENoMethod, name)
}
