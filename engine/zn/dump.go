package zn

import (
	"fmt"
	"reflect"

	"github.com/DemoHn/Zn/pkg/syntax"
)

// Dumper converts the real parser's tree into the harness AST.  It is nil-safe
// and records every grammar-mandated part that is missing (completeness walker).
type Dumper struct {
	Missing []string
}

func isNil(x interface{}) bool {
	if x == nil {
		return true
	}
	v := reflect.ValueOf(x)
	switch v.Kind() {
	case reflect.Ptr, reflect.Slice, reflect.Map, reflect.Interface, reflect.Func:
		return v.IsNil()
	}
	return false
}

func (d *Dumper) miss(what string) { d.Missing = append(d.Missing, what) }

// Dump converts a parsed program.
func Dump(p *syntax.Program) (*Program, []string) {
	d := &Dumper{}
	out := &Program{}
	if p == nil {
		d.miss("Program")
		return out, d.Missing
	}
	for i, im := range p.ImportBlock {
		if im == nil {
			d.miss(fmt.Sprintf("ImportBlock[%d]", i))
			continue
		}
		x := Import{Lib: im.ImportLibType == syntax.LibTypeStd}
		if im.ImportName == nil {
			d.miss("ImportStmt.ImportName")
		} else {
			x.Name = im.ImportName.GetLiteral()
		}
		for _, it := range im.ImportItems {
			if it == nil {
				d.miss("ImportStmt.ImportItems[i]")
				continue
			}
			x.Items = append(x.Items, it.GetLiteral())
		}
		out.Imports = append(out.Imports, x)
	}
	if p.ExecBlock != nil {
		out.Inputs, out.Body, out.Catches = d.execBlock(p.ExecBlock, "Program")
	}
	return out, d.Missing
}

func (d *Dumper) execBlock(eb *syntax.ExecBlock, where string) (params []string, body []Stmt, catches []Catch) {
	if eb == nil {
		d.miss(where + ".ExecBlock")
		return
	}
	for _, id := range eb.InputBlock {
		if id == nil {
			d.miss(where + ".InputBlock[i]")
			continue
		}
		params = append(params, id.GetLiteral())
	}
	if eb.StmtBlock == nil {
		d.miss(where + ".StmtBlock")
	} else {
		body = d.block(eb.StmtBlock, where+".StmtBlock", true)
	}
	for _, cb := range eb.CatchBlock {
		if cb == nil {
			d.miss(where + ".CatchBlock[i]")
			continue
		}
		c := Catch{}
		if cb.ExceptionClass == nil {
			d.miss(where + ".CatchBlock.ExceptionClass")
		} else {
			c.Class = cb.ExceptionClass.GetLiteral()
		}
		if cb.StmtBlock == nil {
			d.miss(where + ".CatchBlock.StmtBlock")
		} else {
			c.Body = d.block(cb.StmtBlock, where+".CatchBlock.StmtBlock", false)
		}
		catches = append(catches, c)
	}
	return
}

// block: allowEmpty — an ExecBlock's statement list may be empty (a body made
// of 输入 lines / handlers only); every other block must hold a statement.
func (d *Dumper) block(b *syntax.StmtBlock, where string, allowEmpty bool) []Stmt {
	if b == nil {
		d.miss(where)
		return nil
	}
	var out []Stmt
	for i, s := range b.Children {
		if isNil(s) {
			d.miss(fmt.Sprintf("%s.Children[%d]", where, i))
			continue
		}
		out = append(out, d.stmt(s))
	}
	if len(out) == 0 && !allowEmpty {
		d.miss(where + " (empty block)")
	}
	return out
}

func (d *Dumper) id(x *syntax.ID, where string) string {
	if x == nil {
		d.miss(where)
		return ""
	}
	return x.GetLiteral()
}

func (d *Dumper) stmt(s syntax.Statement) Stmt {
	switch v := s.(type) {
	case *syntax.VarDeclareStmt:
		out := Decl{}
		if len(v.AssignPair) == 0 {
			d.miss("VarDeclareStmt.AssignPair (none)")
		}
		for _, ap := range v.AssignPair {
			p := DeclPair{Const: ap.Type == syntax.VDTypeAssignConst}
			if len(ap.Variables) == 0 {
				d.miss("VDAssignPair.Variables")
			}
			for _, id := range ap.Variables {
				p.Names = append(p.Names, d.id(id, "VDAssignPair.Variables[i]"))
			}
			p.Val = d.expr(ap.AssignExpr, "VDAssignPair.AssignExpr")
			out.Pairs = append(out.Pairs, p)
		}
		return out
	case *syntax.BranchStmt:
		out := If{}
		out.Cond = d.expr(v.IfTrueExpr, "BranchStmt.IfTrueExpr")
		out.Then = d.block(v.IfTrueBlock, "BranchStmt.IfTrueBlock", false)
		if len(v.OtherExprs) != len(v.OtherBlocks) {
			d.miss("BranchStmt.OtherExprs/OtherBlocks length mismatch")
		}
		for i := range v.OtherExprs {
			e := Elif{Cond: d.expr(v.OtherExprs[i], "BranchStmt.OtherExprs[i]")}
			if i < len(v.OtherBlocks) {
				e.Body = d.block(v.OtherBlocks[i], "BranchStmt.OtherBlocks[i]", false)
			}
			out.Elifs = append(out.Elifs, e)
		}
		if v.HasElse {
			out.HasElse = true
			out.Else = d.block(v.IfFalseBlock, "BranchStmt.IfFalseBlock", false)
		}
		return out
	case *syntax.WhileLoopStmt:
		return While{Cond: d.expr(v.TrueExpr, "WhileLoopStmt.TrueExpr"), Body: d.block(v.LoopBlock, "WhileLoopStmt.LoopBlock", false)}
	case *syntax.IterateStmt:
		out := Iter{Target: d.expr(v.IterateExpr, "IterateStmt.IterateExpr"), Body: d.block(v.IterateBlock, "IterateStmt.IterateBlock", false)}
		for _, id := range v.IndexNames {
			out.Vars = append(out.Vars, d.id(id, "IterateStmt.IndexNames[i]"))
		}
		return out
	case *syntax.FunctionDeclareStmt:
		return d.fn(v)
	case *syntax.ClassDeclareStmt:
		out := Class{Name: d.id(v.ClassName, "ClassDeclareStmt.ClassName")}
		for _, p := range v.PropertyList {
			if p == nil {
				d.miss("ClassDeclareStmt.PropertyList[i]")
				continue
			}
			out.Props = append(out.Props, Prop{Name: d.id(p.PropertyID, "PropertyDeclareStmt.PropertyID"), Val: d.expr(p.InitValue, "PropertyDeclareStmt.InitValue")})
		}
		for _, m := range v.MethodList {
			if m == nil {
				d.miss("ClassDeclareStmt.MethodList[i]")
				continue
			}
			out.Methods = append(out.Methods, d.fn(m))
		}
		for _, g := range v.GetterList {
			if g == nil {
				d.miss("ClassDeclareStmt.GetterList[i]")
				continue
			}
			out.Getters = append(out.Getters, d.fn(g))
		}
		return out
	case *syntax.FunctionReturnStmt:
		return Return{Val: d.expr(v.ReturnExpr, "FunctionReturnStmt.ReturnExpr")}
	case *syntax.ThrowExceptionStmt:
		out := Throw{Class: d.id(v.ExceptionClass, "ThrowExceptionStmt.ExceptionClass")}
		for _, a := range v.Params {
			out.Args = append(out.Args, d.expr(a, "ThrowExceptionStmt.Params[i]"))
		}
		return out
	case *syntax.BreakStmt:
		return Break{}
	case *syntax.ContinueStmt:
		return Continue{}
	case *syntax.EmptyStmt:
		return Empty{}
	case *syntax.ImportStmt:
		d.miss("ImportStmt inside a statement block")
		return Empty{}
	case syntax.Expression:
		return ExprStmt{E: d.expr(v, "statement expression")}
	}
	d.miss(fmt.Sprintf("unknown statement node %T", s))
	return Empty{}
}

func (d *Dumper) fn(v *syntax.FunctionDeclareStmt) Func {
	out := Func{Name: d.id(v.Name, "FunctionDeclareStmt.Name"), Ctor: v.DeclareType == syntax.DeclareTypeConstructor}
	out.Params, out.Body, out.Catches = d.execBlock(v.ExecBlock, "FunctionDeclareStmt")
	return out
}

var logicOp = map[uint8]string{
	syntax.LogicOR: "或", syntax.LogicAND: "且", syntax.LogicEQ: "==", syntax.LogicNEQ: "/=",
	syntax.LogicGT: ">", syntax.LogicGTE: ">=", syntax.LogicLT: "<", syntax.LogicLTE: "<=",
	syntax.LogicXEQ: "为", syntax.LogicXNEQ: "不为",
}
var arithOp = map[uint8]string{
	syntax.ArithAdd: "+", syntax.ArithSub: "-", syntax.ArithMul: "*", syntax.ArithDiv: "/",
	syntax.ArithIntDiv: "|", syntax.ArithModulo: "%",
}

// IsNumLit: the harness convention for telling numeric identifiers from names.
func IsNumLit(s string) bool {
	if s == "" {
		return false
	}
	c := s[0]
	if c >= '0' && c <= '9' {
		return true
	}
	return (c == '+' || c == '-') && len(s) > 1 && s[1] >= '0' && s[1] <= '9'
}

func (d *Dumper) call(v *syntax.FuncCallExpr, where string) Call {
	if v == nil {
		d.miss(where)
		return Call{}
	}
	out := Call{Name: d.id(v.FuncName, where+".FuncName")}
	for _, a := range v.Params {
		out.Args = append(out.Args, d.expr(a, where+".Params[i]"))
	}
	if v.YieldResult != nil {
		out.Yield = v.YieldResult.GetLiteral()
	}
	return out
}

func (d *Dumper) expr(e syntax.Expression, where string) Expr {
	if isNil(e) {
		d.miss(where)
		return Var{Name: "<missing>"}
	}
	switch v := e.(type) {
	case *syntax.ID:
		if IsNumLit(v.GetLiteral()) {
			return Num{Lit: v.GetLiteral()}
		}
		return Var{Name: v.GetLiteral()}
	case *syntax.String:
		return Str{Val: v.GetLiteral()}
	case *syntax.ArrayExpr:
		out := List{}
		for _, it := range v.Items {
			out.Items = append(out.Items, d.expr(it, "ArrayExpr.Items[i]"))
		}
		return out
	case *syntax.HashMapExpr:
		out := Dict{}
		for _, kv := range v.KVPair {
			p := DictPair{Val: d.expr(kv.Value, "HashMapExpr.Value")}
			switch k := kv.Key.(type) {
			case *syntax.ID:
				if k == nil {
					d.miss("HashMapExpr.Key")
				} else {
					p.Key = k.GetLiteral()
				}
			case *syntax.String:
				if k == nil {
					d.miss("HashMapExpr.Key")
				} else {
					p.Key, p.KeyStr = k.GetLiteral(), true
				}
			default:
				if isNil(kv.Key) {
					d.miss("HashMapExpr.Key")
				} else {
					p.Key = "<expr:" + ShowExpr(d.expr(kv.Key, "HashMapExpr.Key")) + ">"
				}
			}
			out.Pairs = append(out.Pairs, p)
		}
		return out
	case *syntax.VarAssignExpr:
		var t Expr
		if isNil(v.TargetVar) {
			d.miss("VarAssignExpr.TargetVar")
			t = Var{Name: "<missing>"}
		} else {
			t = d.expr(v.TargetVar, "VarAssignExpr.TargetVar")
		}
		return Assign{Target: t, Val: d.expr(v.AssignExpr, "VarAssignExpr.AssignExpr")}
	case *syntax.ObjNewExpr:
		out := New{Class: d.id(v.ClassName, "ObjNewExpr.ClassName")}
		for _, a := range v.Params {
			out.Args = append(out.Args, d.expr(a, "ObjNewExpr.Params[i]"))
		}
		return out
	case *syntax.FuncCallExpr:
		return d.call(v, "FuncCallExpr")
	case *syntax.MemberMethodExpr:
		out := MCall{Root: d.expr(v.Root, "MemberMethodExpr.Root")}
		if len(v.MethodChain) == 0 {
			d.miss("MemberMethodExpr.MethodChain (empty)")
		}
		for _, c := range v.MethodChain {
			out.Chain = append(out.Chain, d.call(c, "MemberMethodExpr.MethodChain[i]"))
		}
		if v.YieldResult != nil {
			out.Yield = v.YieldResult.GetLiteral()
		}
		return out
	case *syntax.MemberExpr:
		switch v.RootType {
		case syntax.RootTypeProp:
			return This{Name: d.id(v.MemberID, "MemberExpr.MemberID")}
		case syntax.RootTypeExpr:
			root := d.expr(v.Root, "MemberExpr.Root")
			switch v.MemberType {
			case syntax.MemberID:
				return Member{Root: root, Name: d.id(v.MemberID, "MemberExpr.MemberID")}
			case syntax.MemberIndex:
				return Index{Root: root, Idx: d.expr(v.MemberIndex, "MemberExpr.MemberIndex")}
			}
			d.miss(fmt.Sprintf("MemberExpr.MemberType=%d", v.MemberType))
			return root
		}
		d.miss(fmt.Sprintf("MemberExpr.RootType=%d", v.RootType))
		return Var{Name: "<missing>"}
	case *syntax.LogicExpr:
		op, ok := logicOp[v.Type]
		if !ok {
			d.miss(fmt.Sprintf("LogicExpr.Type=%d", v.Type))
		}
		return Bin{Op: op, L: d.expr(v.LeftExpr, "LogicExpr.LeftExpr"), R: d.expr(v.RightExpr, "LogicExpr.RightExpr")}
	case *syntax.ArithExpr:
		op, ok := arithOp[v.Type]
		if !ok {
			d.miss(fmt.Sprintf("ArithExpr.Type=%d", v.Type))
		}
		return Bin{Op: op, L: d.expr(v.LeftExpr, "ArithExpr.LeftExpr"), R: d.expr(v.RightExpr, "ArithExpr.RightExpr")}
	}
	d.miss(fmt.Sprintf("unknown expression node %T", e))
	return Var{Name: "<unknown>"}
}
