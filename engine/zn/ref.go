package zn

import (
	"math"
	"strconv"
	"strings"
	"sync/atomic"

	"verif/engine/mc"
)

// ZErr is any failure of a reference run.  In the reference semantics every
// runtime fault is an exception of class 异常 (manual ch.4), so a fault carries
// both its numeric code (for comparison where the error channel keeps it) and
// an exception value.
type ZErr struct {
	Code    int
	Exc     V      // *XV or *OV
	Class   string // exception class name
	Crossed bool   // propagated across a call boundary (numeric code no longer observable)
	AnyCode bool   // the statement fixes that this is rejected, not with which code
	Note    string
}

func (e *ZErr) Error() string { return "zerr " + strconv.Itoa(e.Code) + " " + e.Class + " " + e.Note }

func fault(code int, note string) *ZErr {
	return &ZErr{Code: code, Class: "异常", Exc: &XV{Code: code}, Note: note}
}

// error codes (pkg/error/runtime_error.go, part of the observable interface)
const (
	EIndexRange   = 40
	EKeyMissing   = 41
	EUndefined    = 42
	ERedeclared   = 43
	EConst        = 44
	ENoProp       = 45
	ENoMethod     = 46
	ENoThis       = 48
	EArity        = 51
	EMostParams   = 52
	EExactParams  = 53
	EExprType     = 80
	ENotFunc      = 81
	EParamType    = 82
	ECmpL         = 83
	ECmpR         = 84
	EExcType      = 85
	EDivZero      = 90
	ESqrt         = 91
	EInputMissing = 95
)

type binding struct {
	v     V
	konst bool
}

type block struct {
	names map[string]*binding
}

type modEnv struct {
	name   string
	consts map[string]*binding // methods, types, imports, inputs of the program
	top    *block              // outermost block of the program body
}

// frame is one executing body.
type frame struct {
	mod    *modEnv
	blocks []*block
	this   V
	isProg bool
}

type ctl int

const (
	cNone ctl = iota
	cRet
	cBrk
	cCont
)

// Ref is one reference run.
type Ref struct {
	Trace    []string // canonical form of every 显示 call's arguments
	frames   []*frame
	Steps    int
	MaxSteps int
	MaxDepth int
	// ResultDefined reports whether the statement defines the program result
	// (an 输出 executed, or the last top-level statement is an expression).
	ResultDefined bool
	// Modules for imports: name -> program
	Modules map[string]*Program
	loaded  map[string]*modEnv
	loading map[string]bool
	Libs    map[string]map[string]V
	lastVal V
	Main    *modEnv
	// TraceWithText: see zn.TraceWithText
	TraceWithText bool
	// Open is set when the run depended on something the statement leaves open
	// (e.g. a callee touching a caller's block-local name: dynamic vs lexical scoping).
	Open    bool
	OpenWhy string
	pending int
	writes  int // storage writes so far (declarations, assignments, property writes)
	// BuiltinHook / FormatHook let individual checks plug library functions and
	// the % formatter into the reference (they are specified by other properties).
	BuiltinHook   func(name string, args []V) (V, *ZErr)
	FormatHook    func(tmpl string, args *LV) (V, *ZErr)
	StrMethodHook func(s string, name string, args []V) (V, *ZErr)
}

type stepLimit struct{}

func NewRef() *Ref {
	return &Ref{MaxSteps: 200000, MaxDepth: 2000, loaded: map[string]*modEnv{}, loading: map[string]bool{}}
}

// TopVar returns a variable of the main program's outermost block after (or
// during) a run.
func (rf *Ref) TopVar(name string) (V, bool) {
	if rf.Main == nil || rf.Main.top == nil {
		return nil, false
	}
	b, ok := rf.Main.top.names[name]
	if !ok {
		return nil, false
	}
	return b.v, true
}

func (rf *Ref) cur() *frame { return rf.frames[len(rf.frames)-1] }

func (rf *Ref) tick() {
	rf.Steps++
	if rf.Steps > rf.MaxSteps {
		panic(stepLimit{})
	}
}

var predefined = map[string]bool{"真": true, "假": true, "空": true, "异常": true, "显示": true, "取随机数": true, "数值": true}

var excClass = &CV{Name: "异常", Builtin: true}

// lookup resolves a name lexically and records whether dynamic scoping (what a
// caller's block happens to hold) would have resolved it differently — such
// runs are outside what the statement fixes.
func (rf *Ref) lookup(name string) (*binding, bool) {
	b, ok := rf.lexLookup(name)
	if len(rf.frames) > 1 && !predefined[name] {
		var db *binding
		cur := rf.cur()
	outer:
		for i := len(rf.frames) - 1; i >= 0; i-- {
			f := rf.frames[i]
			if f.mod != cur.mod {
				continue
			}
			for j := len(f.blocks) - 1; j >= 0; j-- {
				if x, has := f.blocks[j].names[name]; has {
					db = x
					break outer
				}
			}
		}
		if db == nil {
			if x, has := cur.mod.consts[name]; has {
				db = x
			}
		}
		if db != b {
			rf.Open = true
			rf.OpenWhy = "name " + name + " resolves differently under dynamic scoping"
		}
	}
	return b, ok
}

func (rf *Ref) lexLookup(name string) (*binding, bool) {
	switch name {
	case "真":
		return &binding{v: true, konst: true}, true
	case "假":
		return &binding{v: false, konst: true}, true
	case "空":
		return &binding{v: Null{}, konst: true}, true
	case "异常":
		return &binding{v: excClass, konst: true}, true
	case "显示":
		return &binding{v: &FV{Builtin: "显示"}, konst: true}, true
	}
	f := rf.cur()
	for i := len(f.blocks) - 1; i >= 0; i-- {
		if b, ok := f.blocks[i].names[name]; ok {
			return b, true
		}
	}
	if f.mod.top != nil && !f.isProg {
		if b, ok := f.mod.top.names[name]; ok {
			return b, true
		}
	}
	if b, ok := f.mod.consts[name]; ok {
		return b, true
	}
	return nil, false
}

func (rf *Ref) declare(name string, v V, konst bool) *ZErr {
	rf.writes++
	if predefined[name] {
		return fault(ERedeclared, "predefined "+name)
	}
	f := rf.cur()
	b := f.blocks[len(f.blocks)-1]
	if _, ok := b.names[name]; ok {
		return fault(ERedeclared, name)
	}
	b.names[name] = &binding{v: v, konst: konst}
	return nil
}

func (rf *Ref) push() {
	f := rf.cur()
	f.blocks = append(f.blocks, &block{names: map[string]*binding{}})
}
func (rf *Ref) pop() { f := rf.cur(); f.blocks = f.blocks[:len(f.blocks)-1] }

// RunProgram executes a main program with inputs.
func (rf *Ref) RunProgram(p *Program, inputs map[string]V) (res V, err *ZErr, aborted bool) {
	refRuns.Add(1)
	defer func() {
		if x := recover(); x != nil {
			if _, ok := x.(stepLimit); ok {
				aborted = true
				refAborted.Add(1)
				return
			}
			panic(x)
		}
		switch {
		case rf.Open:
			refOpen.Add(1)
		case err != nil:
			refFaults.Add(1)
			if len(rf.Trace) == 0 {
				refFaultsSilent.Add(1)
			}
		default:
			refCompleted.Add(1)
		}
	}()
	mod := &modEnv{name: "主模块", consts: map[string]*binding{}}
	rf.Main = mod
	res, err = rf.runModule(mod, p, inputs, true)
	return
}

// run counters of the reference (vacuity guard: see mc.ExtraStats)
var refRuns, refCompleted, refFaults, refFaultsSilent, refOpen, refAborted atomic.Int64

func init() {
	mc.ExtraStats = append(mc.ExtraStats, func() map[string]int64 {
		return map[string]int64{"ref_runs": refRuns.Load(), "ref_completed": refCompleted.Load(), "ref_faults": refFaults.Load(),
			"ref_faults_before_any_trace": refFaultsSilent.Load(), "ref_open": refOpen.Load(), "ref_aborted": refAborted.Load()}
	})
}

func (rf *Ref) runModule(mod *modEnv, p *Program, inputs map[string]V, isMain bool) (V, *ZErr) {
	fr := &frame{mod: mod, isProg: true}
	rf.frames = append(rf.frames, fr)
	defer func() { rf.frames = rf.frames[:len(rf.frames)-1] }()
	// imports
	for _, im := range p.Imports {
		if e := rf.doImport(mod, im); e != nil {
			return nil, e
		}
	}
	fr.blocks = []*block{{names: map[string]*binding{}}} // input block
	var args []V
	for _, in := range p.Inputs {
		v, ok := inputs[in]
		if !ok {
			return nil, fault(EInputMissing, in)
		}
		args = append(args, v)
	}
	v, e := rf.execBody(p.Inputs, args, p.Body, p.Catches, true)
	return v, e
}

func (rf *Ref) doImport(mod *modEnv, im Import) *ZErr {
	var exports map[string]V
	if im.Lib {
		lib, ok := rf.Libs[im.Name]
		if !ok {
			return fault(64, "library "+im.Name)
		}
		exports = lib
	} else {
		m, ok := rf.loaded[im.Name]
		if !ok {
			if rf.loading[im.Name] {
				return fault(63, "cycle at "+im.Name)
			}
			prog, has := rf.Modules[im.Name]
			if !has {
				return fault(60, "module "+im.Name)
			}
			rf.loading[im.Name] = true
			m = &modEnv{name: im.Name, consts: map[string]*binding{}}
			_, e := rf.runModule(m, prog, nil, false)
			delete(rf.loading, im.Name)
			if e != nil {
				e.Crossed = true
				return e
			}
			rf.loaded[im.Name] = m
		}
		exports = map[string]V{}
		for k, b := range m.consts {
			switch b.v.(type) {
			case *FV, *CV:
				if m.exported(k) {
					exports[k] = b.v
				}
			}
		}
	}
	bind := func(k string, v V) *ZErr {
		if predefined[k] {
			return fault(ERedeclared, k)
		}
		if _, dup := mod.consts[k]; dup {
			return fault(ERedeclared, k)
		}
		mod.consts[k] = &binding{v: v, konst: true}
		return nil
	}
	if len(im.Items) == 0 {
		ks := make([]string, 0, len(exports))
		for k := range exports {
			ks = append(ks, k)
		}
		for _, k := range ks {
			if e := bind(k, exports[k]); e != nil {
				return e
			}
		}
		return nil
	}
	for _, k := range im.Items {
		if v, ok := exports[k]; ok {
			if e := bind(k, v); e != nil {
				return e
			}
		}
	}
	return nil
}

// exported: methods and types defined by the module itself (not its imports).
func (m *modEnv) exported(name string) bool {
	b := m.consts[name]
	switch x := b.v.(type) {
	case *FV:
		return x.Module == m
	case *CV:
		return x.Module == m
	}
	return false
}

// execBody runs one body: binds params, hoists definitions, runs statements,
// dispatches to handlers.
func (rf *Ref) execBody(params []string, args []V, body []Stmt, catches []Catch, isProg bool) (V, *ZErr) {
	f := rf.cur()
	if len(f.blocks) == 0 {
		f.blocks = []*block{{names: map[string]*binding{}}}
	}
	// parameters are bound read-only (输入 names cannot be reassigned)
	for i, pn := range params {
		if isProg {
			f.mod.consts[pn] = &binding{v: args[i], konst: true}
			f.blocks[0].names[pn] = f.mod.consts[pn]
		} else {
			if e := rf.declare(pn, args[i], true); e != nil {
				return nil, e
			}
		}
	}
	// hoist definitions
	var herr *ZErr
	for _, s := range body {
		switch d := s.(type) {
		case Func:
			if d.Ctor {
				b, ok := rf.lookup(d.Name)
				if !ok {
					herr = fault(EUndefined, d.Name)
				} else if c, isC := b.v.(*CV); !isC {
					herr = fault(87, d.Name)
				} else {
					dd := d
					c.Ctor = &FV{Name: d.Name, Def: &dd, Module: f.mod}
				}
			} else {
				dd := d
				herr = rf.defConst(d.Name, &FV{Name: d.Name, Def: &dd, Module: f.mod})
			}
		case Class:
			cv := &CV{Name: d.Name, Default: map[string]V{}, Methods: map[string]*FV{}, Module: f.mod}
			for _, p := range d.Props {
				v, e := rf.eval(p.Val)
				if e != nil {
					herr = e
					break
				}
				if _, dup := cv.Default[p.Name]; !dup {
					cv.Props = append(cv.Props, p.Name)
				}
				cv.Default[p.Name] = v
			}
			for i := range d.Methods {
				m := d.Methods[i]
				cv.Methods[m.Name] = &FV{Name: m.Name, Def: &m, Module: f.mod}
			}
			if herr == nil {
				herr = rf.defConst(d.Name, cv)
			}
		}
		if herr != nil {
			break
		}
	}
	var res V
	var err *ZErr
	if herr != nil {
		err = herr
	} else {
		rf.push()
		if isProg {
			f.mod.top = f.blocks[len(f.blocks)-1]
		}
		var c ctl
		rf.lastVal = nil
		c, res, err = rf.execStmts(body)
		if err == nil && c == cNone {
			res = nil // no 输出 executed
			if isProg {
				// the final expression statement: definitions written after it are not
				// statements that run (they are hoisted), so they do not change the result
				n := len(body)
				for n > 0 {
					if fd, isF := body[n-1].(Func); isF && !fd.Ctor {
						n--
					} else if _, isC := body[n-1].(Class); isC {
						n--
					} else {
						break
					}
				}
				if n > 0 {
					if _, isE := body[n-1].(ExprStmt); isE {
						res = rf.lastVal
						rf.ResultDefined = true
					}
				}
			}
		} else if err == nil && c == cRet && isProg {
			rf.ResultDefined = true
		}
		if !isProg || err != nil {
			rf.pop()
		}
		if err == nil && !isProg && (c == cBrk || c == cCont) {
			// 结束循环 / 继续循环 act on a loop of THIS body only.  One that is left over when a
			// method body ends has no loop to act on: it never reaches a loop of the caller; the
			// call is rejected (at the call boundary: the body's own handlers do not see it)
			return nil, &ZErr{Class: "异常", Exc: &XV{}, AnyCode: true, Note: "loop signal left over by a method body"}
		}
	}
	if err == nil {
		return res, nil
	}
	// handler dispatch
	for _, cb := range catches {
		if cb.Class == err.Class {
			hf := &frame{mod: f.mod, blocks: append([]*block{}, f.blocks[:1]...), this: err.Exc, isProg: f.isProg}
			rf.frames = append(rf.frames, hf)
			rf.push()
			c, v, e2 := rf.execStmts(cb.Body)
			rf.frames = rf.frames[:len(rf.frames)-1]
			if e2 != nil {
				return nil, e2
			}
			if isProg {
				rf.ResultDefined = true
			}
			if c == cRet {
				return v, nil
			}
			return Null{}, nil
		}
	}
	return nil, err
}

func (rf *Ref) defConst(name string, v V) *ZErr {
	if predefined[name] {
		return fault(ERedeclared, name)
	}
	f := rf.cur()
	if f.isProg {
		if _, dup := f.mod.consts[name]; dup {
			return fault(ERedeclared, name)
		}
		f.mod.consts[name] = &binding{v: v, konst: true}
		return nil
	}
	return rf.declare(name, v, true)
}

func (rf *Ref) execStmts(body []Stmt) (ctl, V, *ZErr) {
	for _, s := range body {
		c, v, e := rf.exec(s)
		if e != nil || c != cNone {
			return c, v, e
		}
	}
	return cNone, nil, nil
}

func (rf *Ref) execBlock(body []Stmt) (ctl, V, *ZErr) {
	rf.push()
	defer rf.pop()
	return rf.execStmts(body)
}

func (rf *Ref) exec(s Stmt) (ctl, V, *ZErr) {
	rf.tick()
	switch d := s.(type) {
	case Func:
		if !d.Ctor {
			return cNone, nil, nil // hoisted: not a statement that runs, the block's value stays
		}
	case Class:
		return cNone, nil, nil
	}
	rf.lastVal = Null{}
	switch v := s.(type) {
	case Decl:
		for _, p := range v.Pairs {
			val, e := rf.eval(p.Val)
			if e != nil {
				return cNone, nil, e
			}
			for _, n := range p.Names {
				if _, e := strconvNumName(n); e {
					return cNone, nil, fault(32, "numeric name")
				}
				if e := rf.declare(n, Dup(val), p.Const); e != nil {
					return cNone, nil, e
				}
			}
		}
	case If:
		c, e := rf.evalBool(v.Cond)
		if e != nil {
			return cNone, nil, e
		}
		if c {
			return rf.execBlock(v.Then)
		}
		for _, el := range v.Elifs {
			c, e := rf.evalBool(el.Cond)
			if e != nil {
				return cNone, nil, e
			}
			if c {
				return rf.execBlock(el.Body)
			}
		}
		if v.HasElse {
			return rf.execBlock(v.Else)
		}
	case While:
		for {
			rf.tick()
			c, e := rf.evalBool(v.Cond)
			if e != nil {
				return cNone, nil, e
			}
			if !c {
				break
			}
			cc, val, e := rf.execBlock(v.Body)
			if e != nil {
				return cNone, nil, e
			}
			if cc == cRet {
				return cRet, val, nil
			}
			if cc == cBrk {
				break
			}
		}
		rf.lastVal = Null{}
	case Iter:
		return rf.iterate(v)
	case Func, Class:
		// hoisted
	case Return:
		val, e := rf.eval(v.Val)
		if e != nil {
			return cNone, nil, e
		}
		return cRet, val, nil
	case Throw:
		b, ok := rf.lookup(v.Class)
		if !ok {
			return cNone, nil, fault(EUndefined, v.Class)
		}
		cv, isC := b.v.(*CV)
		if !isC {
			return cNone, nil, fault(EExcType, v.Class)
		}
		var args []V
		for _, a := range v.Args {
			x, e := rf.eval(a)
			if e != nil {
				return cNone, nil, e
			}
			args = append(args, x)
		}
		ex, e := rf.construct(cv, args)
		if e != nil {
			return cNone, nil, e
		}
		return cNone, nil, &ZErr{Class: cv.Name, Exc: ex}
	case Break:
		return cBrk, nil, nil
	case Continue:
		return cCont, nil, nil
	case ExprStmt:
		val, e := rf.eval(v.E)
		if e != nil {
			return cNone, nil, e
		}
		rf.lastVal = val
	case Empty:
	default:
		panic("ref: unknown stmt")
	}
	return cNone, nil, nil
}

func strconvNumName(n string) (float64, bool) {
	if n == "" {
		return 0, false
	}
	c := n[0]
	if (c >= '0' && c <= '9') || ((c == '+' || c == '-') && len(n) > 1 && n[1] >= '0' && n[1] <= '9') {
		return 0, true
	}
	return 0, false
}

func (rf *Ref) iterate(v Iter) (ctl, V, *ZErr) {
	rf.push() // the loop's own block: loop variables live here
	defer rf.pop()
	tv, e := rf.eval(v.Target)
	if e != nil {
		return cNone, nil, e
	}
	if len(v.Vars) > 2 {
		return cNone, nil, fault(EMostParams, "iter vars")
	}
	for _, n := range v.Vars {
		if e := rf.declare(n, Null{}, false); e != nil {
			return cNone, nil, e
		}
	}
	set := func(k, val V) {
		f := rf.cur()
		// loop variables are rebound at the loop's block (not a shadowing inner one)
		for i := len(f.blocks) - 1; i >= 0; i-- {
			_ = i
		}
		if len(v.Vars) == 1 {
			rf.setLoopVar(v.Vars[0], val)
		} else if len(v.Vars) == 2 {
			rf.setLoopVar(v.Vars[0], k)
			rf.setLoopVar(v.Vars[1], val)
		}
	}
	pass := func(k, val V) (stop bool, c ctl, rv V, e *ZErr) {
		rf.tick()
		set(k, val)
		cc, x, e := rf.execBlock(v.Body)
		if e != nil {
			return true, cNone, nil, e
		}
		if cc == cRet {
			return true, cRet, x, nil
		}
		if cc == cBrk {
			return true, cNone, nil, nil
		}
		return false, cNone, nil, nil
	}
	switch t := tv.(type) {
	case *LV:
		items := append([]V{}, t.Items...)
		for i, it := range items {
			if stop, c, rv, e := pass(float64(i+1), it); stop {
				return c, rv, e
			}
		}
	case *DV:
		keys := append([]string{}, t.Keys...)
		for _, k := range keys {
			if stop, c, rv, e := pass(k, t.M[k]); stop {
				return c, rv, e
			}
		}
	default:
		return cNone, nil, fault(EExprType, "iterate target")
	}
	rf.lastVal = Null{}
	return cNone, nil, nil
}

func (rf *Ref) setLoopVar(name string, v V) {
	if b, ok := rf.lookup(name); ok && !b.konst {
		b.v = v
	}
}

func (rf *Ref) evalBool(e Expr) (bool, *ZErr) {
	v, err := rf.eval(e)
	if err != nil {
		return false, err
	}
	b, ok := v.(bool)
	if !ok {
		return false, fault(EExprType, "bool expected")
	}
	return b, nil
}

// ParseNum converts a numeric spelling to its double.
func ParseNum(lit string) (float64, bool) {
	s := strings.Replace(lit, "*10^", "e", 1)
	s = strings.Replace(s, "*^", "e", 1)
	f, err := strconv.ParseFloat(s, 64)
	if err != nil {
		if ne, ok := err.(*strconv.NumError); ok && ne.Err == strconv.ErrRange {
			return f, true
		}
		return 0, false
	}
	return f, true
}

func (rf *Ref) eval(e Expr) (V, *ZErr) {
	rf.tick()
	// rf.pending counts values already computed and waiting for a sibling to be
	// evaluated (earlier arguments, a left operand, a receiver, earlier items)
	p0 := rf.pending
	defer func() { rf.pending = p0 }()
	switch v := e.(type) {
	case Group:
		return rf.eval(v.E)
	case Num:
		f, ok := ParseNum(v.Lit)
		if !ok {
			return nil, fault(30, "bad number "+v.Lit)
		}
		return f, nil
	case Str:
		return v.Val, nil
	case Var:
		b, ok := rf.lookup(v.Name)
		if !ok {
			return nil, fault(EUndefined, v.Name)
		}
		return b.v, nil
	case Bin:
		return rf.evalBin(v)
	case List:
		out := &LV{}
		for _, it := range v.Items {
			x, e := rf.eval(it)
			if e != nil {
				return nil, e
			}
			out.Items = append(out.Items, x)
			rf.pending++
		}
		return out, nil
	case Dict:
		out := NewDV()
		for _, kv := range v.Pairs {
			x, e := rf.eval(kv.Val)
			if e != nil {
				return nil, e
			}
			out.Set(kv.Key, x)
			rf.pending++
		}
		return out, nil
	case Call:
		return rf.evalCall(v)
	case New:
		b, ok := rf.lookup(v.Class)
		if !ok {
			return nil, fault(EUndefined, v.Class)
		}
		cv, isC := b.v.(*CV)
		if !isC {
			return nil, fault(EParamType, "not a type")
		}
		var args []V
		for _, a := range v.Args {
			x, e := rf.eval(a)
			if e != nil {
				return nil, e
			}
			args = append(args, x)
			rf.pending++
		}
		rf.pending = p0
		return rf.construct(cv, args)
	case MCall:
		cur, e := rf.eval(v.Root)
		if e != nil {
			return nil, e
		}
		for _, c := range v.Chain {
			var args []V
			w0 := rf.writes
			rf.pending = p0 + 1 // the receiver
			for _, a := range c.Args {
				x, e := rf.eval(a)
				if e != nil {
					return nil, e
				}
				args = append(args, x)
				rf.pending++
			}
			rf.pending = p0
			if n, isNum := cur.(float64); isNum && (c.Name == "自增" || c.Name == "自减") {
				// numbers are mutable objects in the implementation: 自增 / 自减 change the
				// receiver IN PLACE.  Modelled only where the receiver is a plain storage
				// place (a variable, a property of a variable or of 其); anything else is
				// outside the reference's domain.
				if e := argN(args, 1); e != nil {
					return nil, e
				}
				d, ok := args[0].(float64)
				if !ok {
					return nil, fault(EParamType, "number expected")
				}
				if c.Name == "自减" {
					d = -d
				}
				argsWrote := rf.writes != w0
				if !rf.storeInPlace(v.Root, n+d) || len(v.Chain) != 1 {
					rf.Open = true
					rf.OpenWhy = "in-place number method on a receiver that is not a variable or a property"
				}
				if argsWrote {
					// the storage the receiver was read from may have been re-assigned while
					// the arguments were evaluated: the implementation then changes an orphan
					rf.Open = true
					rf.OpenWhy = "in-place number method whose arguments write to storage"
				}
				if p0 > 0 {
					// an already computed value is waiting (an earlier argument, a left
					// operand): in the implementation it may BE the number object changed here
					rf.Open = true
					rf.OpenWhy = "in-place number method while earlier computed values are pending"
				}
				cur = n + d
				continue
			}
			cur, e = rf.method(cur, c.Name, args)
			if e != nil {
				return nil, e
			}
		}
		if v.Yield != "" {
			if e := rf.declare(v.Yield, cur, true); e != nil {
				return nil, e
			}
		}
		return cur, nil
	case Index:
		root, e := rf.eval(v.Root)
		if e != nil {
			return nil, e
		}
		rf.pending++
		idx, e := rf.eval(v.Idx)
		if e != nil {
			return nil, e
		}
		return rf.indexGet(root, idx)
	case Member:
		root, e := rf.eval(v.Root)
		if e != nil {
			return nil, e
		}
		return rf.getProp(root, v.Name)
	case This:
		t := rf.cur().this
		if t == nil {
			return nil, fault(ENoThis, "no receiver")
		}
		return rf.getProp(t, v.Name)
	case Assign:
		val, e := rf.eval(v.Val)
		if e != nil {
			return nil, e
		}
		val = Dup(val)
		rf.pending++
		switch t := v.Target.(type) {
		case Var:
			b, ok := rf.lookup(t.Name)
			if predefined[t.Name] {
				e := fault(EConst, "predefined")
				e.AnyCode = true
				return nil, e
			}
			if !ok {
				return nil, fault(EUndefined, t.Name)
			}
			if b.konst {
				return nil, fault(EConst, t.Name)
			}
			b.v = val
			rf.writes++
		case Index:
			root, e := rf.eval(t.Root)
			if e != nil {
				return nil, e
			}
			idx, e := rf.eval(t.Idx)
			if e != nil {
				return nil, e
			}
			if e := rf.indexSet(root, idx, val); e != nil {
				return nil, e
			}
		case Member:
			root, e := rf.eval(t.Root)
			if e != nil {
				return nil, e
			}
			if e := rf.setProp(root, t.Name, val); e != nil {
				return nil, e
			}
		case This:
			th := rf.cur().this
			if th == nil {
				return nil, fault(ENoThis, "no receiver")
			}
			if e := rf.setProp(th, t.Name, val); e != nil {
				return nil, e
			}
		default:
			return nil, fault(72, "bad target")
		}
		return val, nil
	}
	panic("ref: unknown expr")
}

// storeInPlace writes the new value of a number that was changed in place back
// to where the receiver expression read it from (constness does not protect
// against in-place change).  False: the receiver is not a plain storage place.
func (rf *Ref) storeInPlace(root Expr, val float64) bool {
	rf.writes++
	switch t := root.(type) {
	case Var:
		b, ok := rf.lookup(t.Name)
		if !ok || predefined[t.Name] {
			return false
		}
		b.v = val
		return true
	case Group:
		return rf.storeInPlace(t.E, val)
	case This:
		if th := rf.cur().this; th != nil {
			return rf.setProp(th, t.Name, val) == nil
		}
	case Member:
		if vr, ok := t.Root.(Var); ok {
			if b, ok := rf.lookup(vr.Name); ok {
				if o, isObj := b.v.(*OV); isObj {
					return rf.setProp(o, t.Name, val) == nil
				}
			}
		}
	case Index:
		// an element of a container held by a variable, at a literal position
		if !purePlace(t.Root) {
			return false
		}
		switch t.Idx.(type) {
		case Num, Str:
		default:
			return false
		}
		root, e := rf.eval(t.Root)
		if e != nil {
			return false
		}
		idx, e := rf.eval(t.Idx)
		if e != nil {
			return false
		}
		return rf.indexSet(root, idx, val) == nil
	}
	return false
}

// purePlace: a variable, or an element at a literal position of a pure place
func purePlace(e Expr) bool {
	switch t := e.(type) {
	case Var:
		return true
	case Index:
		switch t.Idx.(type) {
		case Num, Str:
			return purePlace(t.Root)
		}
	}
	return false
}

func (rf *Ref) evalBin(v Bin) (V, *ZErr) {
	switch v.Op {
	case "且", "或":
		l, e := rf.evalBool(v.L)
		if e != nil {
			return nil, e
		}
		if v.Op == "且" && !l {
			return false, nil
		}
		if v.Op == "或" && l {
			return true, nil
		}
		r, e := rf.evalBool(v.R)
		if e != nil {
			return nil, e
		}
		return r, nil
	}
	l, e := rf.eval(v.L)
	if e != nil {
		return nil, e
	}
	rf.pending++
	r, e := rf.eval(v.R)
	rf.pending--
	if e != nil {
		return nil, e
	}
	switch v.Op {
	case "==", "/=", "为", "不为":
		eq, ok := Equal(l, r)
		if !ok {
			return nil, fault(ECmpL, "non-plain operand")
		}
		if v.Op == "/=" || v.Op == "不为" {
			return !eq, nil
		}
		return eq, nil
	case ">", "<", ">=", "<=":
		a, ok := l.(float64)
		if !ok {
			return nil, fault(ECmpL, "")
		}
		b, ok := r.(float64)
		if !ok {
			return nil, fault(ECmpR, "")
		}
		switch v.Op {
		case ">":
			return a > b, nil
		case "<":
			return a < b, nil
		case ">=":
			return a >= b, nil
		}
		return a <= b, nil
	}
	// arithmetic
	if v.Op == "%" {
		if s, isS := l.(string); isS {
			if arr, isL := r.(*LV); isL {
				if rf.FormatHook != nil {
					return rf.FormatHook(s, arr)
				}
			}
			return nil, fault(EExprType, "format")
		}
	}
	if fa, isF := l.(FoundIdx); isF && v.Op == "-" {
		if fb, isF2 := r.(FoundIdx); isF2 {
			return float64(fa.Pos - fb.Pos), nil
		}
	}
	a, ok := l.(float64)
	if !ok {
		return nil, fault(EExprType, "number expected")
	}
	b, ok := r.(float64)
	if !ok {
		return nil, fault(EExprType, "number expected")
	}
	switch v.Op {
	case "+":
		return a + b, nil
	case "-":
		return a - b, nil
	case "*":
		return a * b, nil
	case "/":
		if b == 0 {
			return nil, fault(EDivZero, "")
		}
		return a / b, nil
	case "|":
		if b == 0 {
			return nil, fault(EDivZero, "")
		}
		return math.Floor(a / b), nil
	case "%":
		if b == 0 {
			return nil, fault(EDivZero, "")
		}
		return a - math.Floor(a/b)*b, nil
	}
	panic("ref: unknown op " + v.Op)
}

func (rf *Ref) evalCall(v Call) (V, *ZErr) {
	var args []V
	p0 := rf.pending
	for _, a := range v.Args {
		x, e := rf.eval(a)
		if e != nil {
			return nil, e
		}
		args = append(args, x)
		rf.pending++
	}
	rf.pending = p0
	b, ok := rf.lookup(v.Name)
	if !ok {
		return nil, fault(EUndefined, v.Name)
	}
	fn, isF := b.v.(*FV)
	if !isF {
		return nil, fault(ENotFunc, v.Name)
	}
	res, e := rf.callFunc(fn, nil, args)
	if e != nil {
		return nil, e
	}
	if v.Yield != "" {
		if e := rf.declare(v.Yield, res, true); e != nil {
			return nil, e
		}
	}
	return res, nil
}

// callFunc runs a user method (or builtin) with receiver this.
func (rf *Ref) callFunc(fn *FV, this V, args []V) (V, *ZErr) {
	if fn.Builtin == "显示" {
		var parts []string
		for _, a := range args {
			if rf.TraceWithText {
				parts = append(parts, Canon(a)+"⟦"+Display(a)+"⟧")
			} else {
				parts = append(parts, Canon(a))
			}
		}
		rf.Trace = append(rf.Trace, strings.Join(parts, " "))
		return Null{}, nil
	}
	if fn.Builtin != "" {
		if rf.BuiltinHook != nil {
			return rf.BuiltinHook(fn.Builtin, args)
		}
		return nil, fault(ENotFunc, fn.Builtin)
	}
	if len(rf.frames) > rf.MaxDepth {
		panic(stepLimit{})
	}
	if len(args) != len(fn.Def.Params) {
		e := fault(EArity, fn.Name)
		e.Crossed = true
		return nil, e
	}
	fr := &frame{mod: fn.Module, this: this}
	rf.frames = append(rf.frames, fr)
	res, e := rf.execBody(fn.Def.Params, args, fn.Def.Body, fn.Def.Catches, false)
	rf.frames = rf.frames[:len(rf.frames)-1]
	if e != nil {
		e.Crossed = true
		return nil, e
	}
	return res, nil
}

func (rf *Ref) construct(cv *CV, args []V) (V, *ZErr) {
	if cv.Builtin {
		if len(args) != 1 {
			return nil, fault(EExactParams, "异常 takes one text")
		}
		s, ok := args[0].(string)
		if !ok {
			return nil, fault(EParamType, "异常 takes one text")
		}
		return &XV{Msg: s, MsgKnown: true}, nil
	}
	o := &OV{Class: cv, Props: map[string]V{}}
	for _, p := range cv.Props {
		o.Props[p] = Dup(cv.Default[p])
	}
	if cv.Ctor != nil {
		if _, e := rf.callFunc(cv.Ctor, o, args); e != nil {
			return nil, e
		}
	}
	return o, nil
}
