module verif/engine

go 1.23

require github.com/DemoHn/Zn v0.0.0

replace github.com/DemoHn/Zn => /repo
