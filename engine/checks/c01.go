package checks

// C01 — expressions evaluate to the values the manual defines.
// E1: every binary expression tree with n operator nodes over 22 operator
// spellings and a 16-leaf pool, rendered with minimal braces and fully braced,
// executed by the real interpreter and compared with the reference evaluator.

import (
	"encoding/json"
	"fmt"
	"math"
	"strings"
	"time"

	r "github.com/DemoHn/Zn/pkg/runtime"

	"verif/engine/mc"
	"verif/engine/zn"
)

type c01Op struct {
	op  string
	alt int
}

var c01Ops = []c01Op{
	{"+", 0}, {"-", 0}, {"*", 0}, {"/", 0}, {"|", 0}, {"%", 0},
	{"==", 0}, {"==", 1}, {"/=", 0}, {"/=", 1}, {">", 0}, {">", 1}, {"<", 0}, {"<", 1},
	{">=", 0}, {">=", 1}, {"<=", 0}, {"<=", 1}, {"为", 0}, {"不为", 0}, {"且", 0}, {"或", 0},
}

// leaves: literals and 输入 variables (甲=NaN 乙=+Inf 丙=-0 丁=-Inf)
var c01Leaves = []zn.Expr{
	zn.Num{Lit: "0"}, zn.Num{Lit: "1"}, zn.Num{Lit: "2"}, zn.Num{Lit: "-3"}, zn.Num{Lit: "0.5"}, zn.Num{Lit: "-0.5"},
	zn.Num{Lit: "1*10^308"}, zn.Num{Lit: "5*10^-324"},
	zn.Var{Name: "真"}, zn.Var{Name: "假"}, zn.Str{Val: ""}, zn.Str{Val: "a"},
	zn.Var{Name: "甲"}, zn.Var{Name: "乙"}, zn.Var{Name: "丙"}, zn.Var{Name: "丁"},
}

// documented numeric spellings, used at n = 1
var c01Spell = []zn.Expr{
	zn.Num{Lit: "+1"}, zn.Num{Lit: "01"}, zn.Num{Lit: "1.0"}, zn.Num{Lit: "1*10^0"}, zn.Num{Lit: "1*^0"}, zn.Num{Lit: "1E+0"}, zn.Num{Lit: "1e-0"},
	zn.Num{Lit: "-18.9E-7"}, zn.Num{Lit: "125*^12"}, zn.Num{Lit: "0129.8"}, zn.Num{Lit: "0.000"},
}

var c01Inputs = []string{"甲", "乙", "丙", "丁"}
var c01InV = map[string]zn.V{"甲": math.NaN(), "乙": math.Inf(1), "丙": math.Copysign(0, -1), "丁": math.Inf(-1)}

// shapes[n] = all binary tree shapes with n internal nodes; a shape is encoded
// as a preorder string: 'N' internal, 'L' leaf.
var c01Shapes = func() [][]string {
	out := make([][]string, 6)
	out[0] = []string{"L"}
	for n := 1; n <= 5; n++ {
		for l := 0; l < n; l++ {
			for _, a := range out[l] {
				for _, b := range out[n-1-l] {
					out[n] = append(out[n], "N"+a+b)
				}
			}
		}
	}
	return out
}()

type c01Family struct {
	name   string
	n      int
	ops    []c01Op
	leaves []zn.Expr
	traced bool
}

func (f c01Family) size() int64 {
	return int64(len(c01Shapes[f.n])) * pow64(len(f.ops), f.n) * pow64(len(f.leaves), f.n+1)
}

// build the k-th tree of the family
func (f c01Family) build(k int64) zn.Expr {
	nl := int64(len(f.leaves))
	no := int64(len(f.ops))
	leafIdx := make([]int, f.n+1)
	for i := range leafIdx {
		leafIdx[i] = int(k % nl)
		k /= nl
	}
	opIdx := make([]int, f.n)
	for i := range opIdx {
		opIdx[i] = int(k % no)
		k /= no
	}
	shape := c01Shapes[f.n][k]
	pos, li, oi := 0, 0, 0
	var rec func() zn.Expr
	rec = func() zn.Expr {
		c := shape[pos]
		pos++
		if c == 'L' {
			e := f.leaves[leafIdx[li]]
			li++
			if f.traced {
				return zn.Call{Name: "记", Args: []zn.Expr{zn.Num{Lit: fmt.Sprint(li)}, e}}
			}
			return e
		}
		o := f.ops[opIdx[oi]]
		oi++
		l := rec()
		rr := rec()
		return zn.Bin{Op: o.op, Alt: o.alt, L: l, R: rr}
	}
	return rec()
}

func c01Families(tier string) []c01Family {
	sens := []c01Op{{"-", 0}, {"/", 0}, {"|", 0}, {"%", 0}, {">", 0}, {"为", 0}, {"且", 0}, {"或", 0}}
	six := []zn.Expr{zn.Num{Lit: "0"}, zn.Num{Lit: "2"}, zn.Num{Lit: "-3"}, zn.Num{Lit: "0.5"}, zn.Var{Name: "真"}, zn.Var{Name: "假"}}
	trLeaves := []zn.Expr{zn.Var{Name: "真"}, zn.Var{Name: "假"}, zn.Num{Lit: "0"}, zn.Num{Lit: "2"}, zn.Str{Val: "a"}}
	fs := []c01Family{
		{"n0", 0, c01Ops, append(append([]zn.Expr{}, c01Leaves...), c01Spell...), false},
		{"n1-spellings", 1, c01Ops, append(append([]zn.Expr{}, c01Leaves...), c01Spell...), false},
		{"n2", 2, c01Ops, c01Leaves, false},
		{"traced-n1", 1, c01Ops, trLeaves, true},
		{"traced-n2", 2, c01Ops, trLeaves, true},
	}
	if tier == "thorough" {
		fs = append(fs,
			c01Family{"n3-sensitive", 3, sens, six, false},
			c01Family{"n4", 4, []c01Op{{"-", 0}, {"/", 0}, {"<", 0}, {"或", 0}}, []zn.Expr{zn.Num{Lit: "2"}, zn.Num{Lit: "-3"}, zn.Var{Name: "真"}}, false},
			c01Family{"traced-n3", 3, []c01Op{{"且", 0}, {"或", 0}, {"+", 0}, {"==", 0}}, []zn.Expr{zn.Var{Name: "真"}, zn.Var{Name: "假"}, zn.Num{Lit: "1"}}, true},
		)
	} else {
		fs = append(fs, c01Family{"n3-small", 3, []c01Op{{"-", 0}, {"/", 0}, {"%", 0}, {"<", 0}, {"且", 0}, {"或", 0}}, []zn.Expr{zn.Num{Lit: "2"}, zn.Num{Lit: "-3"}, zn.Var{Name: "真"}, zn.Var{Name: "假"}}, false})
	}
	return fs
}

// fullyBraced wraps every operand that is itself an operator node in { }.
type c01Braced struct{ e zn.Expr }

var c01Tracer = zn.Func{Name: "记", Params: []string{"K", "V"}, Body: []zn.Stmt{
	zn.ExprStmt{E: zn.Call{Name: "显示", Args: []zn.Expr{zn.Var{Name: "K"}}}},
	zn.Return{Val: zn.Var{Name: "V"}},
}}

func c01Program(e zn.Expr, traced bool) *zn.Program {
	p := &zn.Program{Inputs: c01Inputs}
	if traced {
		p.Body = append(p.Body, c01Tracer)
	}
	p.Body = append(p.Body, zn.Return{Val: e})
	return p
}

var c01RealInputs = func() r.ElementMap {
	m := r.ElementMap{}
	for k, v := range c01InV {
		m[k] = zn.ToElem(v)
	}
	return m
}()

type c01Case struct {
	Family string `json:"family"`
	K      int64  `json:"k"`
	Braced bool   `json:"fully_braced"`
	Source string `json:"source"`
}

// braceAll renders the expression with every nested operator in braces.
func c01BraceAll(e zn.Expr) string {
	switch v := e.(type) {
	case zn.Bin:
		sub := func(x zn.Expr) string {
			if _, ok := x.(zn.Bin); ok {
				return "{" + c01BraceAll(x) + "}"
			}
			return c01BraceAll(x)
		}
		sp := zn.OpSpellings(v.Op)
		s := sp[v.Alt%len(sp)]
		return sub(v.L) + " " + s + " " + sub(v.R)
	}
	return zn.RenderExpr(e, nil)
}

func c01Check(fam c01Family, k int64, braced bool) *mc.Failure {
	e := fam.build(k)
	prog := c01Program(e, fam.traced)
	var src string
	if braced {
		hdr := "输入甲、乙、丙、丁\n"
		if fam.traced {
			hdr += "如何记？\n    输入K、V\n    （显示：K）\n    输出V\n"
		}
		src = hdr + "输出" + c01BraceAll(e)
	} else {
		src = zn.Render(prog, nil)
	}
	cs := func() json.RawMessage { return mc.J(c01Case{Family: fam.name, K: k, Braced: braced, Source: src}) }
	rf := zn.NewRef()
	want, werr, aborted := rf.RunProgram(prog, c01InV)
	if aborted {
		return nil
	}
	got := zn.RunReal(src, c01RealInputs)
	if got.Panic != "" {
		return &mc.Failure{Kind: "panic", Case: cs(), Observed: got.Panic, Detail: got.Stack}
	}
	if werr != nil {
		if got.Err == nil {
			return &mc.Failure{Kind: "mismatch", Case: cs(), Expected: fmt.Sprintf("error (code %d: %s)", werr.Code, werr.Note), Observed: "value " + got.Val}
		}
		if got.Err.Kind == "syntax" {
			return &mc.Failure{Kind: "mismatch", Case: cs(), Expected: fmt.Sprintf("runtime error %d", werr.Code), Observed: fmt.Sprintf("syntax error %d", got.Err.Code)}
		}
		// class of error: zero divisor vs type error, where the channel keeps the code
		if got.Err.Kind == "runtime" && !fam.traced {
			_, set := c01ErrSet(e)
			cls := "type"
			if got.Err.Code == zn.EDivZero {
				cls = "zero"
			}
			if !set[cls] {
				return &mc.Failure{Kind: "mismatch", Case: cs(), Expected: fmt.Sprintf("error of class %v", set), Observed: fmt.Sprintf("error code %d", got.Err.Code)}
			}
		}
		return nil
	}
	if got.Err != nil {
		return &mc.Failure{Kind: "mismatch", Case: cs(), Expected: "value " + zn.Canon(want), Observed: fmt.Sprintf("%s error %d %s", got.Err.Kind, got.Err.Code, got.Err.Msg)}
	}
	if got.Val != zn.Canon(want) {
		return &mc.Failure{Kind: "mismatch", Case: cs(), Expected: "value " + zn.Canon(want), Observed: "value " + got.Val}
	}
	if fmt.Sprint(got.Trace) != fmt.Sprint(rf.Trace) {
		return &mc.Failure{Kind: "mismatch", Case: cs(), Expected: fmt.Sprintf("operand evaluation trace %v", rf.Trace), Observed: fmt.Sprintf("trace %v", got.Trace)}
	}
	return nil
}

func init() {
	mc.Register(&mc.Check{
		ID:    "C01",
		Level: "exploration",
		Rule:  "E1 exhaustive: every binary expression tree with n operator nodes (all shapes) over the listed operator spellings and leaf pool (numbers incl. huge/tiny/negative/fractional, NaN/±Inf/-0 through 输入 variables, booleans, texts), each rendered with minimal braces and fully braced; real interpreter vs reference evaluator on value (bit-exact), error class and, in the traced families, operand evaluation order. Plus every chain 1 + 2 + … + N of N distinct literals (and an alternating +/- chain of N fractional literals), N = 1..300 (2000 thorough), each evaluated twice in one program. Cases are distinct by construction (rank/unrank); a case is non-trivial if it has at least one operator node.",
		Assumptions: []string{
			"reference evaluator uses Go float64 arithmetic (IEEE-754), math.Floor for | and %",
			"unbraced chains of comparisons are never generated (BNF allows, parser rejects, statement only fixes left-to-right grouping)",
			"on error outcomes only error-ness and the class zero-divisor vs type error are compared, not how many operands were evaluated before the error",
			"tree depth above the bound and doubles outside the pool are not covered",
		},
		Budget: func(tier string) time.Duration {
			if tier == "thorough" {
				return 20 * time.Minute
			}
			return 240 * time.Second
		},
		Run: func(c *mc.Ctx) {
			base := int64(0)
			for _, fam := range c01Families(c.Tier) {
				sz := fam.size()
				f := fam
				b0 := base
				c.Describe = func(idx int64) json.RawMessage {
					k := idx - b0
					return mc.J(c01Case{Family: f.name, K: k / 2, Braced: k%2 == 1})
				}
				for k := int64(0); k < sz*2; k++ {
					idx := base + k
					if !c.Mine(idx) {
						continue
					}
					if c.Tier != "thorough" && fam.name == "n2" && k%2 == 1 {
						continue // quick: the fully braced rendering of the largest family is left to thorough
					}
					if c.Due(0xFFF) {
						c.Note("deadline hit in family " + fam.name)
						return
					}
					c.CaseIdx(idx)
					fl := c01Check(fam, k/2, k%2 == 1)
					c.Eval(fam.n > 0)
					c.Stat("trees_"+fam.name, 1)
					if fl != nil {
						fl.Sig = c01Sig(fl)
						c.Fail(*fl)
					}
					if c.WantSample() && k%99991 == 7 {
						c.Sample(map[string]any{"family": fam.name, "source": zn.Render(c01Program(fam.build(k/2), fam.traced), nil)})
					}
				}
				base += sz * 2
				c.Bound("family_"+fam.name, fmt.Sprintf("complete: %d trees x 2 renderings (ops=%d leaves=%d)", sz, len(fam.ops), len(fam.leaves)))
			}
			// long chains: 1 + 2 + ... + N with N distinct literals, evaluated twice in one program
			// (every length 1..N: anything that depends on how many literals / operands a run has seen)
			N := 300
			if c.Tier == "thorough" {
				N = 2000
			}
			c.Describe = func(idx int64) json.RawMessage { return mc.J(c01Case{Family: "chain", K: idx - base}) }
			for k := int64(1); k <= int64(N); k++ {
				if !c.Mine(base + k) {
					continue
				}
				c.CaseIdx(base + k)
				if fl := c01Chain(int(k)); fl != nil {
					c.Fail(*fl)
				}
				c.Eval(true)
				c.Stat("chains", 1)
			}
			c.Bound("chains", fmt.Sprintf("complete: every length 1..%d", N))
		},
		Replay: func(c *mc.Ctx, raw json.RawMessage) {
			var cs c01Case
			if err := json.Unmarshal(raw, &cs); err != nil {
				c.Fail(mc.Failure{Kind: "crash", Observed: err.Error()})
				return
			}
			if cs.Family == "chain" {
				if f := c01Chain(int(cs.K)); f != nil {
					c.Fail(*f)
				}
				return
			}
			for _, tier := range []string{"quick", "thorough"} {
				for _, fam := range c01Families(tier) {
					if fam.name == cs.Family {
						if f := c01Check(fam, cs.K, cs.Braced); f != nil {
							c.Fail(*f)
						}
						return
					}
				}
			}
			c.Fail(mc.Failure{Kind: "crash", Observed: "unknown family " + cs.Family})
		},
	})
}

func c01Sig(f *mc.Failure) string { return "" }

// c01Chain: 令A = 1 + 2 + … + n; 令B = 1 + 2 + … + n (+ the same with - and a
// product of small factors); both evaluations give the same, documented value.
func c01Chain(n int) *mc.Failure {
	var sum, alt strings.Builder
	wantAlt := 0.0
	for i := 1; i <= n; i++ {
		if i > 1 {
			sum.WriteString(" + ")
			if i%2 == 0 {
				alt.WriteString(" - ")
			} else {
				alt.WriteString(" + ")
			}
		}
		fmt.Fprintf(&sum, "%d", i)
		fmt.Fprintf(&alt, "%d.5", i)
		if i%2 == 0 && i > 1 {
			wantAlt -= float64(i) + 0.5
		} else {
			wantAlt += float64(i) + 0.5
		}
	}
	src := "令A = " + sum.String() + "\n令B = " + sum.String() + "\n令C = " + alt.String() + "\n令D = " + alt.String() + "\n输出【A，B，C，D】"
	cs := mc.J(c01Case{Family: "chain", K: int64(n), Source: src})
	got := zn.RunReal(src, nil)
	if got.Panic != "" {
		return &mc.Failure{Kind: "panic", Bucket: "chain", Case: cs, Observed: got.Panic}
	}
	s := float64(n) * float64(n+1) / 2
	want := zn.Canon(&zn.LV{Items: []zn.V{s, s, wantAlt, wantAlt}})
	if got.Err != nil || got.Val != want {
		obs := "value " + got.Val
		if got.Err != nil {
			obs = fmt.Sprintf("%s error %d %s", got.Err.Kind, got.Err.Code, got.Err.Msg)
		}
		return &mc.Failure{Kind: "mismatch", Bucket: "chain", Case: cs, Expected: fmt.Sprintf("【%v，%v，%v，%v】 = %s", s, s, wantAlt, wantAlt, want), Observed: obs}
	}
	return nil
}

// c01ErrSet evaluates e and returns, when an error is possible, the set of
// error classes ("zero" divisor, "type") that any operand evaluation order
// could raise first — the statement fixes that an error results, not which
// operand is inspected first.
func c01ErrSet(e zn.Expr) (zn.V, map[string]bool) {
	switch v := e.(type) {
	case zn.Num:
		f, _ := zn.ParseNum(v.Lit)
		return f, nil
	case zn.Str:
		return v.Val, nil
	case zn.Var:
		switch v.Name {
		case "真":
			return true, nil
		case "假":
			return false, nil
		}
		return c01InV[v.Name], nil
	case zn.Bin:
		lv, le := c01ErrSet(v.L)
		if v.Op == "且" || v.Op == "或" {
			if le != nil {
				return nil, le
			}
			lb, ok := lv.(bool)
			if !ok {
				return nil, map[string]bool{"type": true}
			}
			if (v.Op == "且" && !lb) || (v.Op == "或" && lb) {
				return lb, nil
			}
			rv, re := c01ErrSet(v.R)
			if re != nil {
				return nil, re
			}
			rb, ok := rv.(bool)
			if !ok {
				return nil, map[string]bool{"type": true}
			}
			return rb, nil
		}
		rv, re := c01ErrSet(v.R)
		isNum := func(x zn.V) bool { _, ok := x.(float64); return ok }
		arith := map[string]bool{"+": true, "-": true, "*": true, "/": true, "|": true, "%": true}
		order := map[string]bool{">": true, "<": true, ">=": true, "<=": true}
		if le != nil || re != nil {
			set := map[string]bool{}
			for k := range le {
				set[k] = true
			}
			for k := range re {
				set[k] = true
			}
			if (arith[v.Op] || order[v.Op]) && ((le == nil && !isNum(lv)) || (re == nil && !isNum(rv))) {
				set["type"] = true
			}
			return nil, set
		}
		if arith[v.Op] || order[v.Op] {
			if !isNum(lv) || !isNum(rv) {
				return nil, map[string]bool{"type": true}
			}
			a, b := lv.(float64), rv.(float64)
			switch v.Op {
			case "+":
				return a + b, nil
			case "-":
				return a - b, nil
			case "*":
				return a * b, nil
			case "/", "|", "%":
				if b == 0 {
					return nil, map[string]bool{"zero": true}
				}
				if v.Op == "/" {
					return a / b, nil
				}
				if v.Op == "|" {
					return math.Floor(a / b), nil
				}
				return a - math.Floor(a/b)*b, nil
			case ">":
				return a > b, nil
			case "<":
				return a < b, nil
			case ">=":
				return a >= b, nil
			}
			return a <= b, nil
		}
		eq, _ := zn.Equal(lv, rv)
		if v.Op == "/=" || v.Op == "不为" {
			return !eq, nil
		}
		return eq, nil
	}
	return nil, map[string]bool{"type": true, "zero": true}
}
