package checks

// C17 — source files are decoded losslessly or rejected.
//
// E1: (a) every string of <= L characters over {a, é, 你, 😀, U+FFFD, U+FEFF}
// padded with ASCII so that every byte boundary of every character falls on
// read-block boundary 4096 and on 8192 (FileStream.ReadAll), and the same
// strings unpadded through FileStream.Read(n) / ByteStream.Read(n) for every
// constant n in 1..9 and every alternating pair (n1,n2) in 1..5;
// (b) every byte string <= 2 over all 256 values and <= 3 over 24 structural
// bytes inserted at start / middle / inside a character / end of a small host
// and at every split across block boundary 4096 of a large host; every
// single-byte substitution of a 60-byte sample; GBK encodings of sample programs;
// (c) the corrupted two-line programs end to end through LoadFile(...).Execute.
//
// Oracle (trusted base: Go's unicode/utf8 and []rune conversion):
// utf8.Valid(bytes) => exactly []rune(string(bytes)) minus ONE leading U+FEFF;
// !utf8.Valid(bytes) => a non-nil error, never a rune slice / a program result.

import (
	"encoding/hex"
	"encoding/json"
	"fmt"
	"io"
	"os"
	"path/filepath"
	"reflect"
	"runtime"
	"runtime/debug"
	"strconv"
	"strings"
	"sync/atomic"
	"syscall"
	"time"
	"unicode/utf8"
	"unsafe"

	zio "github.com/DemoHn/Zn/pkg/io"

	"verif/engine/mc"
	"verif/engine/zn"
)

const (
	c17SigInvalid = "invalid-utf8-accepted-truncated"
	c17SigFFFD    = "u+fffd-truncates"
	c17SigBOM     = "bom-kept-first-read-short"
)

var c17Alpha = []rune{'a', 'é', '你', '😀', 0xFFFD, 0xFEFF}

// 24 structural bytes: ASCII incl. NUL / LF / DEL, every continuation-range
// edge (80 8F 90 9F A0 BF), the bytes that complete U+FEFF (EF BB BF), U+FFFD
// (EF BF BD) and 你 (E4 BD A0), never-valid leads (C0 C1 F5 FF) and the leads
// with restricted second bytes (E0 ED F0 F4).
var c17Struct = []byte{
	0x00, 0x0A, 0x41, 0x7F,
	0x80, 0x8F, 0x90, 0x9F, 0xA0, 0xBB, 0xBD, 0xBF,
	0xC0, 0xC1, 0xC2, 0xDF,
	0xE0, 0xE4, 0xED, 0xEF,
	0xF0, 0xF4, 0xF5, 0xFF,
}

const c17SmallHost = "ab令甲 = 1\n输出“你好”\nend"
const c17HostUnit = "你好ab\n" // 9 bytes, repeated to build the large host
const c17SubstSample = "a=é；令甲 = “你好😀”\n输出 甲 + 1 // ñ€𝄞 ok\n"

var c17Programs = []string{
	"令甲 = 1\n输出甲 + 1",
	"（显示：“一”）\n（显示：“二”）\n输出3",
	"令乙 = “文本”\n输出乙",
}

// GBK encodings (python3: s.encode("gbk")) of four small programs.
var c17GBK = []struct {
	name string
	b    []byte
}{
	{"输出1", []byte{0xCA, 0xE4, 0xB3, 0xF6, 0x31}},
	{"令甲 = 1\\n输出甲 + 1", []byte{0xC1, 0xEE, 0xBC, 0xD7, 0x20, 0x3D, 0x20, 0x31, 0x0A, 0xCA, 0xE4, 0xB3, 0xF6, 0xBC, 0xD7, 0x20, 0x2B, 0x20, 0x31}},
	{"（显示：“一”）\\n输出“文本”", []byte{0xA3, 0xA8, 0xCF, 0xD4, 0xCA, 0xBE, 0xA3, 0xBA, 0xA1, 0xB0, 0xD2, 0xBB, 0xA1, 0xB1, 0xA3, 0xA9, 0x0A, 0xCA, 0xE4, 0xB3, 0xF6, 0xA1, 0xB0, 0xCE, 0xC4, 0xB1, 0xBE, 0xA1, 0xB1}},
	{"如果真：\\n    输出“好”", []byte{0xC8, 0xE7, 0xB9, 0xFB, 0xD5, 0xE6, 0xA3, 0xBA, 0x0A, 0x20, 0x20, 0x20, 0x20, 0xCA, 0xE4, 0xB3, 0xF6, 0xA1, 0xB0, 0xBA, 0xC3, 0xA1, 0xB1}},
}

// ---------------------------------------------------------------- cases

// c17Seg is a piece of a file: Text (valid UTF-8) repeated Rep times (0 = once)
// or raw bytes in hex.
type c17Seg struct {
	Text string `json:"text,omitempty"`
	Hex  string `json:"hex,omitempty"`
	Rep  int    `json:"rep,omitempty"`
}

// c17Case is self-contained: Replay rebuilds the bytes from Segs alone.
type c17Case struct {
	Part   string   `json:"part"`   // readall | readn | e2e
	Stream string   `json:"stream"` // file | byte | fifo (named pipe, N1 bytes per write) | grow (N1 bytes when the stream is made, complete when read)
	N1     int      `json:"n1,omitempty"`
	N2     int      `json:"n2,omitempty"`
	Segs   []c17Seg `json:"segs"`
	Where  string   `json:"where,omitempty"` // human-readable provenance (not used by replay)
}

func c17T(s string) c17Seg        { return c17Seg{Text: s} }
func c17R(s string, n int) c17Seg { return c17Seg{Text: s, Rep: n} }
func c17H(b []byte) c17Seg        { return c17Seg{Hex: hex.EncodeToString(b)} }
func c17Pad(n int) c17Seg {
	if n <= 0 {
		return c17Seg{}
	}
	return c17Seg{Text: "x", Rep: n}
}
func c17Segs(s ...c17Seg) []c17Seg { return s }

func (cs *c17Case) bytes(buf []byte) ([]byte, error) {
	buf = buf[:0]
	for _, s := range cs.Segs {
		if s.Hex != "" {
			b, err := hex.DecodeString(s.Hex)
			if err != nil {
				return nil, err
			}
			buf = append(buf, b...)
			continue
		}
		n := s.Rep
		if n == 0 {
			n = 1
		}
		for i := 0; i < n; i++ {
			buf = append(buf, s.Text...)
		}
	}
	return buf, nil
}

// ---------------------------------------------------------------- environment

type c17Env struct {
	dir   string
	path  string
	w     *os.File // the scratch file, kept open for rewriting
	buf   []byte
	loads int
}

func c17NewEnv() (*c17Env, error) {
	d, err := os.MkdirTemp("", "c17-")
	if err != nil {
		return nil, err
	}
	e := &c17Env{dir: d, path: filepath.Join(d, "case.zn")}
	e.w, err = os.OpenFile(e.path, os.O_RDWR|os.O_CREATE, 0o644)
	if err != nil {
		_ = os.RemoveAll(d)
		return nil, err
	}
	return e, nil
}

func (e *c17Env) close() {
	_ = e.w.Close()
	_ = os.RemoveAll(e.dir)
}

// write replaces the scratch file's content.  (Rewriting in place through one
// descriptor: re-creating the file with O_TRUNC costs > 1 ms per case on ext4.)
func (e *c17Env) write(data []byte) error {
	if _, err := e.w.WriteAt(data, 0); err != nil {
		return err
	}
	return e.w.Truncate(int64(len(data)))
}

// c17CloseStream closes the *os.File a FileStream keeps open (FileStream has no
// Close; without this every case would leak a descriptor until the next GC).
func c17CloseStream(fs *zio.FileStream) {
	defer func() { recover() }()
	v := reflect.ValueOf(fs).Elem().FieldByName("reader")
	if !v.IsValid() {
		return
	}
	rv := reflect.NewAt(v.Type(), unsafe.Pointer(v.UnsafeAddr())).Elem()
	if cl, ok := rv.Interface().(io.Closer); ok {
		_ = cl.Close()
	}
}

// ---------------------------------------------------------------- oracle

type c17Oracle struct {
	valid bool
	full  []rune // valid: every rune; invalid: the runes of the longest valid prefix
}

func c17Expect(data []byte) c17Oracle {
	if utf8.Valid(data) {
		return c17Oracle{true, []rune(string(data))}
	}
	i := 0
	for i < len(data) {
		r, sz := utf8.DecodeRune(data[i:])
		if r == utf8.RuneError && sz <= 1 {
			break
		}
		i += sz
	}
	return c17Oracle{false, []rune(string(data[:i]))}
}

func c17Strip(rs []rune) []rune {
	if len(rs) > 0 && rs[0] == 0xFEFF {
		return rs[1:]
	}
	return rs
}

func c17Eq(a, b []rune) bool {
	if len(a) != len(b) {
		return false
	}
	for i := range a {
		if a[i] != b[i] {
			return false
		}
	}
	return true
}

func c17CutFFFD(rs []rune) ([]rune, bool) {
	for i, r := range rs {
		if r == 0xFFFD {
			return rs[:i], true
		}
	}
	return rs, false
}

func c17Show(rs []rune) string {
	q := func(x []rune) string { return strconv.QuoteToASCII(string(x)) }
	if len(rs) <= 40 {
		return fmt.Sprintf("%d runes %s", len(rs), q(rs))
	}
	return fmt.Sprintf("%d runes %s…%s", len(rs), q(rs[:12]), q(rs[len(rs)-16:]))
}

// c17Judge applies the oracle to a decoding result.  It returns nil if the
// property holds on this case.
//
// stream "byte": the statement only speaks about the byte-order mark of a
// source *file*; for ByteStream both "one leading U+FEFF removed" and "kept"
// are accepted (dont_care).
func c17Judge(cs *c17Case, or c17Oracle, got []rune, err error) *mc.Failure {
	alts := [][]rune{c17Strip(or.full)}
	hasBOM := len(or.full) > 0 && or.full[0] == 0xFEFF
	if cs.Stream == "byte" && hasBOM {
		alts = append(alts, or.full)
	}
	obs := c17Show(got)
	if err != nil {
		obs = "error: " + err.Error()
	}
	// buckets are coarse on purpose (every kept example is confirmed 5x in a
	// fresh process); the per-stream split is reported through failing_* counters
	bucket := cs.Part
	if or.valid {
		if err == nil {
			for _, a := range alts {
				if c17Eq(got, a) {
					return nil
				}
			}
		}
		sig := ""
		if err == nil {
			for _, a := range alts {
				if cut, has := c17CutFFFD(a); has && c17Eq(got, cut) {
					sig = c17SigFFFD
				}
			}
			if sig == "" && cs.Stream == "file" && cs.Part == "readn" && cs.N1 < 3 && hasBOM {
				// the first Read(n) could not see the whole 3-byte mark
				if c17Eq(got, or.full) {
					sig = c17SigBOM
				} else if cut, has := c17CutFFFD(or.full); has && c17Eq(got, cut) {
					sig = c17SigBOM + "+" + c17SigFFFD
				}
			}
		}
		return &mc.Failure{Sig: sig, Bucket: bucket + "/valid", Kind: "mismatch", Case: mc.J(cs),
			Expected: "valid UTF-8, no error and " + c17Show(alts[0]), Observed: obs}
	}
	if err != nil {
		return nil
	}
	sig := ""
	for _, a := range alts {
		if cut, _ := c17CutFFFD(a); c17Eq(got, cut) {
			sig = c17SigInvalid
		}
	}
	return &mc.Failure{Sig: sig, Bucket: bucket + "/invalid", Kind: "mismatch", Case: mc.J(cs),
		Expected: fmt.Sprintf("not valid UTF-8 (first undecodable byte after %d runes): a non-nil error", len(or.full)),
		Observed: "no error, " + obs}
}

// ---------------------------------------------------------------- execution

// c17ReadLoop drives Read(n1), Read(n2), Read(n1)… and concatenates.  A call
// may legitimately return zero runes while bytes are pending (n smaller than a
// character, or the only character completed is the stripped byte-order mark),
// so an empty result is NOT taken as the end of data.  Every call with n >= 1
// consumes at least one byte while any are left (regular file / bytes.Reader),
// hence after size calls the whole input has been consumed; the loop makes
// size+2 calls and everything decodable must have been delivered by then.
func c17ReadLoop(read func(int) ([]rune, error), n1, n2, size int) ([]rune, error) {
	var out []rune
	for call := 0; call < size+2; call++ {
		n := n1
		if call%2 == 1 {
			n = n2
		}
		rs, err := read(n)
		if err != nil {
			return out, err
		}
		out = append(out, rs...)
	}
	return out, nil
}

func c17OutStr(o zn.Outcome) string {
	tr := ""
	if len(o.Trace) > 0 {
		tr = " shown=[" + strings.Join(o.Trace, "|") + "]"
	}
	switch {
	case o.Panic != "":
		return "panic: " + o.Panic + tr
	case o.Err != nil:
		return fmt.Sprintf("error %s/%d", o.Err.Kind, o.Err.Code) + tr
	}
	return "result " + o.Val + tr
}

// c17Eval runs one case and returns a failure or nil.
func (e *c17Env) eval(cs *c17Case) (f *mc.Failure, or c17Oracle) {
	data, err := cs.bytes(e.buf)
	if err != nil {
		return &mc.Failure{Kind: "crash", Case: mc.J(cs), Observed: "bad case: " + err.Error()}, or
	}
	e.buf = data
	or = c17Expect(data)
	defer func() {
		if p := recover(); p != nil {
			f = &mc.Failure{Kind: "panic", Bucket: cs.Part + "/panic", Case: mc.J(cs), Observed: fmt.Sprint(p)}
		}
	}()
	if cs.Stream == "file" || cs.Part == "e2e" {
		if err := e.write(data); err != nil {
			return &mc.Failure{Kind: "crash", Case: mc.J(cs), Observed: "cannot write scratch file: " + err.Error()}, or
		}
	}
	switch cs.Part {
	case "dir":
		// the path is a directory: opening works, reading cannot - an error, never an empty program
		fs, err := zio.NewFileStream(e.dir)
		if err == nil {
			defer c17CloseStream(fs)
			got, rerr := fs.ReadAll()
			if rerr == nil {
				return &mc.Failure{Kind: "mismatch", Bucket: "dir/readall", Case: mc.J(cs), Expected: "reading a directory as a source is an error", Observed: fmt.Sprintf("%d characters and no error", len(got))}, or
			}
		}
		if got := zn.RunRealFile(e.dir, nil); got.Panic != "" || got.Err == nil {
			return &mc.Failure{Kind: "mismatch", Bucket: "dir/run", Case: mc.J(cs), Expected: "running a directory is an error", Observed: c17OutStr(got) + " " + got.Panic}, or
		}
		return nil, or
	case "readall", "readn":
		var got []rune
		var rerr error
		if cs.Stream == "fifo" {
			// the same bytes through a named pipe, written N1 bytes at a time (0 = at once): the
			// reader sees size 0 and short reads; it must deliver what a regular file delivers
			fifo := filepath.Join(e.dir, "pipe.zn")
			_ = os.Remove(fifo)
			if err := syscall.Mkfifo(fifo, 0o644); err != nil {
				return &mc.Failure{Kind: "crash", Case: mc.J(cs), Observed: "mkfifo: " + err.Error()}, or
			}
			wdone := make(chan bool, 1)
			var stop atomic.Bool
			payload := append([]byte{}, data...)
			go func() {
				defer func() { wdone <- true }()
				w, err := os.OpenFile(fifo, os.O_WRONLY, 0)
				if err != nil {
					return
				}
				defer w.Close()
				step := cs.N1
				if step <= 0 {
					step = len(payload) + 1
				}
				for i := 0; i < len(payload); i += step {
					j := i + step
					if j > len(payload) {
						j = len(payload)
					}
					if _, err := w.Write(payload[i:j]); err != nil {
						return
					}
					// the next piece only once the reader has taken this one (FIONREAD == 0): every
					// read() of the reader returns exactly one piece, the same way in every run
					for !stop.Load() {
						var pending int32
						if _, _, en := syscall.Syscall(syscall.SYS_IOCTL, w.Fd(), 0x541B, uintptr(unsafe.Pointer(&pending))); en != 0 || pending == 0 {
							break
						}
						runtime.Gosched()
					}
				}
			}()
			fs, err := zio.NewFileStream(fifo)
			if err != nil {
				return &mc.Failure{Kind: "crash", Case: mc.J(cs), Observed: "NewFileStream(fifo): " + err.Error()}, or
			}
			got, rerr = fs.ReadAll()
			stop.Store(true)
			c17CloseStream(fs) // (also releases a writer that still has bytes to deliver)
			<-wdone
			return c17Judge(cs, or, got, rerr), or
		}
		if cs.Stream == "grow" {
			// the file holds its first N1 bytes when the stream is made and is complete when it is
			// read: nothing of it is left out
			if err := e.write(data[:cs.N1]); err != nil {
				return &mc.Failure{Kind: "crash", Case: mc.J(cs), Observed: "cannot write scratch file: " + err.Error()}, or
			}
			fs, err := zio.NewFileStream(e.path)
			if err != nil {
				return &mc.Failure{Kind: "crash", Case: mc.J(cs), Observed: "NewFileStream: " + err.Error()}, or
			}
			defer c17CloseStream(fs)
			if err := e.write(data); err != nil {
				return &mc.Failure{Kind: "crash", Case: mc.J(cs), Observed: "cannot write scratch file: " + err.Error()}, or
			}
			got, rerr = fs.ReadAll()
			return c17Judge(cs, or, got, rerr), or
		}
		if cs.Stream == "file" {
			fs, err := zio.NewFileStream(e.path)
			if err != nil {
				return &mc.Failure{Kind: "crash", Case: mc.J(cs), Observed: "NewFileStream: " + err.Error()}, or
			}
			defer c17CloseStream(fs)
			if cs.Part == "readall" {
				got, rerr = fs.ReadAll()
			} else {
				got, rerr = c17ReadLoop(fs.Read, cs.N1, cs.N2, len(data))
			}
		} else {
			bs := zio.NewByteStream(append([]byte{}, data...))
			if cs.Part == "readall" {
				got, rerr = bs.ReadAll()
			} else {
				got, rerr = c17ReadLoop(bs.Read, cs.N1, cs.N2, len(data))
			}
		}
		return c17Judge(cs, or, got, rerr), or
	case "e2e":
		return e.e2e(cs, or), or
	}
	return &mc.Failure{Kind: "crash", Case: mc.J(cs), Observed: "unknown part " + cs.Part}, or
}

// e2e: the file through Interpreter.LoadFile(...).Execute.
//
//	valid   => same outcome (result / error class+code / 显示 trace) as executing
//	           the expected runes directly through LoadScript;
//	invalid => the run ends in an error and nothing was executed (no 显示 call):
//	           in particular not the successful result of a prefix program.
func (e *c17Env) e2e(cs *c17Case, or c17Oracle) *mc.Failure {
	e.loads++
	if e.loads%1000 == 0 {
		runtime.GC() // LoadFile leaves its descriptor to the finalizer
	}
	got := zn.RunRealFile(e.path, nil)
	gs := c17OutStr(got)
	exp := c17Strip(or.full)
	if or.valid {
		want := c17OutStr(zn.RunReal(string(exp), nil))
		if gs == want {
			return nil
		}
		sig := ""
		if cut, has := c17CutFFFD(exp); has && gs == c17OutStr(zn.RunReal(string(cut), nil)) {
			sig = c17SigFFFD
		}
		return &mc.Failure{Sig: sig, Bucket: "e2e/valid", Kind: "mismatch", Case: mc.J(cs),
			Expected: "same as executing the decoded text: " + want, Observed: gs}
	}
	if got.Panic == "" && got.Err != nil && len(got.Trace) == 0 {
		return nil
	}
	if got.Panic != "" {
		return &mc.Failure{Bucket: "e2e/panic", Kind: "panic", Case: mc.J(cs), Observed: got.Panic, Detail: got.Stack}
	}
	sig := ""
	cut, _ := c17CutFFFD(exp)
	if gs == c17OutStr(zn.RunReal(string(cut), nil)) {
		sig = c17SigInvalid
	}
	return &mc.Failure{Sig: sig, Bucket: "e2e/invalid", Kind: "mismatch", Case: mc.J(cs),
		Expected: "not valid UTF-8: the run ends in an error and executes nothing",
		Observed: gs + fmt.Sprintf(" (= outcome of the %d-rune prefix program %s)", len(cut), strconv.QuoteToASCII(string(cut)))}
}

// ---------------------------------------------------------------- registration

func init() {
	mc.Register(&mc.Check{
		ID:    "C17",
		Level: "exploration",
		Rule: "E1 exhaustive: (f) a program with a CJK comment line that makes the file T bytes long, for every T within 8 bytes of 1 MiB and for 64 KiB + 1, 256 KiB + 1, 2 MiB + 1, 4 MiB + 5, run through LoadFile like the decoded text; (d) a directory as source path is an error, through ReadAll and through LoadFile; (c) two 10 KiB texts through a named pipe written 1, 7, 4095, 4096, 4097, 5000 bytes at a time and at once, and as a file that holds its first 0, 1, 4095, 4096, 4097, 8192, 9000 bytes when the stream is made and is complete when it is read; every string of 1..3 characters of (a) through a named pipe written 1, 2, 3, 5 bytes at a time and at once, and as a file completed after the stream was made (every byte offset); (a3) 1..3 full read blocks followed by every incomplete head of a 2-, 3- or 4-byte character (the head is alone in the last read): rejected, never dropped; (a2) runs of N characters of one width (1, 2, 3, 4 bytes) with N x width within 3 characters of one and of two read blocks, behind 0..4 bytes of padding, decoded and run as a program (the run inside a comment, a statement after it); (a) every string of <= L characters over {a, é, 你, 😀, U+FFFD, U+FEFF} (L=4 quick, 5 thorough): unpadded through FileStream.ReadAll and ByteStream.ReadAll; padded with ASCII (before the character, and at file start) so that byte offset k of each character (k = 0..len, internal ones are the non-trivial cases) lies on block boundary 4096 and on 8192, through FileStream.ReadAll; unpadded through FileStream.Read(n) and ByteStream.Read(n) repeated to exhaustion for every constant n in 1..9 and every alternating pair (n1,n2) in 1..5 x 1..5. " +
			"(b) every byte string of length <= 2 over all 256 values and of length 3 over 24 structural bytes (thorough: length 3 over all 256 values in the middle position, length 4 over the 24) inserted into a small ASCII+CJK host at start / middle / after the 1st and 2nd byte of a CJK character / end (FileStream.ReadAll and ByteStream.ReadAll) and into a 4.2 KiB host at every split of the string across block boundary 4096 (FileStream.ReadAll); every single-byte substitution (255 values x every offset) of a 60-byte sample with 1-4-byte characters, plain and with the substituted byte at offsets 4095 and 4096; GBK encodings of 4 sample programs alone and after a valid UTF-8 first line. " +
			"(c) end to end through Interpreter.LoadFile(...).Execute: three small programs with every single byte, every pair of structural bytes and U+FFFD / U+FEFF / é / 😀 inserted at every byte offset, and every single-byte substitution; a > 4 KiB program with every single byte inserted in its second read block; plus the GBK files. " +
			"Oracle: utf8.Valid => exactly []rune(string(bytes)) minus one leading U+FEFF and no error (end to end: same outcome as executing that text through LoadScript); not valid => a non-nil error (end to end: an error and no 显示 executed). (string, position, stream, n) tuples are distinct by construction (a few files coincide where inserted bytes equal neighbouring host bytes); a case is non-trivial if the input is not valid UTF-8, or contains U+FFFD / U+FEFF, or a multi-byte character is split by a block / Read(n) boundary.",
		Assumptions: []string{
			"trusted base: Go's unicode/utf8 (utf8.Valid, []rune(string)) defines 'valid UTF-8' and the lossless decoding; surrogates, overlong forms and values above U+10FFFF are invalid",
			"Read(n): n counts bytes; a call may return zero runes while bytes are pending (n smaller than a character, or only the stripped byte-order mark completed), so an empty result is not taken as end of data — the harness makes size+2 calls (each call with n>=1 consumes at least one byte of a regular file / byte slice, so all bytes have been consumed by then) and asserts only the concatenation, not how runes are distributed over calls; Read(n) is only exercised on valid input",
			"the byte-order mark rule is asserted for source files (FileStream, LoadFile); for ByteStream (strings, not files) both 'one leading U+FEFF removed' and 'kept' are accepted",
			"which error is returned for invalid input is not asserted (any non-nil error); end to end, a file that is rejected with any error class and executed no 显示 counts as rejected — so a truncated prefix that happens to be a syntax error is not reported by (c), only by (b)",
			"read blocks are those of the shipped constant (4096) for ReadAll; other block sizes are exercised through Read(n) with n <= 9; short reads from the operating system on regular files are not modelled",
			"files are written to a per-worker temporary directory; FileStream has no Close, the harness closes its descriptor through reflection (descriptor leaks are not this property's subject)",
		},
		Budget: func(tier string) time.Duration {
			if tier == "thorough" {
				return 12 * time.Minute
			}
			return 90 * time.Second
		},
		Run:    c17Run,
		Replay: c17Replay,
	})
}

func c17Replay(c *mc.Ctx, raw json.RawMessage) {
	var cs c17Case
	if err := json.Unmarshal(raw, &cs); err != nil {
		c.Fail(mc.Failure{Kind: "crash", Observed: "bad replay case: " + err.Error()})
		return
	}
	e, err := c17NewEnv()
	if err != nil {
		c.Fail(mc.Failure{Kind: "crash", Observed: "no scratch directory: " + err.Error()})
		return
	}
	defer e.close()
	if f, _ := e.eval(&cs); f != nil {
		c.Fail(*f)
	}
}

// ---------------------------------------------------------------- enumeration

func c17Unrank(alpha []rune, n int, k int64) []rune {
	out := make([]rune, 0, n)
	for i := 0; i < n; i++ {
		out = append(out, alpha[k%int64(len(alpha))])
		k /= int64(len(alpha))
	}
	return out
}

func c17UnrankBytes(alpha []byte, n int, k int64) []byte {
	out := make([]byte, 0, n)
	for i := 0; i < n; i++ {
		if alpha == nil {
			out = append(out, byte(k%256))
			k /= 256
		} else {
			out = append(out, alpha[k%int64(len(alpha))])
			k /= int64(len(alpha))
		}
	}
	return out
}

func c17Special(rs []rune) bool {
	for _, r := range rs {
		if r == 0xFFFD || r == 0xFEFF {
			return true
		}
	}
	return false
}

func c17Run(c *mc.Ctx) {
	e, err := c17NewEnv()
	if err != nil {
		c.Inexhaustive("no scratch directory: " + err.Error())
		return
	}
	defer e.close()
	thorough := c.Tier == "thorough"
	// every case allocates a few read blocks and rune slices and keeps nothing:
	// with the default 4 MiB heap goal the collector and the scavenger dominate.
	defer debug.SetGCPercent(debug.SetGCPercent(1600))

	var cur c17Case
	idx := int64(-1)
	mine := 0
	// unit: the next shardable unit of work; returns whether it is ours.
	unit := func() bool {
		idx++
		if !c.Mine(idx) {
			return false
		}
		mine++
		c.Case(idx, func() json.RawMessage { return mc.J(&cur) })
		return true
	}
	// run evaluates cur.
	run := func(stat string, nontrivialIfValid bool) {
		c.CaseIdx(idx)
		if cur.Stream == "fifo" {
			// thousands of hand-overs between a writer and a reader through a pipe: a fraction of a
			// second on an idle machine, much longer when every core is taken
			c.AllowSlow(180)
		}
		f, or := e.eval(&cur)
		c.Eval(!or.valid || nontrivialIfValid || c17Special(or.full))
		c.Stat(stat, 1)
		if or.valid {
			c.Stat("inputs_valid_utf8", 1)
		} else {
			c.Stat("inputs_invalid_utf8", 1)
		}
		if f != nil {
			c.Stat("failing_"+cur.Part+"_"+cur.Stream, 1)
			c.Fail(*f)
		}
	}

	// ---- (d) the path is a directory
	if unit() {
		cur = c17Case{Part: "dir", Stream: "file", Segs: c17Segs(c17T(""))}
		run("directory_as_source", true)
	}
	// ---- (c) long texts through a named pipe: pieces around the read block, and single bytes
	for _, unitText := range []string{c17HostUnit, "é你😀a"} {
		for _, step := range []int{0, 1, 7, 4095, 4096, 4097, 5000} {
			if !unit() {
				continue
			}
			cur = c17Case{Part: "readall", Stream: "fifo", N1: step, Segs: c17Segs(c17R(unitText, 1100), c17T("尾"))}
			run("c_fifo_long_readall", true)
		}
		for _, k := range []int{0, 1, 4095, 4096, 4097, 8192, 9000} {
			if !unit() {
				continue
			}
			cur = c17Case{Part: "readall", Stream: "grow", N1: k, Segs: c17Segs(c17R(unitText, 1100), c17T("尾"))}
			run("c_growing_file_long_readall", true)
		}
	}
	// ---- (a) valid strings
	L := 4
	if thorough {
		L = 5
	}
	for n := 0; n <= L; n++ {
		total := pow64(len(c17Alpha), n)
		for k := int64(0); k < total; k++ {
			if !unit() {
				continue
			}
			if c.Expired() {
				c.Note(fmt.Sprintf("deadline hit in (a), strings of length %d", n))
				return
			}
			s := c17Unrank(c17Alpha, n, k)
			str := string(s)
			multi := len(str) > len(s)
			// unpadded, both streams
			cur = c17Case{Part: "readall", Stream: "file", Segs: c17Segs(c17T(str)), Where: "unpadded"}
			run("a_unpadded_readall", multi)
			cur = c17Case{Part: "readall", Stream: "byte", Segs: c17Segs(c17T(str)), Where: "unpadded"}
			run("a_unpadded_readall", multi)
			// padded: byte offset k of character i on block boundary B
			off := 0
			for i, r := range s {
				rl := utf8.RuneLen(r)
				if rl > 1 {
					for kk := 0; kk <= rl; kk++ {
						for _, B := range []int{4096, 8192} {
							pad := B - kk - off
							where := fmt.Sprintf("byte %d/%d of character %d (%U) on offset %d", kk, rl, i, r, B)
							cur = c17Case{Part: "readall", Stream: "file", Where: where + ", padding before the character",
								Segs: c17Segs(c17T(string(s[:i])), c17Pad(pad), c17T(string(s[i:])))}
							run("a_padded_readall", kk > 0 && kk < rl)
							if i > 0 {
								cur = c17Case{Part: "readall", Stream: "file", Where: where + ", padding at file start",
									Segs: c17Segs(c17Pad(pad), c17T(str))}
								run("a_padded_readall", kk > 0 && kk < rl)
							}
						}
					}
				}
				off += rl
			}
			// two characters straddling 4096 and 8192 at once
			if thorough || n <= 3 {
				oi := 0
				for i := 0; i < len(s); i++ {
					li := utf8.RuneLen(s[i])
					oj := oi + li
					for j := i + 1; j < len(s); j++ {
						lj := utf8.RuneLen(s[j])
						for ki := 1; ki < li; ki++ {
							for kj := 1; kj < lj; kj++ {
								p1 := 4096 - ki - oi
								p2 := 8192 - kj - (p1 + oj)
								cur = c17Case{Part: "readall", Stream: "file",
									Where: fmt.Sprintf("character %d split %d/%d at 4096 and character %d split %d/%d at 8192", i, ki, li, j, kj, lj),
									Segs:  c17Segs(c17T(string(s[:i])), c17Pad(p1), c17T(string(s[i:j])), c17Pad(p2), c17T(string(s[j:])))}
								run("a_double_straddle_readall", true)
							}
						}
						oj += lj
					}
					oi += li
				}
			}
			// through a named pipe in pieces, and as a file that is completed after the stream was made
			if n >= 1 && n <= 3 {
				for _, step := range []int{0, 1, 2, 3, 5} {
					cur = c17Case{Part: "readall", Stream: "fifo", N1: step, Segs: c17Segs(c17T(str))}
					run("a_fifo_readall", multi)
				}
				for k := 0; k < len(str); k++ {
					cur = c17Case{Part: "readall", Stream: "grow", N1: k, Segs: c17Segs(c17T(str))}
					run("a_growing_file_readall", true)
				}
			}
			// Read(n) loops
			for _, stream := range []string{"file", "byte"} {
				for n1 := 1; n1 <= 9; n1++ {
					cur = c17Case{Part: "readn", Stream: stream, N1: n1, N2: n1, Segs: c17Segs(c17T(str))}
					run("a_readn_"+stream, multi)
				}
				for n1 := 1; n1 <= 5; n1++ {
					for n2 := 1; n2 <= 5; n2++ {
						if n1 == n2 {
							continue
						}
						cur = c17Case{Part: "readn", Stream: stream, N1: n1, N2: n2, Segs: c17Segs(c17T(str))}
						run("a_readn_"+stream, multi)
					}
				}
			}
			if n == 3 && k == 115 {
				c.Sample(map[string]any{"part": "a", "string": strconv.QuoteToASCII(str), "expected": c17Show(c17Strip(s))})
			}
		}
		c.Bound(fmt.Sprintf("a_strings_len_%d_alphabet_%d", n, len(c17Alpha)), "complete")
	}

	// ---- (b) inserted byte strings
	host := []byte(c17SmallHost)
	iMid := strings.Index(c17SmallHost, "输出")
	iCJK := strings.Index(c17SmallHost, "你")
	smallPos := []struct {
		name string
		at   int
	}{{"start", 0}, {"middle", iMid}, {"after byte 1 of 你", iCJK + 1}, {"after byte 2 of 你", iCJK + 2}, {"end", len(host)}}
	insertSmall := func(ins []byte, pi int, streams ...string) {
		p := smallPos[pi]
		for _, st := range streams {
			cur = c17Case{Part: "readall", Stream: st, Where: "inserted at " + p.name + " of the small host",
				Segs: c17Segs(c17H(host[:p.at]), c17H(ins), c17H(host[p.at:]))}
			// keep host pieces readable when they are valid text
			if utf8.Valid(host[:p.at]) {
				cur.Segs[0] = c17T(string(host[:p.at]))
				cur.Segs[2] = c17T(string(host[p.at:]))
			}
			run("b_insert_small_host", len(ins) > 0)
		}
	}
	insertBig := func(ins []byte) {
		// every split of the inserted string across offset 4096 (j bytes before it)
		for j := 0; j <= len(ins); j++ {
			at := 4096 - j
			cur = c17Case{Part: "readall", Stream: "file", Where: fmt.Sprintf("inserted at offset %d of the large host (%d of its bytes before block boundary 4096)", at, j),
				Segs: c17Segs(c17R(c17HostUnit, 454), c17Pad(at-454*9), c17H(ins), c17R(c17HostUnit, 12))}
			run("b_insert_block_boundary", len(ins) > 0)
			if len(ins) == 0 {
				break
			}
		}
	}
	type blevel struct {
		alpha   []byte // nil = all 256
		n       int
		midOnly bool
	}
	levels := []blevel{{nil, 0, false}, {nil, 1, false}, {nil, 2, false}, {c17Struct, 3, false}}
	if thorough {
		levels = append(levels, blevel{c17Struct, 4, false}, blevel{nil, 3, true})
	}
	for _, lv := range levels {
		base := 256
		name := "256"
		if lv.alpha != nil {
			base = len(lv.alpha)
			name = "structural24"
		}
		total := pow64(base, lv.n)
		for k := int64(0); k < total; k++ {
			if !unit() {
				continue
			}
			if mine&0xFF == 0 && c.Expired() {
				c.Note(fmt.Sprintf("deadline hit in (b), strings of length %d over %s", lv.n, name))
				return
			}
			ins := c17UnrankBytes(lv.alpha, lv.n, k)
			if lv.midOnly {
				insertSmall(ins, 1, "file", "byte")
				continue
			}
			for pi := range smallPos {
				insertSmall(ins, pi, "file", "byte")
			}
			insertBig(ins)
			if lv.n == 2 && k == 0xBDE4 {
				c.Sample(map[string]any{"part": "b", "inserted_hex": hex.EncodeToString(ins), "host": c17SmallHost, "positions": "start, middle, inside 你 (2), end, and 3 splits across offset 4096"})
			}
		}
		suffix := ""
		if lv.midOnly {
			suffix = "_middle_only"
		}
		c.Bound(fmt.Sprintf("b_inserted_len_%d_over_%s%s", lv.n, name, suffix), "complete")
	}

	// ---- (b2) single-byte substitutions of the sample
	sample := []byte(c17SubstSample)
	for o := 0; o < len(sample); o++ {
		if !unit() {
			continue
		}
		if c.Expired() {
			c.Note("deadline hit in (b2)")
			return
		}
		for v := 0; v < 256; v++ {
			if byte(v) == sample[o] {
				continue
			}
			m := append([]byte{}, sample...)
			m[o] = byte(v)
			for _, st := range []string{"file", "byte"} {
				cur = c17Case{Part: "readall", Stream: st, Where: fmt.Sprintf("sample with byte %d replaced by %02X", o, v), Segs: c17Segs(c17H(m))}
				run("b_substitution", true)
			}
			for _, B := range []int{4095, 4096} {
				cur = c17Case{Part: "readall", Stream: "file", Where: fmt.Sprintf("sample with byte %d replaced by %02X, that byte at offset %d", o, v, B),
					Segs: c17Segs(c17Pad(B-o), c17H(m), c17R(c17HostUnit, 12))}
				run("b_substitution_block_boundary", true)
			}
		}
	}
	c.Bound("b_substitutions", fmt.Sprintf("complete: %d offsets x 255 values", len(sample)))

	// ---- (b3) GBK, decoding level
	for gi, g := range c17GBK {
		if !unit() {
			continue
		}
		for _, st := range []string{"file", "byte"} {
			cur = c17Case{Part: "readall", Stream: st, Where: "GBK encoding of " + g.name, Segs: c17Segs(c17H(g.b))}
			run("gbk_decode", true)
			cur = c17Case{Part: "readall", Stream: st, Where: "valid first line, then GBK encoding of " + g.name, Segs: c17Segs(c17T("令丙 = 5\n"), c17H(g.b))}
			run("gbk_decode", true)
		}
		if gi == 0 {
			c.Sample(map[string]any{"part": "gbk", "program": g.name, "gbk_hex": hex.EncodeToString(g.b)})
		}
	}

	// ---- (a2) blocks filled with characters of one width: a run of N k-byte characters with
	// N*k around one and two read blocks, behind 0..4 bytes of padding, followed by a statement
	for _, ch := range []string{"a", "é", "你", "😀"} {
		w := len(ch)
		for _, B := range []int{4096, 8192} {
			for dn := -3; dn <= 3; dn++ {
				for pad := 0; pad <= 4; pad++ {
					if !unit() {
						continue
					}
					n := B/w + dn
					for _, tail := range []string{"", "」\n输出2"} {
						head := ""
						part := "readall"
						if tail != "" {
							head, part = "注：「", "e2e"
						}
						for _, st := range []string{"file", "byte"} {
							if part == "e2e" && st == "byte" {
								continue
							}
							cur = c17Case{Part: part, Stream: st, Where: fmt.Sprintf("%d x %q behind %d bytes of padding (block %d)", n, ch, pad, B),
								Segs: c17Segs(c17T(head), c17Pad(pad), c17R(ch, n), c17T(tail))}
							if part == "e2e" && pad > 0 {
								cur.Segs = c17Segs(c17T(head), c17R(" ", pad), c17R(ch, n), c17T(tail))
							}
							run("a2_homogeneous_blocks", w > 1)
						}
					}
				}
			}
		}
	}

	// ---- (a3) a file that ends in an incomplete character which is alone in its read block:
	// k full blocks of ASCII (or of 3-byte characters), then the head of a character
	for _, k := range []int{1, 2, 3} {
		for _, tail := range [][]byte{{0xE4}, {0xE4, 0xB9}, {0xF0}, {0xF0, 0x9F}, {0xF0, 0x9F, 0x98}, {0xC3}} {
			for _, fill := range []string{"a", "\n", "你"} {
				if !unit() {
					continue
				}
				n := 4096 * k / len(fill)
				rest := 4096*k - n*len(fill)
				for _, st := range []string{"file", "byte"} {
					cur = c17Case{Part: "readall", Stream: st, Where: fmt.Sprintf("%d full blocks of %q, then the incomplete sequence % X", k, fill, tail),
						Segs: c17Segs(c17R(fill, n), c17Pad(rest), c17H(tail))}
					run("a3_incomplete_tail_alone_in_its_block", true)
				}
				cur = c17Case{Part: "e2e", Stream: "file", Where: fmt.Sprintf("program, %d full blocks, then the incomplete sequence % X", k, tail),
					Segs: c17Segs(c17T("输出2 // "), c17R("a", 4096*k-len("输出2 // ")), c17H(tail))}
				run("a3_incomplete_tail_alone_in_its_block", true)
			}
		}
	}

	// ---- (c) end to end
	var e2eIns [][]byte
	for v := 0; v < 256; v++ {
		e2eIns = append(e2eIns, []byte{byte(v)})
	}
	for _, a := range c17Struct {
		for _, b := range c17Struct {
			e2eIns = append(e2eIns, []byte{a, b})
		}
	}
	for _, s := range []string{"\uFFFD", "\uFEFF", "é", "😀", "//\uFFFD\n", "\uFEFF\uFEFF"} {
		e2eIns = append(e2eIns, []byte(s))
	}
	if thorough {
		for k := int64(0); k < pow64(len(c17Struct), 3); k++ {
			e2eIns = append(e2eIns, c17UnrankBytes(c17Struct, 3, k))
		}
	}
	for pi, prog := range c17Programs {
		pb := []byte(prog)
		// the uncorrupted program must run (sanity of the sample itself)
		if o := zn.RunReal(prog, nil); o.Err != nil || o.Panic != "" {
			c.Inexhaustive(fmt.Sprintf("sample program %d does not run: %s", pi, c17OutStr(o)))
			continue
		}
		for at := 0; at <= len(pb); at++ {
			if !unit() {
				continue
			}
			if c.Expired() {
				c.Note("deadline hit in (c)")
				return
			}
			seg := func(b []byte) c17Seg {
				if utf8.Valid(b) {
					return c17T(string(b))
				}
				return c17H(b)
			}
			for _, ins := range e2eIns {
				cur = c17Case{Part: "e2e", Stream: "file", Where: fmt.Sprintf("program %d, inserted at byte %d", pi, at),
					Segs: c17Segs(seg(pb[:at]), c17H(ins), seg(pb[at:]))}
				run("c_e2e_insert", true)
			}
			if at < len(pb) {
				for v := 0; v < 256; v++ {
					if byte(v) == pb[at] {
						continue
					}
					m := append([]byte{}, pb...)
					m[at] = byte(v)
					cur = c17Case{Part: "e2e", Stream: "file", Where: fmt.Sprintf("program %d, byte %d replaced by %02X", pi, at, v), Segs: c17Segs(seg(m))}
					run("c_e2e_substitute", true)
				}
			}
			if pi == 0 && at == 9 {
				c.Sample(map[string]any{"part": "c", "program": prog, "inserted_at_byte": at, "insertions": len(e2eIns)})
			}
		}
	}
	c.Bound("c_e2e", fmt.Sprintf("complete: %d programs x every byte offset x %d insertions + 255 substitutions", len(c17Programs), len(e2eIns)))
	// a corruption in the second read block: line 1, a 4100-byte comment line,
	// the inserted bytes, the last line
	farHead, farTail := "令甲 = 1\n//", "\n输出甲 + 1"
	if o := zn.RunReal(farHead+strings.Repeat("x", 4100)+farTail, nil); o.Err != nil || o.Panic != "" {
		c.Inexhaustive("the long sample program does not run: " + c17OutStr(o))
	} else {
		for _, ins := range e2eIns {
			if len(ins) > 1 && !utf8.Valid(ins) {
				continue // single bytes and the valid multi-byte insertions only
			}
			if !unit() {
				continue
			}
			if mine&0xFF == 0 && c.Expired() {
				c.Note("deadline hit in (c), long program")
				return
			}
			cur = c17Case{Part: "e2e", Stream: "file", Where: "long program, inserted after the 4100-byte comment line (second read block)",
				Segs: c17Segs(c17T(farHead), c17Pad(4100), c17T("\n"), c17H(ins), c17T("输出甲 + 1"))}
			run("c_e2e_second_block", true)
		}
		c.Bound("c_e2e_second_block", "complete: every single byte and the valid multi-byte insertions")
	}
	// ---- (f) big sources: a program whose comment line makes the file T bytes long, for T around
	// 64 KiB, 256 KiB, 1 MiB (every T within 8 bytes of it), 2 MiB and 4 MiB: run like the decoded text
	bigHead, bigTail := "令甲 = 1\n注：", "\n甲 = 2\n输出甲"
	var bigT []int
	for d := -8; d <= 8; d++ {
		bigT = append(bigT, 1<<20+d)
	}
	bigT = append(bigT, 1<<16+1, 1<<18+1, 2<<20+1, 4<<20+5)
	for _, T := range bigT {
		if !unit() {
			continue
		}
		fill := T - len(bigHead) - len(bigTail)
		cur = c17Case{Part: "e2e", Stream: "file", Where: fmt.Sprintf("program with a comment line that makes the file %d bytes long", T),
			Segs: c17Segs(c17T(bigHead), c17Pad(fill%3), c17R("说", fill/3), c17T(bigTail))}
		run("f_big_source_e2e", true)
	}
	c.Bound("f_big_sources", fmt.Sprintf("%d sizes up to 4 MiB", len(bigT)))
	for _, g := range c17GBK {
		if !unit() {
			continue
		}
		cur = c17Case{Part: "e2e", Stream: "file", Where: "GBK encoding of " + g.name, Segs: c17Segs(c17H(g.b))}
		run("gbk_e2e", true)
		cur = c17Case{Part: "e2e", Stream: "file", Where: "valid first line, then GBK encoding of " + g.name, Segs: c17Segs(c17T("输出5\n"), c17H(g.b))}
		run("gbk_e2e", true)
		cur = c17Case{Part: "e2e", Stream: "file", Where: "valid first lines, then GBK encoding of " + g.name, Segs: c17Segs(c17T("（显示：“头”）\n令丙 = 5\n"), c17H(g.b))}
		run("gbk_e2e", true)
	}
	c.Bound("gbk_programs", len(c17GBK))
}
