package checks

// C06 — names obey block scoping; constants and inputs cannot be reassigned.
//
// E2: explicit-state BFS over operation histories on the real symbol table
// (runtime.VM, one module, one frame): every state is rebuilt by replaying its
// shortest history on a fresh VM, compared with a stack-of-maps model.
// E1: every statement tree <= k nodes over declare / constant / assign / probe
// actions on three names inside nested blocks (branch, loops, method calls,
// handled exceptions, recursion), real interpreter vs reference interpreter.

import (
	"encoding/json"
	"fmt"
	"sort"
	"strings"
	"time"

	zerr "github.com/DemoHn/Zn/pkg/error"
	r "github.com/DemoHn/Zn/pkg/runtime"
	"github.com/DemoHn/Zn/pkg/value"

	"verif/engine/mc"
	"verif/engine/zn"
)

// ---------------------------------------------------------------- E2

type c06Op struct {
	Kind string `json:"op"` // begin end decl declc set
	Name string `json:"name,omitempty"`
}

var c06Names = []string{"甲", "乙"}

func c06Alphabet() []c06Op {
	ops := []c06Op{{Kind: "begin"}, {Kind: "end"}}
	for _, n := range c06Names {
		ops = append(ops, c06Op{"decl", n}, c06Op{"declc", n}, c06Op{"set", n})
	}
	ops = append(ops, c06Op{"decl", "真"}, c06Op{"declc", "显示"}, c06Op{"set", "真"})
	return ops
}

type c06Sym struct {
	val   int
	konst bool
}

// model: stack of blocks
type c06Model struct {
	blocks []map[string]c06Sym
}

func (m *c06Model) clone() *c06Model {
	out := &c06Model{}
	for _, b := range m.blocks {
		nb := map[string]c06Sym{}
		for k, v := range b {
			nb[k] = v
		}
		out.blocks = append(out.blocks, nb)
	}
	return out
}

func (m *c06Model) key() string {
	var sb strings.Builder
	for _, b := range m.blocks {
		sb.WriteByte('[')
		ks := make([]string, 0, len(b))
		for k := range b {
			ks = append(ks, k)
		}
		sort.Strings(ks)
		for _, k := range ks {
			fmt.Fprintf(&sb, "%s:%d:%v,", k, b[k].val, b[k].konst)
		}
		sb.WriteByte(']')
	}
	return sb.String()
}

func (m *c06Model) lookup(n string) (c06Sym, bool) {
	for i := len(m.blocks) - 1; i >= 0; i-- {
		if s, ok := m.blocks[i][n]; ok {
			return s, true
		}
	}
	return c06Sym{}, false
}

// apply returns the expected error code (0 = ok; -1 = any error) and mutates the model.
func (m *c06Model) apply(op c06Op) int {
	predef := op.Name == "真" || op.Name == "显示"
	top := m.blocks[len(m.blocks)-1]
	v := len(m.blocks)*10 + 1
	switch op.Kind {
	case "begin":
		m.blocks = append(m.blocks, map[string]c06Sym{})
	case "end":
		m.blocks = m.blocks[:len(m.blocks)-1]
	case "decl", "declc":
		if predef {
			return zn.ERedeclared
		}
		if _, dup := top[op.Name]; dup {
			return zn.ERedeclared
		}
		if op.Kind == "declc" {
			v++
		}
		top[op.Name] = c06Sym{val: v, konst: op.Kind == "declc"}
	case "set":
		if predef {
			return -1
		}
		for i := len(m.blocks) - 1; i >= 0; i-- {
			if s, ok := m.blocks[i][op.Name]; ok {
				if s.konst {
					return zn.EConst
				}
				m.blocks[i][op.Name] = c06Sym{val: v + 2}
				return 0
			}
		}
		return zn.EUndefined
	}
	return 0
}

func (m *c06Model) enabled(op c06Op, maxDepth int) bool {
	switch op.Kind {
	case "begin":
		return len(m.blocks) < maxDepth
	case "end":
		return len(m.blocks) > 1
	}
	return true
}

func c06Code(err error) int {
	if err == nil {
		return 0
	}
	if re, ok := err.(*zerr.RuntimeError); ok {
		return re.Code
	}
	return -2
}

// c06Replay runs a history on a fresh real VM; returns per-step codes and the
// final observation.
func c06RealRun(hist []c06Op) (codes []int, obs string, pan string) {
	defer func() {
		if p := recover(); p != nil {
			pan = fmt.Sprint(p)
		}
	}()
	vm := r.InitVM(map[string]r.Element{"真": value.NewBool(true), "显示": value.NewNull()})
	mod := vm.AllocateModule("主模块", nil)
	vm.PushCallFrame(r.NewScriptCallFrame(mod))
	depth := 1
	var stepObs strings.Builder
	for _, op := range hist {
		v := depth*10 + 1
		var err error
		switch op.Kind {
		case "begin":
			vm.BeginScope()
			depth++
		case "end":
			vm.EndScope()
			depth--
		case "decl":
			err = vm.DeclareElement(r.NewIDName(op.Name), value.NewNumber(float64(v)))
		case "declc":
			err = vm.DeclareConstElement(r.NewIDName(op.Name), value.NewNumber(float64(v+1)))
		case "set":
			err = vm.SetElement(r.NewIDName(op.Name), value.NewNumber(float64(v+2)))
		}
		codes = append(codes, c06Code(err))
		// look both names up after EVERY step (not only at the end): a lookup cache
		// that a later declaration or block end fails to invalidate needs the
		// sequence lookup - change - lookup inside one run
		for _, n := range c06Names {
			e, lerr := vm.FindElement(r.NewIDName(n))
			if lerr != nil {
				fmt.Fprintf(&stepObs, "%s=E%d;", n, c06Code(lerr))
			} else {
				fmt.Fprintf(&stepObs, "%s=%s;", n, e.String())
			}
		}
		stepObs.WriteByte('|')
	}
	var sb strings.Builder
	sb.WriteString(stepObs.String())
	for _, n := range c06Names {
		e, err := vm.FindElement(r.NewIDName(n))
		if err != nil {
			fmt.Fprintf(&sb, "%s=E%d;", n, c06Code(err))
		} else {
			fmt.Fprintf(&sb, "%s=%s;", n, e.String())
		}
	}
	st := vm.VerifScopeStats()
	if len(st) == 1 {
		fmt.Fprintf(&sb, "depth=%d;live=%d", st[0].Depth+1, st[0].Live)
	} else {
		fmt.Fprintf(&sb, "modules=%d", len(st))
	}
	return codes, sb.String(), ""
}

func (m *c06Model) obs() string {
	var sb strings.Builder
	for _, n := range c06Names {
		if s, ok := m.lookup(n); ok {
			fmt.Fprintf(&sb, "%s=%d;", n, s.val)
		} else {
			fmt.Fprintf(&sb, "%s=E%d;", n, zn.EUndefined)
		}
	}
	live := 0
	for _, b := range m.blocks {
		live += len(b)
	}
	fmt.Fprintf(&sb, "depth=%d;live=%d", len(m.blocks), live)
	return sb.String()
}

type c06Case struct {
	Part    string  `json:"part"`
	History []c06Op `json:"history,omitempty"`
	M       int     `json:"nodes,omitempty"`
	Idx     int64   `json:"index,omitempty"`
	Source  string  `json:"source,omitempty"`
}

func c06CheckHistory(hist []c06Op) *mc.Failure {
	m := &c06Model{blocks: []map[string]c06Sym{{}}}
	var want []int
	var stepObs strings.Builder
	for _, op := range hist {
		want = append(want, m.apply(op))
		for _, n := range c06Names {
			if sy, ok := m.lookup(n); ok {
				fmt.Fprintf(&stepObs, "%s=%d;", n, sy.val)
			} else {
				fmt.Fprintf(&stepObs, "%s=E%d;", n, zn.EUndefined)
			}
		}
		stepObs.WriteByte('|')
	}
	codes, obs, pan := c06RealRun(hist)
	cs := func() json.RawMessage { return mc.J(c06Case{Part: "symtab", History: hist}) }
	if pan != "" {
		return &mc.Failure{Kind: "panic", Bucket: "symtab-panic", Case: cs(), Observed: pan}
	}
	for i := range want {
		ok := codes[i] == want[i] || (want[i] == -1 && codes[i] != 0)
		if !ok {
			return &mc.Failure{Kind: "mismatch", Bucket: fmt.Sprintf("symtab-step-%s", hist[i].Kind), Case: cs(),
				Expected: fmt.Sprintf("step %d (%v) -> code %d", i, hist[i], want[i]), Observed: fmt.Sprintf("code %d", codes[i])}
		}
	}
	if exp := stepObs.String() + m.obs(); obs != exp {
		return &mc.Failure{Kind: "mismatch", Bucket: "symtab-observation", Case: cs(), Expected: exp, Observed: obs}
	}
	return nil
}

// c06BFS explores histories breadth first, deduplicating on the model state
// (the observation battery — both lookups, depth, live count — is checked in
// every state before merging).
func c06BFS(c *mc.Ctx, maxLen, maxDepth int) {
	type node struct {
		hist []c06Op
		m    *c06Model
	}
	alpha := c06Alphabet()
	start := &c06Model{blocks: []map[string]c06Sym{{}}}
	seen := map[string]bool{start.key(): true}
	frontier := []node{{nil, start}}
	states, trans := int64(1), int64(0)
	idx := int64(0)
	for depth := 0; depth < maxLen && len(frontier) > 0; depth++ {
		var next []node
		for _, nd := range frontier {
			for _, op := range alpha {
				if !nd.m.enabled(op, maxDepth) {
					continue
				}
				idx++
				h := append(append([]c06Op{}, nd.hist...), op)
				c.Case(idx, func() json.RawMessage { return mc.J(c06Case{Part: "symtab", History: h}) })
				trans++
				if f := c06CheckHistory(h); f != nil {
					c.Fail(*f)
					continue
				}
				nm := nd.m.clone()
				nm.apply(op)
				k := nm.key()
				if !seen[k] {
					seen[k] = true
					states++
					next = append(next, node{h, nm})
					if c.WantSample() && states%5000 == 77 {
						c.Sample(map[string]any{"history": h, "state": k})
					}
				}
			}
			if c.Expired() {
				c.Note(fmt.Sprintf("deadline hit in symbol-table BFS at history length %d", depth+1))
				break
			}
		}
		frontier = next
		c.Bound("symtab_history_length", depth+1)
	}
	c.Stat("states", states)
	c.Stat("transitions", trans)
	c.Stat("traces_validated_against_impl", trans)
	c.EvalN(trans, trans)
}

// ---------------------------------------------------------------- E1

// leaves: actions on names
type c06Leaf struct {
	kind string // D K A P DT AT DS Y AF
	name string
}

var c06LeafList = func() []c06Leaf {
	var l []c06Leaf
	for _, n := range []string{"甲", "乙"} {
		l = append(l, c06Leaf{"D", n}, c06Leaf{"K", n}, c06Leaf{"A", n}, c06Leaf{"P", n})
	}
	l = append(l, c06Leaf{"DS", "甲"}) // 令甲 = 甲 + 1: reads the outer name, then shadows it
	l = append(l, c06Leaf{"NF", ""})  // 以1（无此法）: a fault raised inside a built-in (native) call frame
	l = append(l, c06Leaf{"A", "参"}, c06Leaf{"P", "参"})
	l = append(l, c06Leaf{"D", "真"}, c06Leaf{"A", "真"}, c06Leaf{"D", "显示"})
	l = append(l, c06Leaf{"Y", "甲"})  // （取：n）得到甲
	l = append(l, c06Leaf{"YM", "乙"}) // 以n（加：1）得到乙
	l = append(l, c06Leaf{"A", "取"})  // assign to a method name
	l = append(l, c06Leaf{"A", "型"})  // assign to a type name
	// a definition written inside a block: a method named like a variable, a type named like one.
	// Directly in a program / method body it is declared (read-only) before the body's statements
	// run; inside a branch or loop block it declares nothing, in that block or any other
	l = append(l, c06Leaf{"F", "乙"}, c06Leaf{"T", "甲"})
	return l
}()

const c06NComp = 7 // If While Iter Call Handled Recursive IfYield

type c06Node struct {
	leaf int // >= 0: leaf index
	comp int
	body []*c06Node
}

var c06SC = map[[2]int]int64{}
var c06BC = map[[2]int]int64{}

func c06CountS(m, d int) int64 {
	k := [2]int{m, d}
	if v, ok := c06SC[k]; ok {
		return v
	}
	var n int64
	if m == 1 {
		n = int64(len(c06LeafList))
	} else if d > 0 {
		n = c06NComp * c06CountB(m-1, d-1)
	}
	c06SC[k] = n
	return n
}

func c06CountB(m, d int) int64 {
	if m == 0 {
		return 0
	}
	k := [2]int{m, d}
	if v, ok := c06BC[k]; ok {
		return v
	}
	n := c06CountS(m, d)
	for s := 1; s < m; s++ {
		n += c06CountS(s, d) * c06CountB(m-s, d)
	}
	c06BC[k] = n
	return n
}

func c06UnrankB(m, d int, idx int64) []*c06Node {
	n := c06CountS(m, d)
	if idx < n {
		return []*c06Node{c06UnrankS(m, d, idx)}
	}
	idx -= n
	for s := 1; s < m; s++ {
		a, b := c06CountS(s, d), c06CountB(m-s, d)
		if idx < a*b {
			return append([]*c06Node{c06UnrankS(s, d, idx%a)}, c06UnrankB(m-s, d, idx/a)...)
		}
		idx -= a * b
	}
	panic("c06 unrank")
}

func c06UnrankS(m, d int, idx int64) *c06Node {
	if m == 1 {
		return &c06Node{leaf: int(idx)}
	}
	return &c06Node{leaf: -1, comp: int(idx % c06NComp), body: c06UnrankB(m-1, d-1, idx/c06NComp)}
}

type c06Builder struct {
	next  int
	funcs []zn.Stmt
}

func (b *c06Builder) id() int { b.next++; return b.next }
func (b *c06Builder) num() zn.Expr {
	return zn.Num{Lit: fmt.Sprint(b.id())}
}
func c06Show(args ...zn.Expr) zn.Stmt { return zn.ExprStmt{E: zn.Call{Name: "显示", Args: args}} }

func (b *c06Builder) body(nodes []*c06Node) []zn.Stmt {
	var out []zn.Stmt
	for _, n := range nodes {
		out = append(out, b.stmt(n)...)
	}
	return out
}

func (b *c06Builder) stmt(n *c06Node) []zn.Stmt {
	if n.leaf >= 0 {
		l := c06LeafList[n.leaf]
		switch l.kind {
		case "D":
			return []zn.Stmt{zn.Decl{Pairs: []zn.DeclPair{{Names: []string{l.name}, Val: b.num()}}}}
		case "NF":
			return []zn.Stmt{zn.ExprStmt{E: zn.MCall{Root: zn.Num{Lit: "1"}, Chain: []zn.Call{{Name: "无此法"}}}}}
		case "DS":
			return []zn.Stmt{zn.Decl{Pairs: []zn.DeclPair{{Names: []string{l.name}, Val: zn.Bin{Op: "+", L: zn.Var{Name: l.name}, R: zn.Num{Lit: "1"}}}}}}
		case "K":
			return []zn.Stmt{zn.Decl{Pairs: []zn.DeclPair{{Names: []string{l.name}, Const: true, Val: b.num()}}}}
		case "A":
			return []zn.Stmt{zn.ExprStmt{E: zn.Assign{Target: zn.Var{Name: l.name}, Val: b.num()}}}
		case "P":
			return []zn.Stmt{c06Show(zn.Str{Val: l.name}, zn.Var{Name: l.name})}
		case "Y":
			return []zn.Stmt{zn.ExprStmt{E: zn.Call{Name: "取", Args: []zn.Expr{b.num()}, Yield: l.name}}}
		case "F":
			return []zn.Stmt{zn.Func{Name: l.name, Body: []zn.Stmt{zn.Return{Val: zn.Num{Lit: "1"}}}}}
		case "T":
			return []zn.Stmt{zn.Class{Name: l.name, Props: []zn.Prop{{Name: "P", Val: zn.Num{Lit: "1"}}}}}
		case "YM":
			return []zn.Stmt{zn.ExprStmt{E: zn.MCall{Root: b.num(), Chain: []zn.Call{{Name: "加", Args: []zn.Expr{zn.Num{Lit: "0"}}}}, Yield: l.name}}}
		}
		panic("c06 leaf")
	}
	inner := b.body(n.body)
	id := b.id()
	switch n.comp {
	case 0:
		return []zn.Stmt{zn.If{Cond: zn.Var{Name: "真"}, Then: inner}}
	case 6:
		// the condition binds a name with 得到: the name belongs to the block that CONTAINS
		// the 如果 (the condition is evaluated there), not to the branch body
		return []zn.Stmt{zn.If{Cond: zn.Bin{Op: ">", L: zn.Call{Name: "取", Args: []zn.Expr{b.num()}, Yield: "甲"}, R: zn.Num{Lit: "0"}}, Then: inner}}
	case 1:
		cn := fmt.Sprintf("W%d", id)
		body := append([]zn.Stmt{zn.ExprStmt{E: zn.Assign{Target: zn.Var{Name: cn}, Val: zn.Bin{Op: "+", L: zn.Var{Name: cn}, R: zn.Num{Lit: "1"}}}}}, inner...)
		return []zn.Stmt{
			zn.Decl{Pairs: []zn.DeclPair{{Names: []string{cn}, Val: zn.Num{Lit: "0"}}}},
			zn.While{Cond: zn.Bin{Op: "<", L: zn.Var{Name: cn}, R: zn.Num{Lit: "1"}}, Body: body},
		}
	case 2:
		return []zn.Stmt{zn.Iter{Vars: []string{fmt.Sprintf("V%d", id)}, Target: zn.List{Items: []zn.Expr{zn.Num{Lit: "0"}}}, Body: inner}}
	case 3: // method call: body runs inside a method with parameter 参
		name := fmt.Sprintf("M%d", id)
		b.funcs = append(b.funcs, zn.Func{Name: name, Params: []string{"参"}, Body: append(inner, zn.Return{Val: zn.Num{Lit: "0"}})})
		return []zn.Stmt{zn.ExprStmt{E: zn.Call{Name: name, Args: []zn.Expr{b.num()}}}}
	case 4: // handled exception: body, then a raise caught by the method's own handler
		name := fmt.Sprintf("H%d", id)
		fb := append(append([]zn.Stmt{}, inner...), zn.Throw{Class: "异常", Args: []zn.Expr{zn.Str{Val: "x"}}}, c06Show(zn.Str{Val: "unreachable"}))
		b.funcs = append(b.funcs, zn.Func{Name: name, Params: []string{"参"}, Body: fb,
			Catches: []zn.Catch{{Class: "异常", Body: []zn.Stmt{c06Show(zn.Str{Val: "handled"}), zn.Return{Val: zn.Num{Lit: "0"}}}}}})
		return []zn.Stmt{zn.ExprStmt{E: zn.Call{Name: name, Args: []zn.Expr{b.num()}}}}
	default: // recursion to depth 3
		name := fmt.Sprintf("R%d", id)
		fb := []zn.Stmt{zn.If{Cond: zn.Bin{Op: ">", L: zn.Var{Name: "参"}, R: zn.Num{Lit: "0"}},
			Then: []zn.Stmt{zn.ExprStmt{E: zn.Call{Name: name, Args: []zn.Expr{zn.Bin{Op: "-", L: zn.Var{Name: "参"}, R: zn.Num{Lit: "1"}}}}}}}}
		fb = append(fb, inner...)
		fb = append(fb, zn.Return{Val: zn.Num{Lit: "0"}})
		b.funcs = append(b.funcs, zn.Func{Name: name, Params: []string{"参"}, Body: fb})
		return []zn.Stmt{zn.ExprStmt{E: zn.Call{Name: name, Args: []zn.Expr{zn.Num{Lit: "2"}}}}}
	}
}

const c06Depth = 3

func c06Make(m int, idx int64) *zn.Program {
	sk := c06UnrankB(m, c06Depth, idx)
	b := &c06Builder{}
	body := b.body(sk)
	pre := []zn.Stmt{
		zn.Func{Name: "取", Params: []string{"值"}, Body: []zn.Stmt{zn.Return{Val: zn.Var{Name: "值"}}}},
		zn.Class{Name: "型", Props: []zn.Prop{{Name: "P", Val: zn.Num{Lit: "1"}}}},
	}
	all := append(pre, b.funcs...)
	all = append(all, body...)
	// final probes: every name, then a marker
	for _, n := range []string{"甲", "乙"} {
		_ = n
	}
	all = append(all, c06Show(zn.Str{Val: "end"}))
	return &zn.Program{Inputs: []string{"参"}, Body: all}
}

var c06Inputs = map[string]zn.V{"参": float64(7)}
var c06RealInputs = r.ElementMap{"参": value.NewNumber(7)}

func c06CheckProgram(m int, idx int64) (f *mc.Failure, open bool) {
	prog := c06Make(m, idx)
	src := zn.Render(prog, nil)
	cs := func() json.RawMessage { return mc.J(c06Case{Part: "program", M: m, Idx: idx, Source: src}) }
	rf := zn.NewRef()
	_, werr, aborted := rf.RunProgram(prog, c06Inputs)
	if aborted {
		return &mc.Failure{Kind: "crash", Case: cs(), Observed: "reference step limit"}, false
	}
	if rf.Open {
		return nil, true
	}
	got, vm := zn.RunRealVM(src, r.ElementMap{"参": value.NewNumber(7)})
	fail := func(bucket, exp, obs string) *mc.Failure {
		fl := &mc.Failure{Kind: "mismatch", Bucket: bucket, Case: cs(), Expected: exp, Observed: obs}
		fl.Sig = c06Sig(prog, src, werr, &got, rf)
		return fl
	}
	if got.Panic != "" {
		return &mc.Failure{Kind: "panic", Bucket: "panic", Case: cs(), Observed: got.Panic, Detail: got.Stack}, false
	}
	wt, gt := strings.Join(rf.Trace, " | "), strings.Join(got.Trace, " | ")
	if werr != nil {
		if got.Err == nil {
			return fail(fmt.Sprintf("accepted-%d", werr.Code), fmt.Sprintf("error %d (%s) after trace %s", werr.Code, werr.Note, wt), "completed with trace "+gt), false
		}
		if wt != gt {
			return fail("trace-before-error", "trace "+wt, "trace "+gt), false
		}
		if !werr.Crossed && !werr.AnyCode && got.Err.Kind == "runtime" && got.Err.Code != werr.Code {
			return fail(fmt.Sprintf("code-%d-vs-%d", werr.Code, got.Err.Code), fmt.Sprintf("error code %d", werr.Code), fmt.Sprintf("error code %d", got.Err.Code)), false
		}
		return nil, false
	}
	if got.Err != nil {
		return fail(fmt.Sprintf("rejected-%s-%d", got.Err.Kind, got.Err.Code), "completes with trace "+wt, fmt.Sprintf("%s error %d %s after trace %s", got.Err.Kind, got.Err.Code, got.Err.Msg, gt)), false
	}
	if wt != gt {
		return fail("trace", "trace "+wt, "trace "+gt), false
	}
	// after a completed run every block has ended: depth and symbols of the module are back
	if vm != nil {
		for _, st := range vm.VerifScopeStats() {
			if st.Depth != 0 {
				return fail("scope-depth", "all blocks ended (depth 0)", fmt.Sprintf("module %d depth %d live %d", st.ModuleID, st.Depth, st.Live)), false
			}
		}
		if d := vm.VerifCallDepth(); d != 0 {
			return fail("call-depth", "call stack empty after the run", fmt.Sprintf("%d frames left", d)), false
		}
	}
	return nil, false
}

// ---------------------------------------------------------------- many names

// c06Words: everyday two-character words; a name is three of them (six characters, all names of
// one byte length).
var c06Words = strings.Fields("服务 订单 预算 背景 课程 累计 客户 年龄 总数 鼠标 计数 用户 页数 金额 学生 列数 利润 班级 实际 重试 " +
	"数量 商品 价格 库存 仓库 地址 电话 邮箱 名称 编号 日期 时间 状态 类型 等级 分数 成绩 科目 教师 教室 " +
	"部门 员工 工资 奖金 税率 折扣 运费 重量 长度 宽度 高度 面积 体积 速度 温度 湿度 压力 电压 电流 功率 " +
	"频率 周期 颜色 字体 大小 位置 方向 角度 半径 坐标 文件 目录 路径 权限 密码 令牌 会话 缓存 队列 任务 " +
	"线程 进程 端口 协议 域名 请求 响应 标题 正文 摘要 标签 分类 评论 点赞 收藏 关注 粉丝 消息 通知 公告")

func c06Name(i int) string {
	w := len(c06Words)
	return c06Words[i%w] + c06Words[(i/w)%w] + c06Words[(i/w/w)%w]
}

// c06ManyNames: N distinct names alive at once are N distinct symbols.  The first half is declared
// in the outer block, the second half in an inner block; every name must read back its own value,
// assignments to the inner names must leave every outer name alone, and after the inner block has
// ended the inner names are gone and the outer ones unchanged.  (All pairs among N names at once:
// what a symbol table keyed by a fingerprint of the name gets wrong.)
func c06ManyNames(n, off int, beat func()) (f *mc.Failure) {
	cs := mc.J(c06Case{Part: "many", M: n, Idx: int64(off)})
	fail := func(bucket, exp, obs string) *mc.Failure {
		return &mc.Failure{Kind: "mismatch", Bucket: "many-names:" + bucket, Case: cs, Expected: exp, Observed: obs}
	}
	defer func() {
		if p := recover(); p != nil {
			f = &mc.Failure{Kind: "panic", Bucket: "many-names", Case: cs, Observed: fmt.Sprint(p)}
		}
	}()
	vm := r.InitVM(map[string]r.Element{})
	mod := vm.AllocateModule("主模块", nil)
	vm.PushCallFrame(r.NewScriptCallFrame(mod))
	names := make([]*r.IDName, n)
	for i := range names {
		names[i] = r.NewIDName(c06Name(off + i))
	}
	cn := func(i int) string { return fmt.Sprintf("%s (name %d)", c06Name(off+i), off+i) }
	read := func(i int) (float64, error) {
		e, err := vm.FindElement(names[i])
		if err != nil {
			return 0, err
		}
		num, ok := e.(*value.Number)
		if !ok {
			return 0, fmt.Errorf("holds %s", e.String())
		}
		return num.GetValue(), nil
	}
	half := n / 2
	for i := 0; i < half; i++ {
		if i%1000 == 0 {
			beat()
		}
		if _, err := read(i); err == nil {
			return fail("visible-before-declaration", cn(i)+" is undefined before its declaration", "it can be read")
		}
		if err := vm.DeclareElement(names[i], value.NewNumber(float64(i))); err != nil {
			return fail("declare", "令"+cn(i)+", never declared before, is accepted", err.Error())
		}
	}
	vm.BeginScope()
	for i := half; i < n; i++ {
		if i%1000 == 0 {
			beat()
		}
		if _, err := read(i); err == nil {
			return fail("visible-before-declaration", cn(i)+" is undefined before its declaration", "it can be read")
		}
		var err error
		if i%2 == 0 {
			err = vm.DeclareElement(names[i], value.NewNumber(float64(i)))
		} else {
			err = vm.DeclareConstElement(names[i], value.NewNumber(float64(i)))
		}
		if err != nil {
			return fail("declare", "令"+cn(i)+", never declared before, is accepted in the inner block", err.Error())
		}
	}
	for i := 0; i < n; i++ {
		if i%1000 == 0 {
			beat()
		}
		if v, err := read(i); err != nil || v != float64(i) {
			return fail("read-back", fmt.Sprintf("%s holds %d", cn(i), i), fmt.Sprintf("%v %v", v, err))
		}
	}
	for i := half; i < n; i += 2 {
		if i%1000 == 0 {
			beat()
		}
		if err := vm.SetElement(names[i], value.NewNumber(float64(-i))); err != nil {
			return fail("assign", cn(i)+", a variable, can be assigned", err.Error())
		}
	}
	for i := 0; i < half; i++ {
		if i%1000 == 0 {
			beat()
		}
		if err := vm.SetElement(names[i], value.NewNumber(float64(i)+0.5)); err != nil {
			return fail("assign", cn(i)+", an outer variable, can be assigned from the inner block", err.Error())
		}
	}
	vm.EndScope()
	for i := 0; i < half; i++ {
		if i%1000 == 0 {
			beat()
		}
		if v, err := read(i); err != nil || v != float64(i)+0.5 {
			return fail("outer-after-block", fmt.Sprintf("%s holds %v", cn(i), float64(i)+0.5), fmt.Sprintf("%v %v", v, err))
		}
	}
	for i := half; i < n; i++ {
		if v, err := read(i); err == nil {
			return fail("inner-after-block", cn(i)+" is gone once its block has ended", fmt.Sprintf("it reads %v", v))
		}
	}
	return nil
}

// ---------------------------------------------------------------- depth family

// c06DeepCount: for every depth 1..D, 2 symbol-table histories and 4 programs.
const c06DeepKinds = 6

// c06Deep checks one member of the depth family: blocks / calls nested d deep,
// a name declared at the bottom, everything ended again.
func c06Deep(d, kind int) *mc.Failure {
	switch kind {
	case 0, 1:
		var hist []c06Op
		if kind == 1 {
			hist = append(hist, c06Op{"decl", "甲"})
		}
		for i := 0; i < d; i++ {
			hist = append(hist, c06Op{Kind: "begin"})
		}
		hist = append(hist, c06Op{"decl", "甲"}, c06Op{"declc", "乙"})
		for i := 0; i < d; i++ {
			hist = append(hist, c06Op{Kind: "end"})
		}
		hist = append(hist, c06Op{"set", "甲"})
		f := c06CheckHistory(hist)
		if f != nil {
			f.Case = mc.J(c06Case{Part: "deep", M: d, Idx: int64(kind)})
			f.Bucket = "deep-symtab"
		}
		return f
	}
	// programs: recursion d deep whose input is named like a caller variable
	call := "（深：层 - 1）"
	body := "    如果层 > 0：\n        " + call + "\n    输出层"
	switch kind {
	case 3: // the recursive call is an operand: the caller's block is still open around it
		body = "    如果层 <= 0：\n        输出0\n    输出（深：层 - 1） + 层"
	case 4: // a local declared at every level
		body = "    令地 = 层 * 2\n    如果层 > 0：\n        令内 = 地\n        " + call + "\n    输出地"
	case 5: // through a method of an object
		body = ""
	}
	src := "如何深？\n    输入层\n" + body + "\n令层 = -7\n令地 = -8\n令果 = （深：" + fmt.Sprint(d) + "）\n输出【层，地】"
	if kind == 5 {
		src = "定义型：\n    其P = 1\n    如何深？\n        输入层\n        如果层 > 0：\n            以其自身（深：层 - 1）\n        输出层\n令物 = （新建型）\n令层 = -7\n令地 = -8\n令果 = 以物（深：" + fmt.Sprint(d) + "）\n输出【层，地】"
	}
	cs := mc.J(c06Case{Part: "deep", M: d, Idx: int64(kind), Source: src})
	got, vm := zn.RunRealVM(src, nil)
	if got.Panic != "" {
		return &mc.Failure{Kind: "panic", Bucket: "deep-program", Case: cs, Observed: got.Panic, Detail: got.Stack}
	}
	want := zn.Canon(&zn.LV{Items: []zn.V{float64(-7), float64(-8)}})
	if got.Err != nil || got.Val != want {
		obs := "value " + got.Val
		if got.Err != nil {
			obs = fmt.Sprintf("%s error %d %s", got.Err.Kind, got.Err.Code, got.Err.Msg)
		}
		return &mc.Failure{Kind: "mismatch", Bucket: "deep-program", Case: cs, Expected: "the caller's own 层 and 地 after the calls returned: " + want, Observed: obs}
	}
	if vm != nil {
		for _, st := range vm.VerifScopeStats() {
			if st.Depth != 0 {
				return &mc.Failure{Kind: "mismatch", Bucket: "deep-program", Case: cs, Expected: "all blocks ended (depth 0)", Observed: fmt.Sprintf("module %d depth %d live %d", st.ModuleID, st.Depth, st.Live)}
			}
		}
	}
	return nil
}

func c06Sig(prog *zn.Program, src string, werr *zn.ZErr, got *zn.Outcome, rf *zn.Ref) string {
	return ""
}

func init() {
	mc.Register(&mc.Check{
		ID:    "C06",
		Level: "model_checking",
		// most generated programs END in the rejection they are about (use before declaration,
		// redeclaration, assignment to a read-only name): about one in eight completes (measured)
		MinRefCompleted: 0.04,
		Rule: "E2: breadth-first search over histories of {begin, end, declare x|y, declare-const x|y, set x|y, declare/set of predefined names} on the real runtime.VM symbol table; every successor is built by replaying its history on a fresh VM; dedup on the model state after the observation battery (both lookups, block depth, live symbols) agreed; step error codes 42/43/44 and the observation are compared with a stack-of-maps model in every state. " +
			"Depth family: for every depth 1..300 (700 thorough): begin x d, declare, end x d on the symbol table (with and without an outer declaration of the same name) against the model, and four recursive programs d calls deep whose input / local are named like caller variables (plain, call as an operand, a local per level, a method of an object): after the calls return the caller reads its own values and every block has ended. Many names: 16 sets of 60 000 (8 of 125 000 thorough) distinct six-character names alive at once on the symbol table, half in an outer and half in an inner block: undefined before its declaration, accepted, reads back its own value, assignments stay with their own name, inner names gone and outer ones kept after the block. " +
			"E1: every statement tree <= k nodes (nesting <= 3) over 21 actions (a method / a type defined in the block under the name of a variable, a failing built-in method call, declare, declare from the same outer name, constant, assign, probe on 甲 乙 参, predefined names, 得到 in both call forms, assignment to a method / type name) inside 7 block kinds (branch, branch whose condition binds a name with 得到, one-pass 每当, one-element 遍历, method call, method ending in a handled exception, recursion depth 3), real interpreter vs reference interpreter on trace, error code and final scope/call depth.",
		Assumptions: []string{
			"reference model: lexical block scoping as stated by the property; runs whose outcome depends on a callee seeing a caller's block-local name (dynamic scoping, manual silent) are skipped and counted (open_dynamic_scope)",
			"error codes are compared only where the error channel keeps them (not across a call boundary); assignment to a predefined name must be rejected, code not compared",
			"declaring a name that is an 输入/parameter or a method of the same body is not generated (same-block question left open by the manual)",
		},
		Shards: func(tier string) int { return 16 },
		Budget: func(tier string) time.Duration {
			if tier == "thorough" {
				return 20 * time.Minute
			}
			return 240 * time.Second
		},
		Run: func(c *mc.Ctx) {
			K, H := 4, 7
			if c.Tier == "thorough" {
				K, H = 5, 10
			}
			if c.Shard == 0 {
				c06BFS(c, H, 4)
			}
			// depth family: every nesting / recursion depth 1..D
			D := 300
			if c.Tier == "thorough" {
				D = 700
			}
			c.Describe = func(idx int64) json.RawMessage {
				k := idx - (1 << 39)
				return mc.J(c06Case{Part: "deep", M: int(k/c06DeepKinds) + 1, Idx: k % c06DeepKinds})
			}
			for k := int64(0); k < int64(D*c06DeepKinds); k++ {
				idx := int64(1<<39) + k
				if !c.Mine(idx) {
					continue
				}
				c.CaseIdx(idx)
				if f := c06Deep(int(k/c06DeepKinds)+1, int(k%c06DeepKinds)); f != nil {
					c.Fail(*f)
				}
				c.Eval(true)
				c.Stat("depth_family_cases", 1)
			}
			c.Bound("depth_family", fmt.Sprintf("complete: every depth 1..%d x %d shapes", D, c06DeepKinds))
			// many names alive at once: S sets of N consecutive names of the 1 000 000 (the real symbol
			// table is a list that is searched from its end, so N names cost N*N comparisons)
			manyN, manyS := 60000, 16
			if c.Tier == "thorough" {
				manyN, manyS = 125000, 8
			}
			c.Describe = func(idx int64) json.RawMessage {
				return mc.J(c06Case{Part: "many", M: manyN, Idx: (idx - (1 << 38)) * int64(manyN)})
			}
			for sidx := 0; sidx < manyS; sidx++ {
				idx := int64(1<<38) + int64(sidx)
				if !c.Mine(idx) {
					continue
				}
				c.CaseIdx(idx)
				if f := c06ManyNames(manyN, sidx*manyN, func() { c.CaseIdx(idx) }); f != nil {
					c.Fail(*f)
				}
				c.Eval(true)
				c.Stat("many_names_cases", 1)
			}
			c.Bound("names_alive_at_once", fmt.Sprintf("%d sets of %d names (first half in the outer block, second half in an inner one)", manyS, manyN))
			base := int64(1 << 40)
			for m := 1; m <= K; m++ {
				total := c06CountB(m, c06Depth)
				mm, b0 := m, base
				c.Describe = func(idx int64) json.RawMessage {
					return mc.J(c06Case{Part: "program", M: mm, Idx: idx - b0})
				}
				for k := int64(0); k < total; k++ {
					idx := base + k
					if !c.Mine(idx) {
						continue
					}
					if c.Due(0x3FF) {
						c.Note(fmt.Sprintf("deadline hit at programs of %d nodes", m))
						return
					}
					c.CaseIdx(idx)
					f, open := c06CheckProgram(m, k)
					c.Stat(fmt.Sprintf("programs_%d_nodes", m), 1)
					if open {
						c.Stat("open_dynamic_scope", 1)
						continue
					}
					c.Eval(true)
					c.Stat("traces_validated_against_impl", 1)
					if f != nil {
						c.Fail(*f)
					}
					if c.WantSample() && m == 3 && k%499 == 3 {
						c.Sample(zn.Render(c06Make(m, k), nil))
					}
				}
				base += total
				c.Bound(fmt.Sprintf("program_nodes_%d", m), fmt.Sprintf("complete: %d trees", total))
			}
		},
		Replay: func(c *mc.Ctx, raw json.RawMessage) {
			var cs c06Case
			if err := json.Unmarshal(raw, &cs); err != nil {
				c.Fail(mc.Failure{Kind: "crash", Observed: err.Error()})
				return
			}
			if cs.Part == "deep" {
				if f := c06Deep(cs.M, int(cs.Idx)); f != nil {
					c.Fail(*f)
				}
				return
			}
			if cs.Part == "many" {
				if f := c06ManyNames(cs.M, int(cs.Idx), func() {}); f != nil {
					c.Fail(*f)
				}
				return
			}
			if cs.Part == "symtab" {
				if f := c06CheckHistory(cs.History); f != nil {
					c.Fail(*f)
				}
				return
			}
			if f, _ := c06CheckProgram(cs.M, cs.Idx); f != nil {
				c.Fail(*f)
			}
		},
	})
}
