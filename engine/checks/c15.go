package checks

// C15 — modules load once, export read-only names, and cycles are reported.
// E1: every directed graph (self-loops included) on <= n module files, module 0
// being the main file, x both import orders x probe variants, written as real
// files and run through Interpreter.LoadFile/Execute.  The oracle is computed
// from the graph alone.

import (
	"encoding/json"
	"fmt"
	"os"
	"path/filepath"
	"strings"
	"time"

	"verif/engine/mc"
	"verif/engine/zn"
)

type c15Case struct {
	N       int               `json:"modules"`
	Graph   int64             `json:"graph"` // bit i*N+j = edge i -> j
	Desc    bool              `json:"descending_import_order"`
	Variant int               `json:"variant"`
	Special string            `json:"special,omitempty"`
	Files   map[string]string `json:"files,omitempty"`
}

func c15Name(i int) string {
	if i == 0 {
		return "主"
	}
	return fmt.Sprintf("模%d", i)
}

func c15Edges(c c15Case, i int) []int {
	var out []int
	for j := 0; j < c.N; j++ {
		if c.Graph&(1<<uint(i*c.N+j)) != 0 {
			out = append(out, j)
		}
	}
	if c.Desc {
		for a, b := 0, len(out)-1; a < b; a, b = a+1, b-1 {
			out[a], out[b] = out[b], out[a]
		}
	}
	return out
}

// files builds the source of every module of the case.
func c15Files(c c15Case) map[string]string {
	files := map[string]string{}
	for i := 0; i < c.N; i++ {
		var sb strings.Builder
		imps := c15Edges(c, i)
		for k, j := range imps {
			if i == 0 && k == 0 && (c.Variant == 4 || c.Variant == 5) {
				fmt.Fprintf(&sb, "导入“%s”之法%d\n", c15Name(j), j)
			} else {
				fmt.Fprintf(&sb, "导入“%s”\n", c15Name(j))
			}
		}
		fmt.Fprintf(&sb, "（显示：“run”、%d）\n", i)
		if i > 0 || true {
			fmt.Fprintf(&sb, "令变%d = %d\n", i, i)
			fmt.Fprintf(&sb, "定义型%d：\n    其P = %d\n", i, i)
			fmt.Fprintf(&sb, "如何法%d？\n    （显示：“法”、%d）\n", i, i)
			for _, j := range imps {
				if j != i {
					fmt.Fprintf(&sb, "    （法%d）\n", j)
					// the importer also uses the imported module's TYPE (a selective import
					// elsewhere must not take it away from this importer)
					fmt.Fprintf(&sb, "    （显示：“型”、（新建型%d）之P）\n", j)
				}
			}
			fmt.Fprintf(&sb, "    输出%d\n", i)
		}
		if i == 0 {
			for _, j := range imps {
				if j != 0 {
					fmt.Fprintf(&sb, "（显示：“call”、%d、（法%d））\n", j, j)
				}
			}
			if len(imps) > 0 && imps[0] != 0 {
				j0 := imps[0]
				switch c.Variant {
				case 1:
					fmt.Fprintf(&sb, "法%d = 1\n", j0)
				case 2:
					fmt.Fprintf(&sb, "（显示：变%d）\n", j0)
				case 3, 4:
					fmt.Fprintf(&sb, "（显示：“new”、（新建型%d）之P）\n", j0)
				}
			}
			sb.WriteString("（显示：“end”）\n输出0")
		}
		files[c15Name(i)+".zn"] = strings.TrimRight(sb.String(), "\n")
	}
	return files
}

// oracle from the graph alone
type c15Expect struct {
	cycle bool
	trace []string
	code  int // expected error code after the trace (0 = completes)
}

func c15Oracle(c c15Case) c15Expect {
	// reachable part has a cycle?
	color := make([]int, c.N)
	var cyc bool
	var dfs func(u int)
	dfs = func(u int) {
		color[u] = 1
		for _, v := range c15Edges(c, u) {
			if color[v] == 1 {
				cyc = true
			} else if color[v] == 0 {
				dfs(v)
			}
		}
		color[u] = 2
	}
	dfs(0)
	if cyc {
		return c15Expect{cycle: true, code: 63}
	}
	num := func(n int) string { return zn.Canon(float64(n)) }
	str := func(s string) string { return zn.Canon(s) }
	var tr []string
	loaded := make([]bool, c.N)
	var load func(i int)
	load = func(i int) {
		loaded[i] = true
		for _, j := range c15Edges(c, i) {
			if !loaded[j] {
				load(j)
			}
		}
		tr = append(tr, str("run")+" "+num(i))
	}
	load(0)
	var call func(j int)
	call = func(j int) {
		tr = append(tr, str("法")+" "+num(j))
		for _, k := range c15Edges(c, j) {
			call(k)
			tr = append(tr, str("型")+" "+num(k))
		}
	}
	imps := c15Edges(c, 0)
	for _, j := range imps {
		// the call's own traces come first, then the display of its result
		call(j)
		tr = append(tr, str("call")+" "+num(j)+" "+num(j))
	}
	code := 0
	if len(imps) > 0 {
		j0 := imps[0]
		switch c.Variant {
		case 1:
			return c15Expect{trace: tr, code: 44}
		case 2:
			return c15Expect{trace: tr, code: 42}
		case 3:
			tr = append(tr, str("new")+" "+num(j0))
		case 4:
			return c15Expect{trace: tr, code: 42}
		}
	}
	tr = append(tr, str("end"))
	return c15Expect{trace: tr, code: code}
}

var c15Dir string

func c15Run(files map[string]string) zn.Outcome {
	if c15Dir == "" {
		d, err := os.MkdirTemp("", "c15-")
		if err != nil {
			return zn.Outcome{Panic: "mkdtemp: " + err.Error()}
		}
		c15Dir = d
	}
	// fresh directory content
	ents, _ := os.ReadDir(c15Dir)
	for _, e := range ents {
		os.RemoveAll(filepath.Join(c15Dir, e.Name()))
	}
	for name, src := range files {
		p := filepath.Join(c15Dir, name)
		os.MkdirAll(filepath.Dir(p), 0o755)
		os.WriteFile(p, []byte(src), 0o644)
	}
	return zn.RunRealFile(filepath.Join(c15Dir, "主.zn"), nil)
}

func c15Check(c c15Case) *mc.Failure {
	files := c15Files(c)
	exp := c15Oracle(c)
	cs := func() json.RawMessage { cc := c; cc.Files = files; return mc.J(cc) }
	got := c15Run(files)
	if got.Panic != "" {
		return &mc.Failure{Kind: "panic", Bucket: "panic", Case: cs(), Observed: got.Panic, Detail: got.Stack}
	}
	gt := strings.Join(got.Trace, " | ")
	if exp.cycle {
		if got.Err == nil {
			return &mc.Failure{Sig: c15Sig(c, "cycle-not-reported"), Kind: "mismatch", Bucket: "cycle-completed", Case: cs(), Expected: "circular-dependency error (63)", Observed: "completed, trace " + gt}
		}
		if got.Err.Code != 63 {
			return &mc.Failure{Sig: c15Sig(c, "cycle-other-error"), Kind: "mismatch", Bucket: fmt.Sprintf("cycle-error-%s-%d", got.Err.Kind, got.Err.Code), Case: cs(), Expected: "circular-dependency error (63)", Observed: fmt.Sprintf("%s error %d %s", got.Err.Kind, got.Err.Code, got.Err.Msg)}
		}
		return nil
	}
	wt := strings.Join(exp.trace, " | ")
	if exp.code != 0 {
		if got.Err == nil {
			return &mc.Failure{Kind: "mismatch", Bucket: fmt.Sprintf("accepted-%d-v%d", exp.code, c.Variant), Case: cs(), Expected: fmt.Sprintf("error %d after trace %s", exp.code, wt), Observed: "completed, trace " + gt}
		}
		if gt != wt {
			return &mc.Failure{Kind: "mismatch", Bucket: fmt.Sprintf("trace-before-error-v%d", c.Variant), Case: cs(), Expected: "trace " + wt, Observed: "trace " + gt}
		}
		if got.Err.Kind == "runtime" && got.Err.Code != exp.code {
			return &mc.Failure{Kind: "mismatch", Bucket: fmt.Sprintf("code-%d-vs-%d", exp.code, got.Err.Code), Case: cs(), Expected: fmt.Sprintf("error %d", exp.code), Observed: fmt.Sprintf("error %d %s", got.Err.Code, got.Err.Msg)}
		}
		return nil
	}
	if got.Err != nil {
		return &mc.Failure{Kind: "mismatch", Bucket: fmt.Sprintf("rejected-%s-%d-v%d", got.Err.Kind, got.Err.Code, c.Variant), Case: cs(), Expected: "completes, trace " + wt, Observed: fmt.Sprintf("%s error %d %s after trace %s", got.Err.Kind, got.Err.Code, got.Err.Msg, gt)}
	}
	if gt != wt {
		return &mc.Failure{Kind: "mismatch", Bucket: fmt.Sprintf("trace-v%d", c.Variant), Case: cs(), Expected: "trace " + wt, Observed: "trace " + gt}
	}
	return nil
}

func c15Sig(c c15Case, what string) string { return "" }

// fixed scenarios: nested directories, missing module, libraries
type c15Special struct {
	name  string
	files map[string]string
	trace string
	code  int
}

func c15SpecialList() []c15Special {
	s := func(x string) string { return zn.Canon(x) }
	return []c15Special{
		{"nested-directory", map[string]string{
			"主.zn":   "导入“子-丙”\n（显示：“main”）\n输出（丙法）",
			"子/丙.zn": "导入“子-丁”\n（显示：“丙”）\n如何丙法？\n    输出（丁法） + 1",
			"子/丁.zn": "（显示：“丁”）\n如何丁法？\n    输出40",
		}, s("丁") + " | " + s("丙") + " | " + s("main"), 0},
		{"nested-not-flat", map[string]string{
			"主.zn":   "导入“子-丙”\n输出1",
			"子-丙.zn": "（显示：“flat”）",
		}, "", 60},
		{"missing-module", map[string]string{"主.zn": "导入“无此”\n输出1"}, "", 60},
		{"library-ok", map[string]string{"主.zn": "导入《@JSON》\n（显示：“ok”）\n输出（生成JSON：【甲=1】）"}, s("ok"), 0},
		{"library-selective", map[string]string{"主.zn": "导入《@JSON》之生成JSON\n（显示：“ok”）\n输出（解析JSON：“{}”）"}, s("ok"), 42},
		{"missing-library", map[string]string{"主.zn": "导入《@无此库》\n输出1"}, "", 64},
		{"library-name-read-only", map[string]string{"主.zn": "导入《@JSON》\n生成JSON = 1\n输出1"}, "", 44},
		// an imported method is the same method however it is reached: bound to a variable, handed to
		// a method as an argument, stored in a list - it still runs in its own module (the importer
		// took only that one name, so the helper it uses is unknown to the importer itself)
		{"imported-method-through-a-variable", map[string]string{
			"主.zn": "导入“甲”之主法\n令函 = 主法\n（显示：（函））\n输出（主法）",
			"甲.zn": "如何助？\n    输出41\n如何主法？\n    输出（助） + 1",
		}, "n:4045000000000000", 0},
		{"imported-method-as-an-argument", map[string]string{
			"主.zn": "导入“甲”之主法\n如何用？\n    输入函\n    输出（函） + 100\n（显示：（用：主法））\n输出1",
			"甲.zn": "如何助？\n    输出41\n如何主法？\n    输出（助） + 1",
		}, "n:4061c00000000000", 0},
		{"imported-method-handed-on-by-a-middle-module", map[string]string{
			"主.zn": "导入“乙”之转\n如何己？\n    输出7\n（显示：（转：己））\n输出1",
			"乙.zn": "导入“甲”之主法\n如何转？\n    输入函\n    输出（函） + （主法）",
			"甲.zn": "如何助？\n    输出41\n如何主法？\n    输出（助） + 1",
		}, "n:4048800000000000", 0},
		// a module file that holds nothing but import statements is a module like any other
		{"import-only-chain", map[string]string{
			"主.zn": "导入“甲”\n（显示：“main”）\n输出1",
			"甲.zn": "导入“乙”",
			"乙.zn": "（显示：“乙”）\n如何乙法？\n    输出1",
		}, s("乙") + " | " + s("main"), 0},
		{"import-only-two-imports", map[string]string{
			"主.zn": "导入“甲”\n（显示：“main”）\n输出1",
			"甲.zn": "导入“乙”\n导入“丙”",
			"乙.zn": "（显示：“乙”）",
			"丙.zn": "（显示：“丙”）",
		}, s("乙") + " | " + s("丙") + " | " + s("main"), 0},
		{"import-only-cycle", map[string]string{"主.zn": "导入“甲”\n输出1", "甲.zn": "导入“乙”", "乙.zn": "导入“甲”"}, "", 63},
		{"import-only-self", map[string]string{"主.zn": "导入“甲”\n输出1", "甲.zn": "导入“甲”"}, "", 63},
		{"import-only-in-3-cycle", map[string]string{
			"主.zn": "导入“甲”\n输出1", "甲.zn": "导入“乙”",
			"乙.zn": "导入“丙”\n如何乙法？\n    输出1", "丙.zn": "导入“甲”\n如何丙法？\n    输出1",
		}, "", 63},
		{"import-only-missing-behind", map[string]string{"主.zn": "导入“甲”\n输出1", "甲.zn": "导入“无此”"}, "", 60},
		// a loaded module's own methods and types stay read-only for its own methods
		{"own-method-name-read-only-after-load", map[string]string{
			"主.zn": "导入“库”\n（显示：“main”）\n（显示：（改法））\n输出（取值）",
			"库.zn": "如何取值？\n    输出14\n如何改法？\n    取值 = 5\n    输出1",
		}, s("main"), 44},
		{"own-type-name-read-only-after-load", map[string]string{
			"主.zn": "导入“库”\n（显示：“main”）\n（显示：（改型））\n输出1",
			"库.zn": "定义货件：\n    其P = 1\n如何改型？\n    货件 = 9\n    输出1",
		}, s("main"), 44},
		{"own-method-name-read-only-handled", map[string]string{
			"主.zn": "导入“库”\n（显示：（试改））\n输出（取值）",
			"库.zn": "如何取值？\n    输出14\n如何试改？\n    取值 = 5\n    输出（取值）\n    拦截异常：\n        输出（取值）",
		}, zn.Canon(float64(14)), 0},
		// an exception leaves an imported method through a loop of the IMPORTER and is handled
		// further out: the imported module still has its names afterwards
		{"exception-through-importer-loop", map[string]string{
			"主.zn": "导入“乙”\n如何外？\n    以V遍历【1，2】：\n        （乙险：V）\n    输出0\n    拦截异常：\n        输出-1\n（显示：（外））\n（显示：（乙总））\n每当真：\n    （显示：（外））\n    结束循环\n（显示：（乙总））\n输出1",
			"乙.zn": "如何乙助？\n    输出203\n如何乙总？\n    输出（乙助）\n如何乙险？\n    输入参\n    抛出异常：“险”！",
		}, zn.Canon(float64(-1)) + " | " + zn.Canon(float64(203)) + " | " + zn.Canon(float64(-1)) + " | " + zn.Canon(float64(203)), 0},
		// one file names one module in two import statements with different lists: both are carried out
		{"two-selective-imports-of-one-module", map[string]string{
			"主.zn": "导入“丙”之丙一\n导入“丙”之丙二\n（显示：（丙一） + （丙二））\n输出1",
			"丙.zn": "（显示：“丙”）\n如何丙一？\n    输出10\n如何丙二？\n    输出11",
		}, s("丙") + " | " + zn.Canon(float64(21)), 0},
		{"two-selective-imports-separated-method-then-type", map[string]string{
			"主.zn": "导入“丙”之丙一\n导入“丁”\n导入“丙”之丙型\n（显示：（丙一） + （丁一） + （新建丙型）之P）\n输出1",
			"丙.zn": "（显示：“丙”）\n如何丙一？\n    输出10\n定义丙型：\n    其P = 5",
			"丁.zn": "（显示：“丁”）\n如何丁一？\n    输出100",
		}, s("丙") + " | " + s("丁") + " | " + zn.Canon(float64(115)), 0},
		{"two-selective-imports-in-a-module", map[string]string{
			"主.zn": "导入“甲”\n（显示：（甲法））\n输出1",
			"甲.zn": "导入“丙”之丙二\n导入“丙”之丙一\n如何甲法？\n    输出（丙一） * （丙二）",
			"丙.zn": "（显示：“丙”）\n如何丙一？\n    输出10\n如何丙二？\n    输出11",
		}, s("丙") + " | " + zn.Canon(float64(110)), 0},
		{"two-selective-library-imports", map[string]string{
			"主.zn": "导入《@JSON》之解析JSON\n导入《@JSON》之生成JSON\n（显示：（生成JSON：（解析JSON：“{}”）））\n输出1",
		}, s("{}"), 0},
		// the constructor of an imported type runs in the module that defines the type: it sees that
		// module's methods, types and imports, whatever the module that writes 新建 sees
		{"constructor-uses-unlisted-sibling-method", map[string]string{
			"主.zn": "导入“丙”之点\n令物 = （新建点：3、4）\n（显示：物之和）\n输出1",
			"丙.zn": "如何求和？\n    输入甲、乙\n    输出甲 + 乙 + 100\n定义点：\n    其和 = 0\n如何新建点？\n    输入甲、乙\n    其和 = （求和：甲、乙）",
		}, zn.Canon(float64(107)), 0},
		{"constructor-not-misled-by-importer-method", map[string]string{
			"主.zn": "导入“丙”之点\n如何求和？\n    输入甲、乙\n    输出甲 + 乙 + 5\n令物 = （新建点：3、4）\n（显示：物之和、（求和：3、4））\n输出1",
			"丙.zn": "如何求和？\n    输入甲、乙\n    输出甲 + 乙 + 100\n定义点：\n    其和 = 0\n如何新建点？\n    输入甲、乙\n    其和 = （求和：甲、乙）",
		}, zn.Canon(float64(107)) + " " + zn.Canon(float64(12)), 0},
		{"constructor-uses-its-modules-own-import", map[string]string{
			"主.zn": "导入“丙”\n令物 = （新建点：3）\n（显示：物之和）\n输出1",
			"丙.zn": "导入“丁”\n定义点：\n    其和 = 0\n如何新建点？\n    输入甲\n    其和 = （丁一） + 甲",
			"丁.zn": "如何丁一？\n    输出100",
		}, zn.Canon(float64(103)), 0},
		{"constructor-creates-unlisted-sibling-type", map[string]string{
			"主.zn": "导入“丙”之线\n令物 = （新建线：3）\n（显示：物之端之横）\n输出1",
			"丙.zn": "定义点：\n    其横 = 0\n如何新建点？\n    输入甲\n    其横 = 甲 * 2\n定义线：\n    其端 = 空\n如何新建线？\n    输入甲\n    其端 = （新建点：甲）",
		}, zn.Canon(float64(6)), 0},
		{"constructor-called-from-a-middle-module", map[string]string{
			"主.zn": "导入“甲”\n（显示：（甲造））\n输出1",
			"甲.zn": "导入“丙”之点\n如何甲造？\n    输出（新建点：3、4）之和",
			"丙.zn": "如何求和？\n    输入甲、乙\n    输出甲 + 乙 + 100\n定义点：\n    其和 = 0\n如何新建点？\n    输入甲、乙\n    其和 = （求和：甲、乙）",
		}, zn.Canon(float64(107)), 0},
		// imports are carried out one after the other: what the first one displays is displayed
		// before the second one fails
		{"working-import-then-missing", map[string]string{
			"主.zn": "导入“甲”\n导入“无此”\n输出1",
			"甲.zn": "（显示：“甲”）",
		}, s("甲"), 60},
		{"two-missing-imports-first-is-reported", map[string]string{
			"主.zn": "导入“无甲”\n导入“无乙”\n输出1",
		}, "", 60},
		// a definition inside a method of an imported module belongs to the call: the method can be
		// called again, and the module exports nothing new afterwards
		{"nested-definition-in-imported-method-called-twice", map[string]string{
			"主.zn": "导入“乙”\n（显示：（乙法：1））\n（显示：（乙法：2））\n输出1",
			"乙.zn": "如何乙法？\n    输入甲\n    如何翻倍？\n        输入数\n        输出数 * 2\n    输出（翻倍：甲）",
		}, zn.Canon(float64(2)) + " | " + zn.Canon(float64(4)), 0},
		{"nested-definition-in-imported-method-not-exported", map[string]string{
			"主.zn": "导入“丙”\n导入“乙”\n（显示：“main”）\n输出（翻倍：5）",
			"丙.zn": "导入“乙”\n（显示：（乙法：1））",
			"乙.zn": "如何乙法？\n    输入甲\n    如何翻倍？\n        输入数\n        输出数 * 2\n    输出（翻倍：甲）",
		}, zn.Canon(float64(2)) + " | " + s("main"), 42},
		{"diamond-runs-once", map[string]string{
			"主.zn": "导入“甲”\n导入“乙”\n（显示：“main”）\n输出（甲法） + （乙法）",
			"甲.zn": "导入“丙”\n（显示：“甲”）\n如何甲法？\n    输出（丙法）",
			"乙.zn": "导入“丙”\n（显示：“乙”）\n如何乙法？\n    输出（丙法）",
			"丙.zn": "（显示：“丙”）\n如何丙法？\n    输出1",
		}, s("丙") + " | " + s("甲") + " | " + s("乙") + " | " + s("main"), 0},
	}
}

// c15SameType: modules that each define a type of the SAME name (never imported into
// one scope: the importer takes only the factory method), whose method uses a helper of
// its own module; objects of the different modules are used in every order.
func c15SameType() []c15Special {
	var out []c15Special
	perms := [][]int{{0, 1, 2}, {0, 2, 1}, {1, 0, 2}, {1, 2, 0}, {2, 0, 1}, {2, 1, 0}}
	for mask := 3; mask < 8; mask++ { // which of main(1), 模1(2), 模2(4) define the type
		if mask == 4 || mask&(mask-1) == 0 {
			continue
		}
		for desc := 0; desc < 2; desc++ {
			for pi, perm := range perms {
				files := map[string]string{}
				mod := func(i int) string {
					return fmt.Sprintf("如何助？\n    输出%d\n定义型：\n    其P = %d\n    如何值？\n        输出（助） + 其P\n如何造%d？\n    输出（新建型）", i*100, i, i)
				}
				var main strings.Builder
				order := []int{1, 2}
				if desc == 1 {
					order = []int{2, 1}
				}
				for _, j := range order {
					if mask&(1<<uint(j)) != 0 {
						fmt.Fprintf(&main, "导入“模%d”之造%d\n", j, j)
						files[fmt.Sprintf("模%d.zn", j)] = mod(j)
					}
				}
				if mask&1 != 0 {
					main.WriteString(mod(0) + "\n")
				}
				var objs []int
				for i := 0; i < 3; i++ {
					if mask&(1<<uint(i)) != 0 {
						fmt.Fprintf(&main, "令物%d = （造%d）\n", i, i)
						objs = append(objs, i)
					}
				}
				var want []string
				for _, k := range perm {
					if mask&(1<<uint(k)) == 0 {
						continue
					}
					fmt.Fprintf(&main, "（显示：以物%d（值））\n", k)
					want = append(want, zn.Canon(float64(k*100+k)))
				}
				// and once more in the same order (whatever the first round left behind)
				for _, k := range perm {
					if mask&(1<<uint(k)) == 0 {
						continue
					}
					fmt.Fprintf(&main, "（显示：以物%d（值））\n", k)
					want = append(want, zn.Canon(float64(k*100+k)))
				}
				main.WriteString("输出0")
				files["主.zn"] = main.String()
				out = append(out, c15Special{fmt.Sprintf("same-type-name-mask%d-desc%d-perm%d", mask, desc, pi), files, strings.Join(want, " | "), 0})
			}
		}
	}
	return out
}

func c15SpecialCheck(x c15Special) *mc.Failure {
	cs := mc.J(c15Case{Special: x.name, Files: x.files})
	got := c15Run(x.files)
	gt := strings.Join(got.Trace, " | ")
	bad := got.Panic != "" || gt != x.trace
	if x.code == 0 {
		bad = bad || got.Err != nil
	} else {
		bad = bad || got.Err == nil || (got.Err.Kind == "runtime" && got.Err.Code != x.code)
	}
	if x.name == "nested-directory" && !bad && got.Val != zn.Canon(float64(41)) {
		bad = true
	}
	if bad {
		return &mc.Failure{Kind: "mismatch", Bucket: "special-" + x.name, Case: cs, Expected: fmt.Sprintf("trace %s, code %d", x.trace, x.code), Observed: fmt.Sprintf("trace %s, err %+v, val %s %s", gt, got.Err, got.Val, got.Panic)}
	}
	return nil
}

func c15Specials(c *mc.Ctx) {
	for i, x := range append(c15SpecialList(), c15SameType()...) {
		idx := int64(1<<50) + int64(i)
		if !c.Mine(idx) {
			continue
		}
		xx := x
		c.Case(idx, func() json.RawMessage { return mc.J(c15Case{Special: xx.name, Files: xx.files}) })
		c.Eval(true)
		c.Stat("special_scenarios", 1)
		if f := c15SpecialCheck(x); f != nil {
			c.Fail(*f)
		}
	}
}

func init() {
	mc.Register(&mc.Check{
		ID:    "C15",
		Level: "exploration",
		Rule:  "E1 exhaustive: every directed graph with self-loops on n module files (all 2^(n*n) edge sets; module 0 = main file; edges into 0 import the main file by name) x both import orders; acyclic reachable parts additionally x 6 probe variants (calls only, assignment to an imported name -> 44, read of a non-exported variable -> 42, use of an imported type, selective import then use of an unlisted name -> 42, selective import then call). Every module prints a marker when its body runs and defines a method calling the method of each module it imports, a type and a plain variable. Real files in a scratch directory through LoadFile/Execute. Oracle from the graph alone: reachable cycle => error 63; otherwise the exact load order (each module once, after everything it imports, main last), the exact call traces and the probe outcome. Plus the same-type-name family (every subset of >= 2 of {main, module 1, module 2} defining a type of one name whose method uses a helper of its own module, importers taking only the factory method, both import orders, the objects used in every order, twice) and 17 fixed scenarios (among them module files made of import statements only - chain, two imports, cycles, missing module behind - and a loaded module's own method / type names staying read-only for its own methods) (nested directories, missing module 60, library, selective library import, missing library 64, read-only library name, diamond). Distinct by construction; non-trivial = at least one edge.",
		Assumptions: []string{
			"importing the same module twice from one file is not generated (statement does not say whether the second import is an error)",
			"module graphs above n files are not covered",
		},
		Budget: func(tier string) time.Duration {
			if tier == "thorough" {
				return 25 * time.Minute
			}
			return 100 * time.Second
		},
		Run: func(c *mc.Ctx) {
			defer func() {
				if c15Dir != "" {
					os.RemoveAll(c15Dir)
				}
			}()
			maxN := 4
			c15Specials(c)
			base := int64(0)
			for n := 1; n <= maxN; n++ {
				graphs := int64(1) << uint(n*n)
				total := graphs * 2 * 6
				nn, b0 := n, base
				c.Describe = func(idx int64) json.RawMessage {
					k := idx - b0
					return mc.J(c15Case{N: nn, Variant: int(k % 6), Desc: (k/6)%2 == 1, Graph: k / 12})
				}
				for k := int64(0); k < total; k++ {
					idx := base + k
					if !c.Mine(idx) {
						continue
					}
					cs := c15Case{N: n, Variant: int(k % 6), Desc: (k/6)%2 == 1, Graph: k / 12}
					exp := c15Oracle(cs)
					if cs.Variant != 0 && (exp.cycle || len(c15Edges(cs, 0)) == 0 || c15Edges(cs, 0)[0] == 0) {
						continue // variants only refine acyclic graphs with a direct import
					}
					if n == 4 && c.Tier != "thorough" && (cs.Variant != 0 || cs.Desc) {
						continue // quick: 4 files with the plain variant in ascending import order only
					}
					if c.Due(0xFF) {
						c.Note(fmt.Sprintf("deadline hit at %d modules", n))
						return
					}
					c.CaseIdx(idx)
					f := c15Check(cs)
					c.Eval(cs.Graph != 0)
					c.Stat(fmt.Sprintf("runs_%d_modules", n), 1)
					if exp.cycle {
						c.Stat("cyclic_graphs_run", 1)
					}
					if f != nil {
						c.Fail(*f)
					}
					if c.WantSample() && n == 3 && k%1999 == 36 {
						cs.Files = c15Files(cs)
						c.Sample(cs)
					}
				}
				base += total
				c.Bound(fmt.Sprintf("module_files_%d", n), fmt.Sprintf("complete: %d graphs x 2 import orders", graphs))
			}
		},
		Replay: func(c *mc.Ctx, raw json.RawMessage) {
			var cs c15Case
			if err := json.Unmarshal(raw, &cs); err != nil {
				c.Fail(mc.Failure{Kind: "crash", Observed: err.Error()})
				return
			}
			defer func() {
				if c15Dir != "" {
					os.RemoveAll(c15Dir)
				}
			}()
			if cs.Special != "" {
				for _, x := range c15SpecialList() {
					if x.name == cs.Special {
						if f := c15SpecialCheck(x); f != nil {
							c.Fail(*f)
						}
					}
				}
				return
			}
			cs.Files = nil
			if f := c15Check(cs); f != nil {
				c.Fail(*f)
			}
		},
	})
}
