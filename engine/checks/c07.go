package checks

// C07 — lists and dictionaries are copied on assignment; objects are shared.
// E2 (hist.go): BFS over histories of copy / assign / mutate operations on the
// names A B C, every live name observed structurally after every operation,
// plus a probe battery in every new state (mutate through one name at every
// container position, observe all names) to force hidden sharing into the open.

import (
	"encoding/json"
	"fmt"
	"time"

	"verif/engine/mc"
	"verif/engine/zn"
)

var c07Names = []string{"A", "B", "C"}

func c07N(n int) zn.Expr       { return zn.Num{Lit: fmt.Sprint(n)} }
func c07V(n string) zn.Expr    { return zn.Var{Name: n} }
func c07S(e zn.Expr) []zn.Stmt { return []zn.Stmt{zn.ExprStmt{E: e}} }
func c07Decl(names []string, v zn.Expr) []zn.Stmt {
	return []zn.Stmt{zn.Decl{Pairs: []zn.DeclPair{{Names: names, Val: v}}}}
}
func c07M(root zn.Expr, m string, args ...zn.Expr) zn.Expr {
	return zn.MCall{Root: root, Chain: []zn.Call{{Name: m, Args: args}}}
}
func c07Idx(root zn.Expr, i zn.Expr) zn.Expr { return zn.Index{Root: root, Idx: i} }

func c07Spec() *histSpec {
	one := zn.Num{Lit: "1"}
	kk := zn.Str{Val: "K"}
	sp := &histSpec{
		ID:       "C07",
		Blind:    true,
		ObjProps: []string{"P", "N"},
		Prelude: []zn.Stmt{
			zn.Class{Name: "型", Props: []zn.Prop{{Name: "P", Val: zn.List{Items: []zn.Expr{one}}}, {Name: "N", Val: zn.Num{Lit: "0"}}},
				Methods: []zn.Func{
					{Name: "改", Params: []string{"V"}, Body: c07S(c07M(zn.This{Name: "P"}, "后增", c07V("V")))},
					{Name: "设", Params: []string{"V"}, Body: c07S(zn.Assign{Target: zn.This{Name: "N"}, Val: c07V("V")})},
				}},
			// a type WITH a constructor that assigns only N: P keeps its default, which every
			// instance must still get as its own copy
			zn.Class{Name: "构", Props: []zn.Prop{{Name: "P", Val: zn.List{Items: []zn.Expr{one}}}, {Name: "N", Val: zn.Num{Lit: "0"}}},
				Methods: []zn.Func{
					{Name: "改", Params: []string{"V"}, Body: c07S(c07M(zn.This{Name: "P"}, "后增", c07V("V")))},
					{Name: "设", Params: []string{"V"}, Body: c07S(zn.Assign{Target: zn.This{Name: "N"}, Val: c07V("V")})},
				}},
			// ... and that hands the object to another holder (最近): what 新建 yields IS that object
			zn.Func{Name: "构", Ctor: true, Params: []string{"初"}, Body: []zn.Stmt{
				zn.ExprStmt{E: zn.Assign{Target: zn.This{Name: "N"}, Val: c07V("初")}},
				zn.ExprStmt{E: zn.Assign{Target: c07V("最近"), Val: zn.This{Name: "自身"}}}}},
			zn.Decl{Pairs: []zn.DeclPair{{Names: []string{"最近"}, Val: c07V("空")}}},
			// methods that hand back what they were given (or a part of it): the value lives on outside
			// the call, so storing the call's result stores a copy like storing the variable does
			zn.Func{Name: "原样", Params: []string{"物"}, Body: []zn.Stmt{zn.Return{Val: c07V("物")}}},
			zn.Func{Name: "头", Params: []string{"物"}, Body: []zn.Stmt{zn.Return{Val: c07Idx(c07V("物"), zn.Num{Lit: "1"})}}},
		},
		Init: []histOp{
			{Label: "令A = 【【1】，【2】】", Declares: []string{"A"}, Stmts: c07Decl([]string{"A"}, zn.List{Items: []zn.Expr{zn.List{Items: []zn.Expr{one}}, zn.List{Items: []zn.Expr{zn.Num{Lit: "2"}}}}})},
			{Label: "令A = 【K=【1】】", Declares: []string{"A"}, Stmts: c07Decl([]string{"A"}, zn.Dict{Pairs: []zn.DictPair{{Key: "K", Val: zn.List{Items: []zn.Expr{one}}}}})},
			{Label: "令A = 【【K=1】】", Declares: []string{"A"}, Stmts: c07Decl([]string{"A"}, zn.List{Items: []zn.Expr{zn.Dict{Pairs: []zn.DictPair{{Key: "K", Val: one}}}}})},
			{Label: "令A = （新建型）", Declares: []string{"A"}, Stmts: c07Decl([]string{"A"}, zn.New{Class: "型"})},
			{Label: "令A = （新建构：3）", Declares: []string{"A"}, Stmts: c07Decl([]string{"A"}, zn.New{Class: "构", Args: []zn.Expr{zn.Num{Lit: "3"}}})},
		},
		Observe: func(declared []string) []zn.Stmt {
			var args []zn.Expr
			for _, n := range declared {
				args = append(args, c07V(n))
			}
			args = append(args, c07V("最近"))
			return c07S(zn.Call{Name: "显示", Args: args})
		},
	}
	sp.Ops = func(declared []string, rf *zn.Ref, depth int) []histOp {
		var ops []histOp
		var fresh []string
		for _, n := range c07Names {
			found := false
			for _, d := range declared {
				if d == n {
					found = true
				}
			}
			if !found {
				fresh = append(fresh, n)
			}
		}
		n := c07N(5 + depth)
		add := func(label string, declares []string, st []zn.Stmt) {
			ops = append(ops, histOp{Label: label, Declares: declares, Stmts: st})
		}
		if len(fresh) > 0 {
			add(fmt.Sprintf("令%s = （新建型）", fresh[0]), fresh[:1], c07Decl(fresh[:1], zn.New{Class: "型"}))
			add(fmt.Sprintf("令%s = （新建构：3）", fresh[0]), fresh[:1], c07Decl(fresh[:1], zn.New{Class: "构", Args: []zn.Expr{zn.Num{Lit: "3"}}}))
		}
		for _, y := range declared {
			if len(fresh) > 0 {
				add(fmt.Sprintf("令%s = %s", fresh[0], y), fresh[:1], c07Decl(fresh[:1], c07V(y)))
				add(fmt.Sprintf("令%s = %s之P", fresh[0], y), fresh[:1], c07Decl(fresh[:1], zn.Member{Root: c07V(y), Name: "P"}))
				add(fmt.Sprintf("令%s = %s#1", fresh[0], y), fresh[:1], c07Decl(fresh[:1], c07Idx(c07V(y), one)))
			}
			if len(fresh) > 1 {
				add(fmt.Sprintf("令%s、%s = %s", fresh[0], fresh[1], y), fresh[:2], c07Decl(fresh[:2], c07V(y)))
				add(fmt.Sprintf("令%s、%s = （原样：%s）", fresh[0], fresh[1], y), fresh[:2], c07Decl(fresh[:2], zn.Call{Name: "原样", Args: []zn.Expr{c07V(y)}}))
			}
			// ... from a direct call of a program-defined method that returns its input / an item of it
			if len(fresh) > 0 {
				add(fmt.Sprintf("令%s = （原样：%s）", fresh[0], y), fresh[:1], c07Decl(fresh[:1], zn.Call{Name: "原样", Args: []zn.Expr{c07V(y)}}))
				add(fmt.Sprintf("令%s = （头：%s）", fresh[0], y), fresh[:1], c07Decl(fresh[:1], zn.Call{Name: "头", Args: []zn.Expr{c07V(y)}}))
				add(fmt.Sprintf("令%s = 【（原样：%s）】", fresh[0], y), fresh[:1], c07Decl(fresh[:1], zn.List{Items: []zn.Expr{zn.Call{Name: "原样", Args: []zn.Expr{c07V(y)}}}}))
			}
			// constants hold copies too: a constant only protects the name, not what it holds
			if len(fresh) > 0 {
				add(fmt.Sprintf("令%s恒为%s", fresh[0], y), fresh[:1], []zn.Stmt{zn.Decl{Pairs: []zn.DeclPair{{Names: fresh[:1], Const: true, Val: c07V(y)}}}})
				add(fmt.Sprintf("令%s恒为%s#1", fresh[0], y), fresh[:1], []zn.Stmt{zn.Decl{Pairs: []zn.DeclPair{{Names: fresh[:1], Const: true, Val: c07Idx(c07V(y), one)}}}})
			}
			if len(fresh) > 1 {
				add(fmt.Sprintf("令%s、%s恒为%s", fresh[0], fresh[1], y), fresh[:2], []zn.Stmt{zn.Decl{Pairs: []zn.DeclPair{{Names: fresh[:2], Const: true, Val: c07V(y)}}}})
			}
		}
		for _, y := range declared {
			// literals that contain a variable: the literal is fresh, what it holds must be copied too
			if len(fresh) > 0 {
				add(fmt.Sprintf("令%s = 【%s，9】", fresh[0], y), fresh[:1], c07Decl(fresh[:1], zn.List{Items: []zn.Expr{c07V(y), zn.Num{Lit: "9"}}}))
			}
			for _, x := range declared {
				if x == y {
					continue
				}
				add(fmt.Sprintf("%s = 【%s，9】", x, y), nil, c07S(zn.Assign{Target: c07V(x), Val: zn.List{Items: []zn.Expr{c07V(y), zn.Num{Lit: "9"}}}}))
				add(fmt.Sprintf("%s#“K” = 【K=%s】", x, y), nil, c07S(zn.Assign{Target: c07Idx(c07V(x), kk), Val: zn.Dict{Pairs: []zn.DictPair{{Key: "K", Val: c07V(y)}}}}))
			}
		}
		for _, x := range declared {
			X := c07V(x)
			for _, y := range declared {
				if x != y {
					add(fmt.Sprintf("%s = %s", x, y), nil, c07S(zn.Assign{Target: X, Val: c07V(y)}))
					add(fmt.Sprintf("%s之P = %s", x, y), nil, c07S(zn.Assign{Target: zn.Member{Root: X, Name: "P"}, Val: c07V(y)}))
					// the two assignable list properties store a copy like every other target
					add(fmt.Sprintf("%s之首项 = %s", x, y), nil, c07S(zn.Assign{Target: zn.Member{Root: X, Name: "首项"}, Val: c07V(y)}))
					add(fmt.Sprintf("%s#1之末项 = %s", x, y), nil, c07S(zn.Assign{Target: zn.Member{Root: c07Idx(X, one), Name: "末项"}, Val: c07V(y)}))
				}
				add(fmt.Sprintf("%s#1 = %s", x, y), nil, c07S(zn.Assign{Target: c07Idx(X, one), Val: c07V(y)}))
				add(fmt.Sprintf("%s#“K” = %s", x, y), nil, c07S(zn.Assign{Target: c07Idx(X, kk), Val: c07V(y)}))
			}
			add(fmt.Sprintf("%s#1#1 = n", x), nil, c07S(zn.Assign{Target: c07Idx(c07Idx(X, one), one), Val: n}))
			add(fmt.Sprintf("%s#“K” = n", x), nil, c07S(zn.Assign{Target: c07Idx(X, kk), Val: n}))
			add(fmt.Sprintf("%s#1#“K” = n", x), nil, c07S(zn.Assign{Target: c07Idx(c07Idx(X, one), kk), Val: n}))
			add(fmt.Sprintf("%s#“K”#1 = n", x), nil, c07S(zn.Assign{Target: c07Idx(c07Idx(X, kk), one), Val: n}))
			// numbers are changed in place by 自增: a copy must not share its number items
			add(fmt.Sprintf("以%s#1（自增：n）", x), nil, c07S(c07M(c07Idx(X, one), "自增", n)))
			add(fmt.Sprintf("以%s#1#1（自增：n）", x), nil, c07S(c07M(c07Idx(c07Idx(X, one), one), "自增", n)))
			add(fmt.Sprintf("以%s#“K”#1（自增：n）", x), nil, c07S(c07M(c07Idx(c07Idx(X, kk), one), "自增", n)))
			// plain assignment from a call that returns an EXISTING collection (a mutating method
			// returns its receiver): the assigned name still gets its own copy
			for _, y := range declared {
				if y != x {
					add(fmt.Sprintf("%s = 以%s（后增：n）", x, y), nil, c07S(zn.Assign{Target: X, Val: c07M(c07V(y), "后增", n)}))
					add(fmt.Sprintf("%s = 以%s（读取：“K”）", x, y), nil, c07S(zn.Assign{Target: X, Val: c07M(c07V(y), "读取", kk)}))
					add(fmt.Sprintf("%s = （原样：%s）", x, y), nil, c07S(zn.Assign{Target: X, Val: zn.Call{Name: "原样", Args: []zn.Expr{c07V(y)}}}))
					add(fmt.Sprintf("%s = （头：%s）", x, y), nil, c07S(zn.Assign{Target: X, Val: zn.Call{Name: "头", Args: []zn.Expr{c07V(y)}}}))
					add(fmt.Sprintf("%s#1 = （原样：%s）", x, y), nil, c07S(zn.Assign{Target: c07Idx(X, one), Val: zn.Call{Name: "原样", Args: []zn.Expr{c07V(y)}}}))
				}
			}
			add(fmt.Sprintf("以%s（后增：n）", x), nil, c07S(c07M(X, "后增", n)))
			add(fmt.Sprintf("以%s（前增：n）", x), nil, c07S(c07M(X, "前增", n)))
			add(fmt.Sprintf("以%s#1（后增：n）", x), nil, c07S(c07M(c07Idx(X, one), "后增", n)))
			add(fmt.Sprintf("以%s#“K”（后增：n）", x), nil, c07S(c07M(c07Idx(X, kk), "后增", n)))
			add(fmt.Sprintf("以%s（左移）", x), nil, c07S(c07M(X, "左移")))
			add(fmt.Sprintf("以%s（右移）", x), nil, c07S(c07M(X, "右移")))
			add(fmt.Sprintf("以%s（移除：“K”）", x), nil, c07S(c07M(X, "移除", kk)))
			add(fmt.Sprintf("以%s（合并：【n】）", x), nil, c07S(c07M(X, "合并", zn.List{Items: []zn.Expr{n}})))
			add(fmt.Sprintf("以%s（改：n）", x), nil, c07S(c07M(X, "改", n)))
			add(fmt.Sprintf("以%s（设：n）", x), nil, c07S(c07M(X, "设", n)))
			add(fmt.Sprintf("%s之N = n", x), nil, c07S(zn.Assign{Target: zn.Member{Root: X, Name: "N"}, Val: n}))
			add(fmt.Sprintf("以%s之P（后增：n）", x), nil, c07S(c07M(zn.Member{Root: X, Name: "P"}, "后增", n)))
		}
		return ops
	}
	sp.Probes = func(declared []string, rf *zn.Ref) []histOp {
		var out []histOp
		mark := zn.Num{Lit: "777"}
		var walk func(label string, e zn.Expr, v zn.V, depth int)
		walk = func(label string, e zn.Expr, v zn.V, depth int) {
			switch x := v.(type) {
			case *zn.LV:
				out = append(out, histOp{Label: "probe 以" + label + "（后增：777）", Stmts: c07S(c07M(e, "后增", mark))})
				if len(x.Items) > 0 {
					out = append(out, histOp{Label: "probe " + label + "#1 = 777", Stmts: c07S(zn.Assign{Target: c07Idx(e, zn.Num{Lit: "1"}), Val: mark})})
					if depth < 2 {
						walk(label+"#1", c07Idx(e, zn.Num{Lit: "1"}), x.Items[0], depth+1)
					}
				}
			case *zn.DV:
				out = append(out, histOp{Label: "probe " + label + "#“探” = 777", Stmts: c07S(zn.Assign{Target: c07Idx(e, zn.Str{Val: "探"}), Val: mark})})
				if depth < 2 {
					for _, k := range x.Keys {
						walk(label+"#“"+k+"”", c07Idx(e, zn.Str{Val: k}), x.M[k], depth+1)
						break
					}
				}
			case *zn.OV:
				out = append(out, histOp{Label: "probe 以" + label + "（改：777）", Stmts: c07S(c07M(e, "改", mark))})
				out = append(out, histOp{Label: "probe " + label + "之N = 777", Stmts: c07S(zn.Assign{Target: zn.Member{Root: e, Name: "N"}, Val: mark})})
			}
		}
		for _, n := range declared {
			if v, ok := rf.TopVar(n); ok {
				walk(n, c07V(n), v, 0)
			}
		}
		return out
	}
	return sp
}

// literal freshness: a literal evaluates to a fresh value each time it is executed
func c07Literals(c *mc.Ctx, sp *histSpec) {
	one, two := zn.Num{Lit: "1"}, zn.Num{Lit: "2"}
	lits := []zn.Expr{
		zn.List{Items: []zn.Expr{one, two}},
		zn.Dict{Pairs: []zn.DictPair{{Key: "K", Val: one}}},
		zn.List{Items: []zn.Expr{zn.List{Items: []zn.Expr{one}}}},
	}
	muts := []func(x zn.Expr) zn.Stmt{
		func(x zn.Expr) zn.Stmt { return zn.ExprStmt{E: c07M(x, "后增", zn.Num{Lit: "9"})} },
		func(x zn.Expr) zn.Stmt {
			return zn.ExprStmt{E: zn.Assign{Target: c07Idx(x, zn.Str{Val: "Z"}), Val: zn.Num{Lit: "9"}}}
		},
		func(x zn.Expr) zn.Stmt { return zn.ExprStmt{E: c07M(c07Idx(x, one), "后增", zn.Num{Lit: "9"})} },
		func(x zn.Expr) zn.Stmt {
			return zn.ExprStmt{E: zn.Assign{Target: c07Idx(x, one), Val: zn.Num{Lit: "9"}}}
		},
	}
	// a number literal: numbers are changed in place by 自增
	lits = append(lits, zn.Num{Lit: "0"}, zn.List{Items: []zn.Expr{zn.Num{Lit: "0"}}})
	muts = append(muts,
		func(x zn.Expr) zn.Stmt { return zn.ExprStmt{E: c07M(x, "自增", zn.Num{Lit: "5"})} },
		func(x zn.Expr) zn.Stmt { return zn.ExprStmt{E: c07M(c07Idx(x, one), "自增", zn.Num{Lit: "5"})} },
	)
	idx := int64(1 << 50)
	for li, lit := range lits {
		for mi, mut := range muts {
			for ctx := 0; ctx < 9; ctx++ {
				idx++
				if !c.Mine(idx) {
					continue
				}
				var body []zn.Stmt
				show := func(e zn.Expr) zn.Stmt { return zn.ExprStmt{E: zn.Call{Name: "显示", Args: []zn.Expr{e}}} }
				switch ctx {
				case 0: // method called twice
					f := zn.Func{Name: "F", Body: []zn.Stmt{zn.Decl{Pairs: []zn.DeclPair{{Names: []string{"L"}, Val: lit}}}, mut(c07V("L")), zn.Return{Val: c07V("L")}}}
					body = []zn.Stmt{f, show(zn.Call{Name: "F"}), show(zn.Call{Name: "F"})}
				case 1: // loop body executed twice, literal bound to a fresh name in each pass
					body = []zn.Stmt{
						zn.Decl{Pairs: []zn.DeclPair{{Names: []string{"I"}, Val: zn.Num{Lit: "0"}}}},
						zn.While{Cond: zn.Bin{Op: "<", L: c07V("I"), R: two}, Body: []zn.Stmt{
							zn.ExprStmt{E: zn.Assign{Target: c07V("I"), Val: zn.Bin{Op: "+", L: c07V("I"), R: one}}},
							zn.Decl{Pairs: []zn.DeclPair{{Names: []string{"L"}, Val: lit}}}, mut(c07V("L")), show(c07V("L"))}},
					}
				case 2: // mutate the literal's value directly through a method-call root, twice
					f := zn.Func{Name: "G", Body: []zn.Stmt{zn.Return{Val: lit}}}
					body = []zn.Stmt{f,
						zn.Decl{Pairs: []zn.DeclPair{{Names: []string{"X"}, Val: zn.Call{Name: "G"}}}}, mut(c07V("X")), show(c07V("X")),
						zn.Decl{Pairs: []zn.DeclPair{{Names: []string{"Y"}, Val: zn.Call{Name: "G"}}}}, show(c07V("Y"))}
				case 3: // the value a method returns is changed without ever being bound; the next call must not see it
					f := zn.Func{Name: "G", Body: []zn.Stmt{zn.Return{Val: lit}}}
					body = []zn.Stmt{f, mut(zn.Call{Name: "G"}), mut(zn.Call{Name: "G"}), show(zn.Call{Name: "G"})}
				default:
					// ctx 4..8: ONE literal site executed three times, each value stored WITHOUT a copy
					// (appended, passed to a method that appends it), one stored value changed in
					// place (after the loop / right after the first pass), all observed
					total := c07V("总")
					first := c07Idx(total, one)
					var use zn.Stmt
					var pre []zn.Stmt
					switch ctx {
					case 4, 5:
						use = zn.ExprStmt{E: c07M(total, "后增", lit)}
					case 6, 7:
						pre = []zn.Stmt{zn.Func{Name: "存", Params: []string{"项"}, Body: []zn.Stmt{zn.ExprStmt{E: c07M(total, "后增", c07V("项"))}}}}
						use = zn.ExprStmt{E: zn.Call{Name: "存", Args: []zn.Expr{lit}}}
					default:
						pre = []zn.Stmt{zn.Func{Name: "G", Body: []zn.Stmt{zn.Return{Val: lit}}}}
						use = zn.ExprStmt{E: c07M(total, "后增", zn.Call{Name: "G"})}
					}
					loop := []zn.Stmt{zn.ExprStmt{E: zn.Assign{Target: c07V("I"), Val: zn.Bin{Op: "+", L: c07V("I"), R: one}}}, use}
					var after []zn.Stmt
					if ctx == 5 || ctx == 7 {
						loop = append(loop, zn.If{Cond: zn.Bin{Op: "==", L: c07V("I"), R: one}, Then: []zn.Stmt{mut(first)}})
					} else {
						after = []zn.Stmt{mut(first)}
					}
					body = []zn.Stmt{zn.Decl{Pairs: []zn.DeclPair{{Names: []string{"总"}, Val: zn.List{}}}}}
					body = append(body, pre...)
					body = append(body, zn.Decl{Pairs: []zn.DeclPair{{Names: []string{"I"}, Val: zn.Num{Lit: "0"}}}},
						zn.While{Cond: zn.Bin{Op: "<", L: c07V("I"), R: zn.Num{Lit: "3"}}, Body: loop})
					body = append(body, after...)
					body = append(body, show(total))
				}
				prog := &zn.Program{Body: body}
				src := zn.Render(prog, nil)
				c.Case(idx, func() json.RawMessage { return mc.J(histCase{Part: "literal", Source: src}) })
				f, _, _, open := sp.compare("literal", prog, src, []string{fmt.Sprintf("literal %d mutation %d context %d", li, mi, ctx)})
				if open {
					continue
				}
				c.Eval(true)
				c.Stat("literal_freshness_programs", 1)
				if f != nil {
					c.Fail(*f)
				}
			}
		}
	}
}

// c07Deep: a value nested d levels deep (built by a loop, lists or dictionaries inside one
// another) is copied by declaration and by assignment; the innermost list is then changed
// through the original by an index chain of length d, and read through all three names.
func c07Deep(c *mc.Ctx, sp *histSpec, maxD int) {
	one, zero := zn.Num{Lit: "1"}, zn.Num{Lit: "0"}
	idx := int64(1 << 51)
	for kind := 0; kind < 2; kind++ {
		for d := 1; d <= maxD; d++ {
			idx++
			if !c.Mine(idx) {
				continue
			}
			wrap := zn.Expr(zn.List{Items: []zn.Expr{c07V("L")}})
			step := zn.Expr(one)
			if kind == 1 {
				wrap = zn.Dict{Pairs: []zn.DictPair{{Key: "K", Val: c07V("L")}}}
				step = zn.Str{Val: "K"}
			}
			chain := func(name string) zn.Expr {
				e := zn.Expr(c07V(name))
				for i := 0; i < d; i++ {
					e = c07Idx(e, step)
				}
				return e
			}
			show := func(es ...zn.Expr) zn.Stmt { return zn.ExprStmt{E: zn.Call{Name: "显示", Args: es}} }
			body := []zn.Stmt{
				zn.Decl{Pairs: []zn.DeclPair{{Names: []string{"L"}, Val: zn.List{Items: []zn.Expr{zero}}}}},
				zn.Decl{Pairs: []zn.DeclPair{{Names: []string{"I"}, Val: zero}}},
				zn.While{Cond: zn.Bin{Op: "<", L: c07V("I"), R: zn.Num{Lit: fmt.Sprint(d)}}, Body: []zn.Stmt{
					zn.ExprStmt{E: zn.Assign{Target: c07V("L"), Val: wrap}},
					zn.ExprStmt{E: zn.Assign{Target: c07V("I"), Val: zn.Bin{Op: "+", L: c07V("I"), R: one}}}}},
				zn.Decl{Pairs: []zn.DeclPair{{Names: []string{"M"}, Val: c07V("L")}}},
				zn.Decl{Pairs: []zn.DeclPair{{Names: []string{"P"}, Val: zn.List{}}}},
				zn.ExprStmt{E: zn.Assign{Target: c07V("P"), Val: c07V("L")}},
				zn.ExprStmt{E: c07M(chain("L"), "后增", zn.Num{Lit: "7"})},
				show(zn.Member{Root: chain("L"), Name: "长度"}, zn.Member{Root: chain("M"), Name: "长度"}, zn.Member{Root: chain("P"), Name: "长度"}),
				zn.ExprStmt{E: zn.Assign{Target: c07Idx(chain("M"), one), Val: zn.Num{Lit: "5"}}},
				show(c07Idx(chain("L"), one), c07Idx(chain("M"), one), c07Idx(chain("P"), one)),
			}
			prog := &zn.Program{Body: body}
			src := zn.Render(prog, nil)
			c.Case(idx, func() json.RawMessage { return mc.J(histCase{Part: "deep", Source: src}) })
			f, _, _, open := sp.compare("deep", prog, src, []string{fmt.Sprintf("nesting depth %d kind %d", d, kind)})
			if open {
				continue
			}
			c.Eval(true)
			c.Stat("deep_value_programs", 1)
			if f != nil {
				c.Fail(*f)
			}
		}
	}
	c.Bound("deep_value_nesting", fmt.Sprintf("complete: every depth 1..%d, lists in lists and dictionaries in dictionaries", maxD))
}

func init() {
	sp := c07Spec()
	mc.Register(&mc.Check{
		ID:    "C07",
		Level: "model_checking",
		Rule:  "E2: breadth-first search over operation histories on names A B C starting from 5 initial values (nested list, dictionary of list, list of dictionary, object with a list property, object of a type whose constructor leaves the list property alone and hands the object to a global holder that is observed with the names); operations: 令X = Y, 令X恒为Y, 令X恒为Y#1, 令X、Z恒为Y, 令X = 【Y，9】, X = 【Y，9】, X#“K” = 【K=Y】, 令X = Y之P, 令X = Y#1, 令X、Z = Y, X = Y, X之P = Y, X#1 = Y, X#“K” = Y, element / key / nested assignments, in-place 自增 of (nested) number items, X = 以Y（后增：n） and X = 以Y（读取：“K”） (assignment from a call that returns an existing collection), 令X = （原样：Y） 令X、Z = （原样：Y） 令X = （头：Y） 令X = 【（原样：Y）】 X = （原样：Y） X = （头：Y） X#1 = （原样：Y） (direct calls of program-defined methods that hand back their input or an item of it), 后增 前增 左移 右移 移除 合并 at top and nested level, object methods and property writes; every successor is produced by re-running the whole history on a fresh real interpreter; all live names are observed structurally after every operation and compared with the reference (heap of trees, pointers only for objects); after every transition a probe battery mutates every container position reachable from every name and observes all names. States are merged on the reference state (values + object identity structure). Plus the literal-freshness programs: 5 literals (list, dictionary, nested list, a number, a list of a number) x 6 in-place changes x 9 contexts (bound in a method called twice, bound in a loop body, returned by a method and bound, returned and changed without being bound, one literal site executed three times with every value stored WITHOUT a copy - appended / passed to a method that appends it / returned by a method and appended - and one stored value changed after the loop or right after the first pass). Plus deep values: for every nesting depth d = 1..300 (1000 thorough), lists in lists and dictionaries in dictionaries built by a loop, copied by declaration and by assignment, the innermost list changed through the original (and an item through a copy) by an index chain of length d and read through all three names.",
		Assumptions: []string{
			"list/dictionary values passed as method arguments or bound by 得到 / loop variables are by-reference today and unspecified: method arguments are fresh scalars or literals only",
			"histories are merged on the reference state only for generating successors; the probe battery (mutate through each name at each position, observe all) runs after every transition, also one that reaches a reference state seen before",
			"histories longer than the bound are not covered",
		},
		Budget: func(tier string) time.Duration {
			if tier == "thorough" {
				return 20 * time.Minute
			}
			return 240 * time.Second
		},
		Run: func(c *mc.Ctx) {
			n := 4
			if c.Tier == "thorough" {
				n = 5
			}
			sp.explore(c, n)
			c07Literals(c, sp)
			if c.Tier == "thorough" {
				c07Deep(c, sp, 1000)
			} else {
				c07Deep(c, sp, 300)
			}
		},
		Replay: func(c *mc.Ctx, raw json.RawMessage) { sp.replay(c, raw) },
	})
}
