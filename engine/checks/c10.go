package checks

// C10 — no program can crash the host process.
//
// E1, exhaustive over tables.  The member tables (method / getter / setter
// names of every built-in type, the properties of the HTTP classes, the
// registered library functions, the predefined names, the type strings of the
// argument guards) are read from the CURRENT source with go/parser, so a member
// added later is covered without touching this file.  Four seams:
//
//	direct    receiver.ExecMethod / GetProperty / SetProperty, library and
//	          predefined functions (Function.Exec), constructors (Construct)
//	          on a fresh boundary receiver, every argument tuple of the pool;
//	guards    the exported argument guards the library code relies on
//	          (Validate{Exact,Least,All}Params, AssertElement, ...);
//	program   one-call programs run end to end through Interpreter.Execute,
//	          every value supplied through 输入, result bound and returned;
//	varinput  exec.ExecVarInputText on every text of a small grammar.
//
// Oracle: a value (non-nil Element, no nil inside) or an error through the
// normal channel.  Never a Go panic, never (nil, nil), never a dead worker.

import (
	"encoding/json"
	"fmt"
	"go/ast"
	"go/parser"
	"go/token"
	"math"
	"os"
	"path/filepath"
	"reflect"
	"regexp"
	"runtime"
	"runtime/debug"
	"sort"
	"strconv"
	"strings"
	"time"

	"github.com/DemoHn/Zn/pkg/common"
	"github.com/DemoHn/Zn/pkg/exec"
	r "github.com/DemoHn/Zn/pkg/runtime"
	"github.com/DemoHn/Zn/pkg/value"

	"verif/engine/mc"
	"verif/engine/zn"
)

// ------------------------------------------------------------------ inventory

type c10Inventory struct {
	Methods    map[string][]string `json:"methods"`     // Go type name -> ExecMethod names
	Getters    map[string][]string `json:"getters"`     // Go type name -> GetProperty names
	Setters    map[string][]string `json:"setters"`     // Go type name -> SetProperty names
	ClassProps map[string][]string `json:"class_props"` // class name (pkg/common) -> defined member names
	LibFuncs   map[string][]string `json:"lib_funcs"`   // stdlib directory -> registered names
	Skipped    []string            `json:"skipped_libs"`
	Globals    []string            `json:"globals"`
	GuardTypes []string            `json:"guard_types"`
	Fallback   bool                `json:"fallback"`
	Problems   []string            `json:"problems,omitempty"`
	Root       string              `json:"source_root"`
}

// c10Fallback is only used when the source cannot be parsed; the run is then
// reported inexhaustive.
func c10Fallback() *c10Inventory {
	return &c10Inventory{
		Methods: map[string][]string{
			"Array":   {"新增", "添加", "前增", "后增", "左移", "右移", "拼接", "合并", "包含", "寻找", "交换"},
			"HashMap": {"读取", "写入", "移除"},
			"String":  {"替换", "分隔", "匹配", "匹配开头", "匹配结尾", "取样", "去除空格", "转小写-英文", "转大写-英文", "拼接", "格式化", "转换数值"},
			"Number":  {"加", "减", "乘", "除", "自增", "自减", "向下取整", "向上取整"},
		},
		Getters: map[string][]string{
			"Array":     {"文本", "首项", "末项", "数目", "长度", "逆序"},
			"HashMap":   {"数目", "长度", "所有索引", "所有值"},
			"String":    {"长度", "字数", "文本", "字符组"},
			"Number":    {"文本", "平方", "立方", "平方根"},
			"Bool":      {"文本"},
			"Exception": {"内容"},
			"Object":    {"自身"},
		},
		Setters:    map[string][]string{"Array": {"首项", "末项"}},
		ClassProps: map[string][]string{"HTTP请求": {"URL", "路径", "方法", "头部", "查询参数", "内容"}, "HTTP响应": {"状态码", "头部", "内容"}},
		LibFuncs:   map[string][]string{"json": {"解析JSON", "生成JSON"}, "file": {"读取文件", "写入文件", "读取目录"}},
		Globals:    []string{"真", "假", "空", "异常", "显示", "取随机数", "数值"},
		GuardTypes: []string{"number", "string", "array", "hashmap", "bool", "object", "function", "govalue", "any", "golang:tag"},
		Fallback:   true,
	}
}

// c10RepoRoot finds the source tree the binary was built from (it follows the
// module's replace directive), falling back to /repo.
func c10RepoRoot() string {
	if f := runtime.FuncForPC(reflect.ValueOf(value.NewNull).Pointer()); f != nil {
		file, _ := f.FileLine(f.Entry())
		root := filepath.Dir(filepath.Dir(filepath.Dir(file)))
		if st, err := os.Stat(filepath.Join(root, "pkg", "value")); err == nil && st.IsDir() {
			return root
		}
	}
	return "/repo"
}

func c10Unq(e ast.Expr) (string, bool) {
	if b, ok := e.(*ast.BasicLit); ok && b.Kind == token.STRING {
		if s, err := strconv.Unquote(b.Value); err == nil {
			return s, true
		}
	}
	return "", false
}

func c10AddUniq(m map[string][]string, k, v string) {
	for _, x := range m[k] {
		if x == v {
			return
		}
	}
	m[k] = append(m[k], v)
}

func c10GoFiles(dir string) ([]string, error) {
	ents, err := os.ReadDir(dir)
	if err != nil {
		return nil, err
	}
	var out []string
	for _, e := range ents {
		n := e.Name()
		if !e.IsDir() && strings.HasSuffix(n, ".go") && !strings.HasSuffix(n, "_test.go") {
			out = append(out, filepath.Join(dir, n))
		}
	}
	sort.Strings(out)
	return out, nil
}

// c10StringKeys collects, inside one function body, every string key of a
// map[string]... literal, every string case label and every string compared
// with == (the three ways the source dispatches on a member name).
func c10StringKeys(body ast.Node) []string {
	var out []string
	seen := map[string]bool{}
	add := func(s string) {
		if !seen[s] {
			seen[s] = true
			out = append(out, s)
		}
	}
	ast.Inspect(body, func(n ast.Node) bool {
		switch x := n.(type) {
		case *ast.CompositeLit:
			if mt, ok := x.Type.(*ast.MapType); ok {
				if id, ok := mt.Key.(*ast.Ident); ok && id.Name == "string" {
					for _, el := range x.Elts {
						if kv, ok := el.(*ast.KeyValueExpr); ok {
							if s, ok := c10Unq(kv.Key); ok {
								add(s)
							}
						}
					}
				}
			}
		case *ast.CaseClause:
			for _, e := range x.List {
				if s, ok := c10Unq(e); ok {
					add(s)
				}
			}
		case *ast.BinaryExpr:
			if x.Op == token.EQL {
				if s, ok := c10Unq(x.Y); ok {
					add(s)
				} else if s, ok := c10Unq(x.X); ok {
					add(s)
				}
			}
		}
		return true
	})
	return out
}

func c10ScanSource(root string) (inv *c10Inventory, err error) {
	defer func() {
		if p := recover(); p != nil {
			err = fmt.Errorf("source scan panicked: %v", p)
		}
	}()
	inv = &c10Inventory{Methods: map[string][]string{}, Getters: map[string][]string{}, Setters: map[string][]string{},
		ClassProps: map[string][]string{}, LibFuncs: map[string][]string{}, Root: root}
	fset := token.NewFileSet()
	parse := func(path string) (*ast.File, error) {
		return parser.ParseFile(fset, path, nil, parser.SkipObjectResolution)
	}

	// ---- pkg/value: GetProperty / SetProperty / ExecMethod of every type; guard type strings
	files, err := c10GoFiles(filepath.Join(root, "pkg", "value"))
	if err != nil {
		return nil, err
	}
	types := map[string]bool{}
	for _, p := range files {
		f, err := parse(p)
		if err != nil {
			return nil, err
		}
		for _, d := range f.Decls {
			fd, ok := d.(*ast.FuncDecl)
			if !ok || fd.Body == nil {
				continue
			}
			if fd.Recv == nil {
				if fd.Name.Name == "validateOneParam" {
					for _, s := range c10StringKeys(fd.Body) {
						if strings.HasSuffix(s, ":") {
							s += "tag"
						}
						inv.GuardTypes = append(inv.GuardTypes, s)
					}
					// string literals passed to strings.HasPrefix (the "golang:" family)
					ast.Inspect(fd.Body, func(n ast.Node) bool {
						if ce, ok := n.(*ast.CallExpr); ok {
							if se, ok := ce.Fun.(*ast.SelectorExpr); ok && se.Sel.Name == "HasPrefix" && len(ce.Args) == 2 {
								if s, ok := c10Unq(ce.Args[1]); ok {
									t := s + "tag"
									dup := false
									for _, g := range inv.GuardTypes {
										dup = dup || g == t
									}
									if !dup {
										inv.GuardTypes = append(inv.GuardTypes, t)
									}
								}
							}
						}
						return true
					})
				}
				continue
			}
			if len(fd.Recv.List) != 1 {
				continue
			}
			var tn string
			switch t := fd.Recv.List[0].Type.(type) {
			case *ast.StarExpr:
				if id, ok := t.X.(*ast.Ident); ok {
					tn = id.Name
				}
			case *ast.Ident:
				tn = t.Name
			}
			if tn == "" {
				continue
			}
			var dst map[string][]string
			switch fd.Name.Name {
			case "GetProperty":
				dst = inv.Getters
			case "SetProperty":
				dst = inv.Setters
			case "ExecMethod":
				dst = inv.Methods
			default:
				continue
			}
			types[tn] = true
			for _, s := range c10StringKeys(fd.Body) {
				c10AddUniq(dst, tn, s)
			}
		}
	}
	for tn := range types {
		if _, ok := c10Receivers[tn]; !ok {
			inv.Problems = append(inv.Problems, "type "+tn+" implements the member interface but the harness has no receiver for it")
		}
	}
	if len(types) == 0 {
		return nil, fmt.Errorf("no GetProperty/SetProperty/ExecMethod found under %s/pkg/value", root)
	}

	// ---- pkg/common: members defined on the classes
	files, err = c10GoFiles(filepath.Join(root, "pkg", "common"))
	if err != nil {
		return nil, err
	}
	for _, p := range files {
		f, err := parse(p)
		if err != nil {
			return nil, err
		}
		ast.Inspect(f, func(n ast.Node) bool {
			ce, ok := n.(*ast.CallExpr)
			if !ok {
				return true
			}
			se, ok := ce.Fun.(*ast.SelectorExpr)
			if !ok || len(ce.Args) == 0 {
				return true
			}
			switch se.Sel.Name {
			case "DefineProperty", "DefineMethod", "DefineCompProperty":
			default:
				return true
			}
			member, ok := c10Unq(ce.Args[0])
			if !ok {
				return true
			}
			// walk the call chain down to value.NewClassModel("name")
			cur := se.X
			for {
				c2, ok := cur.(*ast.CallExpr)
				if !ok {
					break
				}
				s2, ok := c2.Fun.(*ast.SelectorExpr)
				if !ok {
					break
				}
				if s2.Sel.Name == "NewClassModel" && len(c2.Args) == 1 {
					if cn, ok := c10Unq(c2.Args[0]); ok {
						c10AddUniq(inv.ClassProps, cn, member)
					}
					break
				}
				cur = s2.X
			}
			return true
		})
	}

	// ---- stdlib/*: registered functions and classes
	ents, err := os.ReadDir(filepath.Join(root, "stdlib"))
	if err != nil {
		return nil, err
	}
	for _, e := range ents {
		if !e.IsDir() {
			continue
		}
		dir := e.Name()
		if dir != "json" && dir != "file" {
			inv.Skipped = append(inv.Skipped, dir)
			continue
		}
		files, err := c10GoFiles(filepath.Join(root, "stdlib", dir))
		if err != nil {
			return nil, err
		}
		for _, p := range files {
			f, err := parse(p)
			if err != nil {
				return nil, err
			}
			ast.Inspect(f, func(n ast.Node) bool {
				if ce, ok := n.(*ast.CallExpr); ok {
					if se, ok := ce.Fun.(*ast.SelectorExpr); ok && (se.Sel.Name == "RegisterFunction" || se.Sel.Name == "RegisterClass") && len(ce.Args) >= 1 {
						if s, ok := c10Unq(ce.Args[0]); ok {
							c10AddUniq(inv.LibFuncs, dir, s)
						}
					}
				}
				return true
			})
		}
	}

	// ---- pkg/exec/globals.go: keys of globalValues
	f, err := parse(filepath.Join(root, "pkg", "exec", "globals.go"))
	if err != nil {
		return nil, err
	}
	ast.Inspect(f, func(n ast.Node) bool {
		var lhs []ast.Expr
		var rhs []ast.Expr
		switch x := n.(type) {
		case *ast.AssignStmt:
			lhs, rhs = x.Lhs, x.Rhs
		case *ast.ValueSpec:
			for _, id := range x.Names {
				lhs = append(lhs, id)
			}
			rhs = x.Values
		default:
			return true
		}
		for i, l := range lhs {
			if id, ok := l.(*ast.Ident); ok && id.Name == "globalValues" && i < len(rhs) {
				if cl, ok := rhs[i].(*ast.CompositeLit); ok {
					for _, el := range cl.Elts {
						if kv, ok := el.(*ast.KeyValueExpr); ok {
							if s, ok := c10Unq(kv.Key); ok {
								inv.Globals = append(inv.Globals, s)
							}
						}
					}
				}
			}
		}
		return true
	})
	if len(inv.Globals) == 0 {
		return nil, fmt.Errorf("globalValues literal not found in pkg/exec/globals.go")
	}
	if len(inv.GuardTypes) == 0 {
		return nil, fmt.Errorf("validateOneParam type strings not found")
	}
	for _, m := range []map[string][]string{inv.Methods, inv.Getters, inv.Setters, inv.ClassProps, inv.LibFuncs} {
		for k := range m {
			sort.Strings(m[k])
		}
	}
	// cross-check with what is registered at run time
	for _, g := range inv.Globals {
		if _, ok := exec.GlobalValues[g]; !ok {
			inv.Problems = append(inv.Problems, "predefined name "+g+" is in the source but not in exec.GlobalValues")
		}
	}
	for g := range exec.GlobalValues {
		found := false
		for _, s := range inv.Globals {
			found = found || s == g
		}
		if !found {
			inv.Problems = append(inv.Problems, "predefined name "+g+" is registered but was not found in the source")
			inv.Globals = append(inv.Globals, g)
		}
	}
	for dir, names := range inv.LibFuncs {
		for _, n := range names {
			if lib, _ := c10FindLib(n); lib == "" {
				inv.Problems = append(inv.Problems, "library member "+n+" (stdlib/"+dir+") is not exported by any registered library")
			}
		}
	}
	for _, lib := range zn.Libs() {
		for n := range lib.GetAllExportValues() {
			found := false
			for _, names := range inv.LibFuncs {
				for _, s := range names {
					found = found || s == n
				}
			}
			if !found {
				inv.Problems = append(inv.Problems, "library member "+n+" of "+lib.GetName()+" is exported but was not found in the source")
				c10AddUniq(inv.LibFuncs, lib.GetName(), n)
			}
		}
	}
	for cn := range inv.ClassProps {
		if c10RuntimeClass(cn) == nil {
			inv.Problems = append(inv.Problems, "class "+cn+" of pkg/common has no run-time value known to the harness")
		}
	}
	return inv, nil
}

func c10LoadInventory() *c10Inventory {
	root := c10RepoRoot()
	inv, err := c10ScanSource(root)
	if err != nil {
		fb := c10Fallback()
		fb.Root = root
		fb.Problems = append(fb.Problems, "source scan failed, built-in member list used: "+err.Error())
		return fb
	}
	return inv
}

func c10FindLib(member string) (string, r.Element) {
	for _, lib := range zn.Libs() {
		if v, ok := lib.GetAllExportValues()[member]; ok {
			return lib.GetName(), v
		}
	}
	return "", nil
}

func c10RuntimeClass(name string) *value.ClassModel {
	for _, c := range []*value.ClassModel{common.CLASS_HttpRequest, common.CLASS_HttpResponse} {
		if c != nil && c.GetName() == name {
			return c
		}
	}
	return nil
}

// ------------------------------------------------------------------ values

// c10Env owns the scratch directory the file library is confined to.
type c10Env struct {
	scratch  string
	existing string
	missing  string
	nodir    string
	devnull  *os.File
}

func c10NewEnv() *c10Env {
	e := &c10Env{}
	dir, err := os.MkdirTemp("", "zn-c10-")
	if err != nil {
		panic("C10: cannot create scratch directory: " + err.Error())
	}
	e.scratch = dir
	e.existing = filepath.Join(dir, "a.txt")
	e.missing = filepath.Join(dir, "你好-不存在.txt")
	e.nodir = filepath.Join(dir, "无此目录", "x.txt")
	_ = os.WriteFile(e.existing, []byte("文本 a\n"), 0o644)
	_ = os.Mkdir(filepath.Join(dir, "子目录"), 0o755)
	e.devnull, _ = os.OpenFile(os.DevNull, os.O_WRONLY, 0)
	return e
}

func (e *c10Env) close() {
	if e.devnull != nil {
		e.devnull.Close()
	}
	if e.scratch != "" && strings.Contains(filepath.Base(e.scratch), "zn-c10-") {
		_ = os.RemoveAll(e.scratch)
	}
}

// resetFiles puts the scratch directory back after a case that may have written.
func (e *c10Env) resetFiles() {
	_ = os.Remove(e.missing)
	_ = os.WriteFile(e.existing, []byte("文本 a\n"), 0o644)
}

// filePath maps a pool text to a path inside the scratch directory.
func (e *c10Env) filePath(s string) string {
	switch s {
	case "":
		return e.scratch // a directory
	case "a":
		return e.existing
	case "你好":
		return e.missing
	}
	return e.nodir // parent directory does not exist
}

type c10PV struct {
	Name string
	Kind string // num text bool null list dict obj fn type gov
	Num  float64
	Text string
	Prog string // name inside a generated program (obj / fn / type come from the prelude)
	Len  int
}

var c10Pool = []c10PV{
	{Name: "0", Kind: "num", Num: 0},
	{Name: "1", Kind: "num", Num: 1},
	{Name: "-1", Kind: "num", Num: -1},
	{Name: "2", Kind: "num", Num: 2},
	{Name: "0.5", Kind: "num", Num: 0.5},
	{Name: "-10", Kind: "num", Num: -10},
	{Name: "1e18", Kind: "num", Num: 1e18},
	{Name: "-1e18", Kind: "num", Num: -1e18},
	{Name: "NaN", Kind: "num", Num: math.NaN()},
	{Name: "+Inf", Kind: "num", Num: math.Inf(1)},
	{Name: "-Inf", Kind: "num", Num: math.Inf(-1)},
	{Name: "“”", Kind: "text", Text: ""},
	{Name: "“a”", Kind: "text", Text: "a"},
	{Name: "“你好”", Kind: "text", Text: "你好"},
	{Name: "“{}”", Kind: "text", Text: "{}"},
	{Name: "真", Kind: "bool"},
	{Name: "空", Kind: "null"},
	{Name: "【】", Kind: "list", Len: 0},
	{Name: "【1，2，3】", Kind: "list", Len: 3},
	{Name: "【=】", Kind: "dict", Len: 0},
	{Name: "【K=1】", Kind: "dict", Len: 1},
	{Name: "‹对象·T›", Kind: "obj", Prog: "物"},
	{Name: "‹方法F›", Kind: "fn", Prog: "F"},
	{Name: "‹类型T›", Kind: "type", Prog: "T"},
	// only used by the guards seam (not producible by a program):
	{Name: "GoValue(tag)", Kind: "gov", Text: "tag"},
	{Name: "GoValue(other)", Kind: "gov", Text: "other"},
}

const c10PoolN = 24 // pool proper; the two GoValue entries are guards-only

// c10SubPool: the 6-value sub-pool of the deepest arity.
var c10SubPool = []int{0, 5, 8, 12, 18, 20}

var c10UserClass = func() *value.ClassModel {
	return value.NewClassModel("T").
		DefineProperty("P", value.NewNumber(1)).
		DefineMethod("M", value.NewFunction(c10Echo))
}()

func c10Echo(recv r.Element, params []r.Element) (r.Element, error) {
	if len(params) > 0 {
		return params[0], nil
	}
	return value.NewNull(), nil
}

func c10Nums(fs ...float64) []r.Element {
	out := []r.Element{}
	for _, f := range fs {
		out = append(out, value.NewNumber(f))
	}
	return out
}

// mk builds a FRESH value; fileMode replaces texts by scratch paths.
func (p *c10PV) mk(e *c10Env, fileMode bool) r.Element {
	switch p.Kind {
	case "num":
		return value.NewNumber(p.Num)
	case "text":
		if fileMode {
			return value.NewString(e.filePath(p.Text))
		}
		return value.NewString(p.Text)
	case "bool":
		return value.NewBool(true)
	case "null":
		return value.NewNull()
	case "list":
		if p.Len == 0 {
			return value.NewArray([]r.Element{})
		}
		return value.NewArray(c10Nums(1, 2, 3))
	case "dict":
		if p.Len == 0 {
			return value.NewHashMap(nil)
		}
		return value.NewHashMap([]value.KVPair{{Key: "K", Value: value.NewNumber(1)}})
	case "obj":
		return value.NewObject(c10UserClass, r.ElementMap{})
	case "fn":
		return value.NewFunction(c10Echo)
	case "type":
		return c10UserClass
	case "gov":
		return value.NewGoValue(p.Text, 1)
	}
	panic("C10: bad pool kind " + p.Kind)
}

// c10KindType maps a pool kind to the Go type that owns its members.
var c10KindType = map[string]string{"num": "Number", "text": "String", "bool": "Bool", "null": "Null", "list": "Array",
	"dict": "HashMap", "obj": "Object", "fn": "Function", "type": "ClassModel", "gov": "GoValue"}

type c10Recv struct {
	Name string
	Len  int
	Mk   func() r.Element
}

// c10Receivers: fresh boundary receivers per Go type (direct seam).
var c10Receivers = map[string][]c10Recv{
	"Number": {
		{Name: "0", Mk: func() r.Element { return value.NewNumber(0) }},
		{Name: "-1", Mk: func() r.Element { return value.NewNumber(-1) }},
		{Name: "0.5", Mk: func() r.Element { return value.NewNumber(0.5) }},
		{Name: "1e18", Mk: func() r.Element { return value.NewNumber(1e18) }},
		{Name: "NaN", Mk: func() r.Element { return value.NewNumber(math.NaN()) }},
		{Name: "+Inf", Mk: func() r.Element { return value.NewNumber(math.Inf(1)) }},
		{Name: "数值", Mk: func() r.Element { return c10FreshShuzhi() }},
	},
	"String": {
		{Name: "“”", Mk: func() r.Element { return value.NewString("") }},
		{Name: "“a”", Mk: func() r.Element { return value.NewString("a") }},
		{Name: "“你好”", Mk: func() r.Element { return value.NewString("你好") }},
		{Name: "“12”", Mk: func() r.Element { return value.NewString("12") }},
		// a text as a file in another encoding delivers it: stray bytes between the characters
		{Name: "“a\\xff你\\xc3”", Mk: func() r.Element { return value.NewString("a\xff你\xc3") }},
	},
	"Array": {
		{Name: "【】", Len: 0, Mk: func() r.Element { return value.NewArray([]r.Element{}) }},
		{Name: "【1，2，3】", Len: 3, Mk: func() r.Element { return value.NewArray(c10Nums(1, 2, 3)) }},
		{Name: "【【1】，【】，“a”】", Len: 3, Mk: func() r.Element {
			return value.NewArray([]r.Element{value.NewArray(c10Nums(1)), value.NewArray([]r.Element{}), value.NewString("a")})
		}},
		{Name: "【“a”，“b”】", Len: 2, Mk: func() r.Element {
			return value.NewArray([]r.Element{value.NewString("a"), value.NewString("b")})
		}},
	},
	"HashMap": {
		{Name: "【=】", Mk: func() r.Element { return value.NewHashMap(nil) }},
		{Name: "【K=1】", Mk: func() r.Element { return value.NewHashMap([]value.KVPair{{Key: "K", Value: value.NewNumber(1)}}) }},
		{Name: "【a=【a=1】】", Mk: func() r.Element {
			return value.NewHashMap([]value.KVPair{{Key: "a", Value: value.NewHashMap([]value.KVPair{{Key: "a", Value: value.NewNumber(1)}})}})
		}},
	},
	"Bool": {
		{Name: "真", Mk: func() r.Element { return value.NewBool(true) }},
		{Name: "假", Mk: func() r.Element { return value.NewBool(false) }},
	},
	"Null":       {{Name: "空", Mk: func() r.Element { return value.NewNull() }}},
	"Object":     {{Name: "‹对象·T›", Mk: func() r.Element { return value.NewObject(c10UserClass, r.ElementMap{}) }}},
	"Function":   {{Name: "‹方法›", Mk: func() r.Element { return value.NewFunction(c10Echo) }}},
	"ClassModel": {{Name: "‹类型T›", Mk: func() r.Element { return c10UserClass }}},
	"Exception":  {{Name: "‹异常›", Mk: func() r.Element { return value.NewException("e") }}},
	"GoValue":    {{Name: "GoValue(tag)", Mk: func() r.Element { return value.NewGoValue("tag", 1) }}},
}

// c10FreshShuzhi re-installs a fresh predefined 数值 (a method such as 自增 would
// otherwise change the shared value and make later cases order dependent).
func c10FreshShuzhi() r.Element {
	v := &value.Number{}
	if _, ok := exec.GlobalValues["数值"]; ok {
		exec.GlobalValues["数值"] = v
	}
	return v
}

func c10TypeNames() []string {
	var out []string
	for k := range c10Receivers {
		out = append(out, k)
	}
	sort.Strings(out)
	return out
}

func c10IsNil(v r.Element) bool {
	if v == nil {
		return true
	}
	rv := reflect.ValueOf(v)
	return rv.Kind() == reflect.Ptr && rv.IsNil()
}

// c10HasNil: a nil Element anywhere inside a returned collection crashes the
// next caller just like a nil result.
func c10HasNil(v r.Element, depth int) bool {
	if c10IsNil(v) {
		return true
	}
	if depth > 6 {
		return false
	}
	switch x := v.(type) {
	case *value.Array:
		for _, it := range x.GetValue() {
			if c10HasNil(it, depth+1) {
				return true
			}
		}
	case *value.HashMap:
		for _, it := range x.GetValue() {
			if c10HasNil(it, depth+1) {
				return true
			}
		}
	}
	return false
}

// ------------------------------------------------------------------ cases

type c10Case struct {
	Seam   string `json:"seam"`   // direct | guards | program | varinput
	Kind   string `json:"kind"`   // see c10Exec
	Owner  string `json:"owner"`  // Go type / library / "global" / "class" / "obj:<class>"
	Recv   int    `json:"recv"`   // receiver index (direct: within the owner's receivers; program: pool index); -1 none
	Member string `json:"member"` // member / function / class / operator name; guards: type strings joined by ","
	Args   []int  `json:"args"`   // pool indexes
	Direct bool   `json:"direct_output,omitempty"`
	Text   string `json:"text,omitempty"` // varinput text
	Call   string `json:"call,omitempty"` // human-readable form (not used by replay)
}

type c10Result struct {
	val     r.Element
	err     error
	noValue bool // the operation has no result value (setters, statements)
	pan     string
	stack   string
}

func c10TopFrame(stack string) string {
	lines := strings.Split(stack, "\n")
	seen := false
	for i, ln := range lines {
		if strings.HasPrefix(ln, "panic(") {
			seen = true
			continue
		}
		if seen && strings.HasPrefix(ln, "github.com/DemoHn/Zn/") {
			fn := ln
			if k := strings.LastIndex(fn, "("); k > 0 {
				fn = fn[:k]
			}
			fn = strings.TrimPrefix(fn, "github.com/DemoHn/Zn/")
			loc := ""
			if i+1 < len(lines) {
				loc = strings.TrimSpace(lines[i+1])
				if k := strings.Index(loc, " +0x"); k > 0 {
					loc = loc[:k]
				}
				if k := strings.Index(loc, "/pkg/"); k >= 0 {
					loc = loc[k+1:]
				} else if k := strings.Index(loc, "/stdlib/"); k >= 0 {
					loc = loc[k+1:]
				}
			}
			return fn + " @ " + loc
		}
	}
	return ""
}

func c10Guarded(fn func() (r.Element, error)) (res c10Result) {
	defer func() {
		if p := recover(); p != nil {
			res.pan = fmt.Sprint(p)
			res.stack = string(debug.Stack())
		}
	}()
	res.val, res.err = fn()
	if res.err == nil && !c10IsNil(res.val) {
		_ = res.val.String() // the value must be displayable
	}
	return
}

func (cs *c10Case) args(e *c10Env, fileMode bool) []r.Element {
	out := make([]r.Element, 0, len(cs.Args))
	for _, a := range cs.Args {
		out = append(out, c10Pool[a].mk(e, fileMode))
	}
	return out
}

func (cs *c10Case) argNames() string {
	var ns []string
	for _, a := range cs.Args {
		ns = append(ns, c10Pool[a].Name)
	}
	return strings.Join(ns, "、")
}

func c10RecvFor(owner string, idx int) (c10Recv, bool) {
	if strings.HasPrefix(owner, "obj:") {
		cm := c10RuntimeClass(strings.TrimPrefix(owner, "obj:"))
		if cm == nil || idx != 0 {
			return c10Recv{}, false
		}
		return c10Recv{Name: "‹对象·" + cm.GetName() + "›", Mk: func() r.Element { return value.NewObject(cm, r.ElementMap{}) }}, true
	}
	rs := c10Receivers[owner]
	if idx < 0 || idx >= len(rs) {
		return c10Recv{}, false
	}
	return rs[idx], true
}

// c10RunDirect executes one case of the direct or guards seam.
func c10RunDirect(cs *c10Case, e *c10Env) (res c10Result, call string, bad string) {
	fileMode := cs.Owner == "@文件"
	switch cs.Kind {
	case "exec", "get", "set":
		rc, ok := c10RecvFor(cs.Owner, cs.Recv)
		if !ok {
			return res, "", "unknown receiver"
		}
		recv := rc.Mk()
		args := cs.args(e, false)
		switch cs.Kind {
		case "exec":
			call = fmt.Sprintf("以%s（%s：%s）", rc.Name, cs.Member, cs.argNames())
			res = c10Guarded(func() (r.Element, error) { return recv.ExecMethod(cs.Member, args) })
		case "get":
			call = fmt.Sprintf("%s之%s", rc.Name, cs.Member)
			res = c10Guarded(func() (r.Element, error) { return recv.GetProperty(cs.Member) })
		case "set":
			if len(args) != 1 {
				return res, "", "set needs one argument"
			}
			call = fmt.Sprintf("%s之%s = %s", rc.Name, cs.Member, cs.argNames())
			res = c10Guarded(func() (r.Element, error) { return nil, recv.SetProperty(cs.Member, args[0]) })
			res.noValue = true
		}
		if res.pan == "" && res.err == nil && c10HasNil(recv, 0) {
			res.pan = "receiver contains a nil element afterwards"
		}
	case "call":
		var fn r.Element
		if cs.Owner == "global" {
			fn = exec.GlobalValues[cs.Member]
			if cs.Member == "显示" {
				fn = exec.ZnConstDisplayFunc // the real one (the harness replaces the map entry by a recorder)
			}
		} else {
			_, fn = c10FindLib(cs.Member)
		}
		f, ok := fn.(*value.Function)
		if !ok {
			return res, "", "not a function: " + cs.Member
		}
		args := cs.args(e, fileMode)
		call = fmt.Sprintf("（%s：%s）", cs.Member, cs.argNames())
		if cs.Member == "显示" && e.devnull != nil {
			old := os.Stdout
			os.Stdout = e.devnull
			res = c10Guarded(func() (r.Element, error) { return f.Exec(nil, args) })
			os.Stdout = old
		} else {
			res = c10Guarded(func() (r.Element, error) { return f.Exec(nil, args) })
		}
		if fileMode {
			e.resetFiles()
		}
	case "new":
		var ce r.ConstructableElement
		if cs.Owner == "global" {
			if cs.Member == "数值" {
				c10FreshShuzhi()
			}
			ce, _ = exec.GlobalValues[cs.Member].(r.ConstructableElement)
		} else if cm := c10RuntimeClass(cs.Member); cm != nil {
			ce = cm
		}
		if ce == nil {
			return res, "", "not constructable: " + cs.Member
		}
		args := cs.args(e, false)
		call = fmt.Sprintf("（新建%s：%s）", cs.Member, cs.argNames())
		res = c10Guarded(func() (r.Element, error) { return ce.Construct(args) })
	case "guard-exact", "guard-least", "guard-all":
		var ts []string
		if cs.Member != "" {
			ts = strings.Split(cs.Member, ",")
		}
		args := cs.args(e, false)
		res.noValue = true
		switch cs.Kind {
		case "guard-exact":
			call = fmt.Sprintf("ValidateExactParams([%s], %q)", cs.argNames(), ts)
			res = c10Guarded(func() (r.Element, error) { return nil, value.ValidateExactParams(args, ts...) })
		case "guard-least":
			call = fmt.Sprintf("ValidateLeastParams([%s], %q)", cs.argNames(), ts)
			res = c10Guarded(func() (r.Element, error) { return nil, value.ValidateLeastParams(args, ts...) })
		default:
			call = fmt.Sprintf("ValidateAllParams([%s], %q)", cs.argNames(), cs.Member)
			res = c10Guarded(func() (r.Element, error) { return nil, value.ValidateAllParams(args, cs.Member) })
		}
		res.noValue = true
	case "assert", "assert-prop":
		args := cs.args(e, false)
		if len(args) != 1 {
			return res, "", "assert needs one argument"
		}
		v := args[0]
		key := cs.Owner // assert-prop: property name
		res.noValue = true
		wrap := func(f func() error) {
			res = c10Guarded(func() (r.Element, error) { return nil, f() })
			res.noValue = true
		}
		if cs.Kind == "assert" {
			call = fmt.Sprintf("AssertElement[*%s](%s)", cs.Member, cs.argNames())
			switch cs.Member {
			case "String":
				wrap(func() error { _, err := value.AssertElement[*value.String](v); return err })
			case "Number":
				wrap(func() error { _, err := value.AssertElement[*value.Number](v); return err })
			case "HashMap":
				wrap(func() error { _, err := value.AssertElement[*value.HashMap](v); return err })
			case "Array":
				wrap(func() error { _, err := value.AssertElement[*value.Array](v); return err })
			case "Object":
				wrap(func() error { _, err := value.AssertElement[*value.Object](v); return err })
			default:
				return res, "", "unknown assert type"
			}
		} else {
			call = fmt.Sprintf("AssertPropertyElement[*%s](%s, %q)", cs.Member, cs.argNames(), key)
			switch cs.Member {
			case "String":
				wrap(func() error { _, err := value.AssertPropertyElement[*value.String](v, key); return err })
			case "Number":
				wrap(func() error { _, err := value.AssertPropertyElement[*value.Number](v, key); return err })
			case "HashMap":
				wrap(func() error { _, err := value.AssertPropertyElement[*value.HashMap](v, key); return err })
			case "Array":
				wrap(func() error { _, err := value.AssertPropertyElement[*value.Array](v, key); return err })
			case "Object":
				wrap(func() error { _, err := value.AssertPropertyElement[*value.Object](v, key); return err })
			default:
				return res, "", "unknown assert type"
			}
		}
	default:
		return res, "", "unknown kind " + cs.Kind
	}
	return res, call, ""
}

// ---- program seam

const c10Prelude = "定义T：\n    其P = 1\n    如何M？\n        输入X\n        输出X\n如何新建T？\n    输入V\n    其P = V\n如何F？\n    输入X\n    输出X\n令物 = （新建T：2）\n"

var c10SlotNames = []string{"甲", "乙", "丙", "戊", "己"}

// c10Ops: every binary operator, symbol and word spellings.
var c10Ops = []string{"+", "-", "*", "/", "|", "%", "==", "/=", ">", "<", ">=", "<=",
	"等于", "不等于", "大于", "小于", "不小于", "不大于", "为", "不为", "且", "或"}

// c10Program renders the one-call program of a case; every plain value comes in
// through 输入, objects / methods / types come from the prelude.
func c10Program(cs *c10Case, e *c10Env) (src string, inputs map[string]r.Element, call string, bad string) {
	inputs = map[string]r.Element{}
	libName := ""
	if cs.Owner != "" && strings.HasPrefix(cs.Owner, "@") {
		libName = cs.Owner
	}
	fileMode := libName == "@文件"
	needPrelude := false
	var inNames []string
	slot := 0
	nameOf := func(pi int) (prog, human string) {
		if pi < 0 || pi >= c10PoolN {
			bad = "pool index out of range"
			return "空", "?"
		}
		pv := &c10Pool[pi]
		if pv.Prog != "" {
			needPrelude = true
			return pv.Prog, pv.Prog
		}
		if slot >= len(c10SlotNames) {
			bad = "too many slots"
			return "空", "?"
		}
		n := c10SlotNames[slot]
		slot++
		inputs[n] = pv.mk(e, fileMode)
		inNames = append(inNames, n)
		return n, pv.Name
	}
	rP, rH := "", ""
	if cs.Recv >= 0 {
		rP, rH = nameOf(cs.Recv)
	}
	var aP, aH []string
	for _, a := range cs.Args {
		p, h := nameOf(a)
		aP = append(aP, p)
		aH = append(aH, h)
	}
	if bad != "" {
		return
	}
	switch cs.Member {
	case "物", "F", "T":
		needPrelude = true
	}
	params := func(xs []string) string {
		if len(xs) == 0 {
			return ""
		}
		return "：" + strings.Join(xs, "、")
	}
	callee := cs.Member
	calleeH := cs.Member
	if cs.Member == "" { // the callee / class is the receiver slot itself
		callee, calleeH = rP, rH
	}
	expr, stmt, human := "", "", ""
	switch cs.Kind {
	case "p-method":
		expr = "以" + rP + "（" + cs.Member + params(aP) + "）"
		human = "以" + rH + "（" + cs.Member + params(aH) + "）"
	case "p-get":
		expr = rP + "之" + cs.Member
		human = rH + "之" + cs.Member
	case "p-set":
		stmt = rP + "之" + cs.Member + " = " + aP[0] + "\n输出" + rP
		human = rH + "之" + cs.Member + " = " + aH[0]
	case "p-call":
		expr = "（" + callee + params(aP) + "）"
		human = "（" + calleeH + params(aH) + "）"
	case "p-new":
		expr = "（新建" + callee + params(aP) + "）"
		human = "（新建" + calleeH + params(aH) + "）"
	case "p-throw":
		stmt = "抛出" + callee + params(aP) + "！"
		human = "抛出" + calleeH + params(aH) + "！"
	case "p-index":
		expr = rP + "#" + aP[0]
		human = rH + "#" + aH[0]
	case "p-index-set":
		stmt = rP + "#" + aP[0] + " = " + aP[1] + "\n输出" + rP
		human = rH + "#" + aH[0] + " = " + aH[1]
	case "p-op":
		expr = aP[0] + " " + cs.Member + " " + aP[1]
		human = aH[0] + " " + cs.Member + " " + aH[1]
	case "p-if":
		stmt = "如果" + rP + "：\n    令丁 = 1\n输出0"
		human = "如果" + rH + "："
	case "p-while":
		stmt = "每当" + rP + "：\n    结束循环\n输出0"
		human = "每当" + rH + "："
	case "p-iter":
		stmt = "遍历" + rP + "：\n    结束循环\n输出0"
		human = "遍历" + rH + "："
	case "p-iter2":
		stmt = "以K、V遍历" + rP + "：\n    令丁 = V\n输出0"
		human = "以K、V遍历" + rH + "："
	default:
		bad = "unknown program kind " + cs.Kind
		return
	}
	var b strings.Builder
	if libName != "" {
		b.WriteString("导入《" + libName + "》\n")
	}
	if len(inNames) > 0 {
		b.WriteString("输入" + strings.Join(inNames, "、") + "\n")
	}
	if needPrelude {
		b.WriteString(c10Prelude)
	}
	switch {
	case stmt != "":
		b.WriteString(stmt)
	case cs.Direct:
		b.WriteString("输出" + expr)
	default:
		b.WriteString("令丁 = " + expr + "\n输出丁")
	}
	return b.String(), inputs, human, ""
}

// ------------------------------------------------------------------ oracle

type c10Verdict struct {
	fail     *mc.Failure
	trivial  bool // member not found / name not defined: the member's code was not reached
	gotValue bool
}

func c10ClassifyErr(err error) (trivial bool) {
	re := zn.Classify(err)
	if re == nil {
		return false
	}
	return re.Kind == "runtime" && (re.Code == 45 || re.Code == 46 || re.Code == 42)
}

// c10Exec runs one case and judges it.  It is the single entry point of both
// Run and Replay.
func c10Exec(cs *c10Case, e *c10Env) (v c10Verdict) {
	mk := func(kind, observed, stack string) *mc.Failure {
		top := c10TopFrame(stack)
		f := &mc.Failure{Kind: kind, Expected: "a value or a Zn error", Observed: observed, Detail: stack}
		if top != "" {
			f.Observed += "  [top frame: " + top + "]"
		}
		f.Sig = c10Sig(cs, kind, observed, top)
		if f.Sig != "" {
			f.Bucket = cs.Seam // an understood defect: one group per seam is enough
		} else {
			f.Bucket = cs.Seam + "/" + cs.Kind + "/" + c10Bucket(observed, top)
		}
		return f
	}
	finish := func(f *mc.Failure, call string) {
		c2 := *cs
		c2.Args = append([]int{}, cs.Args...)
		c2.Call = call
		f.Case = mc.J(c2)
		if len(f.Detail) > 2500 {
			f.Detail = f.Detail[:2500]
		}
		v.fail = f
	}
	switch cs.Seam {
	case "direct", "guards":
		res, call, bad := c10RunDirect(cs, e)
		if bad != "" {
			finish(&mc.Failure{Kind: "crash", Observed: "bad case: " + bad}, call)
			return
		}
		switch {
		case res.pan != "":
			finish(mk("panic", res.pan, res.stack), call)
		case res.err != nil:
			v.trivial = c10ClassifyErr(res.err)
			if p := c10ErrDisplay(res.err); p != "" {
				finish(mk("panic", "rendering the error panicked: "+p, ""), call)
			}
		case res.noValue:
			v.gotValue = true
		case c10IsNil(res.val):
			finish(mk("mismatch", "success with a nil result (nil, nil)", ""), call)
		case c10HasNil(res.val, 0):
			finish(mk("mismatch", "result contains a nil element", ""), call)
		default:
			v.gotValue = true
		}
	case "program":
		src, inputs, call, bad := c10Program(cs, e)
		if bad != "" {
			finish(&mc.Failure{Kind: "crash", Observed: "bad case: " + bad}, call)
			return
		}
		if _, ok := exec.GlobalValues["数值"]; ok {
			c10FreshShuzhi()
		}
		o := zn.RunReal(src, inputs)
		if strings.HasPrefix(cs.Owner, "@文件") {
			e.resetFiles()
		}
		call = call + "   ⟨program: " + strings.ReplaceAll(src, "\n", "⏎") + "⟩"
		switch {
		case o.Panic != "":
			finish(mk("panic", o.Panic, o.Stack), call)
		case o.NilResult:
			finish(mk("mismatch", "program succeeded with a nil result", ""), call)
		case o.Err != nil:
			if o.Err.Kind == "runtime" && o.Err.Code == 42 && strings.Contains(o.Err.Msg, "「丁」") {
				finish(mk("mismatch", "call succeeded with a nil result: the name it was bound to is undefined ("+o.Err.Msg+")", ""), call)
				return
			}
			if o.Err.Kind == "syntax" {
				finish(&mc.Failure{Kind: "crash", Observed: "harness program does not parse: " + o.Err.Msg}, call)
				return
			}
			v.trivial = o.Err.Kind == "runtime" && (o.Err.Code == 45 || o.Err.Code == 46 || o.Err.Code == 42)
			if p := c10ErrDisplay(o.RawErr); p != "" {
				finish(mk("panic", "rendering the error panicked: "+p, ""), call)
			}
		case c10HasNil(o.Elem, 0):
			finish(mk("mismatch", "program result contains a nil element", ""), call)
		default:
			v.gotValue = true
		}
	case "source":
		o := zn.RunReal(cs.Text, nil)
		call := "⟨program: " + strings.ReplaceAll(cs.Text, "\n", "⏎") + "⟩"
		switch {
		case o.Panic != "":
			finish(mk("panic", o.Panic, o.Stack), call)
		case o.NilResult:
			finish(mk("mismatch", "program succeeded with a nil result", ""), call)
		case o.Err != nil:
			if o.Err.Kind == "runtime" && o.Err.Code == 42 && strings.Contains(o.Err.Msg, "「丁」") {
				finish(mk("mismatch", "call succeeded with a nil result: the name it was bound to is undefined ("+o.Err.Msg+")", ""), call)
				return
			}
			if o.Err.Kind == "syntax" {
				finish(&mc.Failure{Kind: "crash", Observed: "harness program does not parse: " + o.Err.Msg}, call)
				return
			}
			v.trivial = false
			if p := c10ErrDisplay(o.RawErr); p != "" {
				finish(mk("panic", "rendering the error panicked: "+p, ""), call)
			}
		case c10HasNil(o.Elem, 0):
			finish(mk("mismatch", "program result contains a nil element", ""), call)
		default:
			// rendering the result is what 显示 / the command line do with it
			res := c10Guarded(func() (r.Element, error) { _ = o.Elem.String(); return nil, nil })
			if res.pan != "" {
				finish(mk("panic", "rendering the result panicked: "+res.pan, res.stack), call)
				return
			}
			v.gotValue = true
		}
	case "varinput":
		var m r.ElementMap
		res := c10Guarded(func() (r.Element, error) {
			var err error
			m, err = exec.ExecVarInputText(cs.Text)
			return nil, err
		})
		call := "ExecVarInputText(" + strconv.Quote(cs.Text) + ")"
		switch {
		case res.pan != "":
			finish(mk("panic", res.pan, res.stack), call)
		case res.err != nil:
			if p := c10ErrDisplay(res.err); p != "" {
				finish(mk("panic", "rendering the error panicked: "+p, ""), call)
			}
		default:
			v.gotValue = true
			for k, x := range m {
				if c10HasNil(x, 0) {
					finish(mk("mismatch", "input variable "+k+" is bound to a nil value", ""), call)
					break
				}
			}
		}
	default:
		finish(&mc.Failure{Kind: "crash", Observed: "bad case: unknown seam " + cs.Seam}, "")
	}
	return
}

// c10ErrDisplay renders an error the way the command line does; returns the
// panic text if that crashes.
func c10ErrDisplay(err error) (pan string) {
	defer func() {
		if p := recover(); p != nil {
			pan = fmt.Sprint(p)
		}
	}()
	_ = exec.DisplayError(err)
	_ = err.Error()
	return ""
}

func c10Bucket(observed, top string) string {
	if top != "" {
		if k := strings.Index(top, " @ "); k > 0 {
			return top[:k]
		}
		return top
	}
	if len(observed) > 40 {
		return observed[:40]
	}
	return observed
}

// c10Sig classifies the defects that were understood; the predicate is over the
// failing case (receiver, member, argument shape) plus the crash site.
func c10Sig(cs *c10Case, kind, observed, top string) string {
	isNum := func(i int) bool { return i >= 0 && i < len(cs.Args) && c10Pool[cs.Args[i]].Kind == "num" }
	isText := func(i int) bool { return i >= 0 && i < len(cs.Args) && c10Pool[cs.Args[i]].Kind == "text" }
	switch {
	// 新增 / 添加 with a position below -length: insertArrayValue slices target[:len+idx]
	case kind == "panic" && (cs.Kind == "exec" || cs.Kind == "p-method") && (cs.Member == "新增" || cs.Member == "添加") &&
		len(cs.Args) == 2 && isNum(1) && strings.Contains(top, "insertArrayValue"):
		l := -1
		if cs.Kind == "exec" && cs.Owner == "Array" {
			if rc, ok := c10RecvFor(cs.Owner, cs.Recv); ok {
				l = rc.Len
			}
		} else if cs.Kind == "p-method" && cs.Recv >= 0 && c10Pool[cs.Recv].Kind == "list" {
			l = c10Pool[cs.Recv].Len
		}
		if l >= 0 && int(c10Pool[cs.Args[1]].Num) < -l {
			return "insert-negative-index"
		}
	// 写入文件 succeeds with (nil, nil)
	case kind == "mismatch" && cs.Member == "写入文件" && (cs.Kind == "call" || cs.Kind == "p-call") &&
		len(cs.Args) == 2 && isText(0) && isText(1) && strings.Contains(observed, "nil result"):
		return "write-file-nil-result"
	// input-variable text that needs a call frame / scope: there is none
	case kind == "panic" && cs.Seam == "varinput" && c10TextNeedsFrame(cs.Text) &&
		(strings.Contains(top, "pkg/runtime.(*VM).") || strings.Contains(top, "pkg/runtime.(*Scope).")) &&
		(strings.Contains(observed, "index out of range [-1]") || strings.Contains(observed, "nil pointer dereference")):
		return "varinput-empty-callstack"
	// ValidateLeastParams indexes values[idx] for a required parameter that was not passed
	case kind == "panic" && strings.Contains(top, "ValidateLeastParams") && strings.Contains(observed, "index out of range") &&
		((cs.Kind == "new" && cs.Owner == "class" && len(cs.Args) < 2) || (cs.Kind == "guard-least" && c10LeastMissing(cs.Member, len(cs.Args)))):
		return "least-params-missing-argument"
	// validateOneParam: "golang:<tag>" does v.(*GoValue) after the failed type test
	case kind == "panic" && strings.HasPrefix(cs.Kind, "guard-") && strings.Contains(cs.Member, "golang:") &&
		strings.Contains(top, "validateOneParam") && strings.Contains(observed, "interface conversion"):
		return "golang-tag-unchecked-cast"
	// AssertElement / AssertPropertyElement: the failing path returns value.(T)
	case kind == "panic" && (cs.Kind == "assert" || cs.Kind == "assert-prop") && strings.Contains(top, "Assert") &&
		strings.Contains(observed, "interface conversion"):
		return "assert-element-unchecked-cast"
	}
	return ""
}

var c10LeastRe = regexp.MustCompile(`(\w+)(\*|\+|\?)?`)

// c10LeastMissing predicts, from the type strings and the argument count alone,
// that ValidateLeastParams reaches a required (wildcard-free, as its own
// pattern reads it) type string for which no argument was passed.
func c10LeastMissing(member string, nargs int) bool {
	if member == "" {
		return false
	}
	for idx, t := range strings.Split(member, ",") {
		m := c10LeastRe.FindStringSubmatch(t)
		if m == nil {
			return false
		}
		switch m[2] {
		case "*", "+":
			return false
		case "?":
			if idx != nargs-1 {
				return false
			}
		default:
			if idx >= nargs {
				return true
			}
		}
	}
	return false
}

// c10TextNeedsFrame: the text reads a name that is not predefined, or 其.
func c10TextNeedsFrame(text string) bool {
	rest := strings.TrimPrefix(strings.TrimPrefix(text, "甲 = "), "甲 设为 ")
	return strings.Contains(rest, "乙") || strings.Contains(rest, "其") || strings.Contains(rest, "甲")
}

// ------------------------------------------------------------------ source seam

// callable bodies that yield no value, consumed in every way a result can be
var c10BodyStmts = []string{
	"如何G？\n    输出1",
	"定义U：\n    其Q = 1",
	"令Y = 1",
	"每当假：\n    令Z = 1",
	"如果假：\n    输出5",
	"遍历【】：\n    令Z = 1",
	"输出7",
	"（显示：1）",
	// faults of the three kinds a method has to pass on (syntax / semantic / I/O class errors
	// of its body, not only exceptions and runtime errors)
	"令Y = “{” % 【1】",
	"输出“{#.1” % 【1】",
	"令Y = （读取文件：“/无/此/目录/文件”）",
	"令Y = （解析JSON：“{”）",
}

// programs whose calls never end: the outcome is a Zn error, not the end of the host process
var c10Runaway = []string{
	"如何深？\n    输出（深）\n输出（深）",
	"如何深？\n    输入层\n    输出（深：层 + 1） + 1\n输出（深：0）",
	"如何甲法？\n    输出（乙法）\n如何乙法？\n    输出（甲法）\n输出（甲法）",
	"定义T：\n    其P = 1\n    如何深？\n        输出以其自身（深）\n输出以（新建T）（深）",
	"定义T：\n    其P = 1\n如何新建T？\n    其P = （新建T）\n输出（新建T）",
	"定义T：\n    其P = 1\n    何为G？\n        输出其G\n输出（新建T）之G",
	"如何深？\n    输出（深）\n    拦截异常：\n        输出-1\n输出（深）",
	"如何深？\n    输入表\n    输出（深：【表】）\n输出（深：【】）",
}

// objects that point at each other (or at themselves), held by a collection that is stored,
// copied, compared, shown or serialised: a value or a Zn error, never the end of the host process
func c10CyclicObjects() []string {
	pre := []string{
		"定义节：\n    其邻 = 空\n    其下 = 【】\n令甲 = （新建节）\n令乙 = （新建节）\n甲之邻 = 乙\n乙之邻 = 甲\n",
		"定义节：\n    其邻 = 空\n    其下 = 【】\n令甲 = （新建节）\n令乙 = 甲\n甲之邻 = 甲\n",
		"定义节：\n    其邻 = 空\n    其下 = 【】\n令甲 = （新建节）\n令乙 = （新建节）\n乙之邻 = 甲\n以甲之下（后增：乙）\n",
	}
	uses := []string{
		"令表 = 【】\n以表（后增：【甲，乙】）\n输出表之长度",
		"令表 = 【1】\n以表（前增：【乙】）\n输出表之长度",
		"令表 = 【1】\n以表（合并：【【甲】】）\n输出表之长度",
		"令表 = 【1】\n以表（新增：1、【甲】）\n输出表之长度",
		"令典 = 【=】\n以典（写入：“k”、【甲，乙】）\n输出典之数目",
		"令典 = 【=】\n典#“k” = 【k = 甲】\n输出典之数目",
		"令表 = 【0】\n表#1 = 【甲】\n输出表之长度",
		"令表 = 【甲，乙】\n令另 = 表\n输出另之长度",
		"令表 = 【甲之下，乙之下】\n输出表之长度",
		"输出【甲】 为 【乙】",
		"输出以【【甲】】（包含：【乙】）",
		"（显示：【甲，乙】）\n输出1",
		"输出“{}” % 【【甲】】",
		"导入《@JSON》\n输出（生成JSON：【k = 【1】】）",
	}
	var out []string
	for _, p := range pre {
		for _, u := range uses {
			if strings.HasPrefix(u, "导入") {
				out = append(out, "导入《@JSON》\n"+p+strings.TrimPrefix(u, "导入《@JSON》\n"))
				continue
			}
			out = append(out, p+u)
		}
	}
	return out
}

var c10BodyUses = []string{
	"输出%s", "输出【%s】", "令丁 = %s\n输出丁", "输出%s + 1", "如果%s：\n    输出1\n输出2", "输出%s之文本",
	"输出【K = %s】", "输出%s 为 空", "（显示：%s）\n输出3", "输出“{}” %% 【%s】", "令丁 = 【%s】\n输出丁", "输出（F2：%s）",
}

func c10Indent(s string, n int) string {
	pad := strings.Repeat("    ", n)
	return pad + strings.ReplaceAll(s, "\n", "\n"+pad)
}

// c10Sources enumerates the programs of the source seam in a fixed order.
func c10Sources(tier string, fn func(kind, src string)) {
	// (a) bodies of 1..2 statements x 4 kinds of callable x every use of the result
	var bodies []string
	for _, a := range c10BodyStmts {
		bodies = append(bodies, a)
	}
	for _, a := range c10BodyStmts {
		for _, b := range c10BodyStmts {
			if a != b {
				bodies = append(bodies, a+"\n"+b)
			}
		}
	}
	for _, src := range c10Runaway {
		fn("runaway", src)
	}
	for _, src := range c10CyclicObjects() {
		fn("cyclic-objects", src)
	}
	// a list and the result of a list method bound WITHOUT a copy (得到): every sequence of <= 3
	// operations that change one of them or put one into the other, then both are rendered
	{
		producers := []string{"以甲（合并：【4，5】）得到乙", "以甲（合并：【】）得到乙", "以甲（后增：4）得到乙", "以甲（前增：0）得到乙", "以甲（合并：【4】、【5，6，7】）得到乙"}
		ops := []string{"以乙（后增：99）", "以甲（后增：乙）", "以乙（后增：甲）", "以甲（后增：7）", "以甲（合并：乙）", "以乙（合并：【甲】）", "以甲（前增：乙）", "乙#1 = 甲", "甲#1 = 乙"}
		var seqs [][]int
		for a := range ops {
			seqs = append(seqs, []int{a})
			for b := range ops {
				seqs = append(seqs, []int{a, b})
				if tier == "thorough" || (a < 3 || b < 3) {
					for c := range ops {
						seqs = append(seqs, []int{a, b, c})
					}
				}
			}
		}
		for _, pr := range producers {
			for _, sq := range seqs {
				var b strings.Builder
				b.WriteString("令甲 = 【1，2，3】\n" + pr + "\n")
				for i, o := range sq {
					// each operation in a method of its own with a handler: a refused operation
					// (a list put into itself) must not end the program before the rendering
					fmt.Fprintf(&b, "如何步%d？\n    %s\n    输出 1\n    拦截异常：\n        输出 0\n", i, ops[o])
				}
				for i := range sq {
					fmt.Fprintf(&b, "（步%d）\n", i)
				}
				b.WriteString("输出【甲之文本，乙之文本，甲之长度，乙之长度】")
				fn("by-reference-results", b.String())
			}
		}
	}
	// operations that are REFUSED (a collection put into itself, directly or wrapped), each in a
	// method with a handler, one or two in a row; then the collection is rendered in every way: a
	// refusal leaves the collection as it was
	{
		type coll struct {
			decl string
			ops  []string
			uses []string
		}
		colls := []coll{
			{"令甲 = 【A = 1，B = 2】",
				[]string{"以甲（写入：“新”、甲）", "以甲（写入：“A”、甲）", "甲#“新二” = 甲", "甲#“B” = 甲", "以甲（写入：“新三”、【甲】）", "以甲（写入：“新四”、【K = 甲】）", "以甲（移除：“A”）", "以甲（写入：“C”、3）"},
				[]string{"甲之文本", "甲之所有值", "甲之所有索引", "甲之数目", "（生成JSON：甲）", "“{}” % 【甲】", "甲 为 【A = 1，B = 2】", "（抄：甲）之文本"}},
			{"令甲 = 【1，2】",
				[]string{"以甲（后增：甲）", "以甲（前增：甲）", "以甲（新增：1、甲）", "以甲（合并：【甲】）", "甲#1 = 甲", "甲#2 = 【甲】", "以甲（后增：【K = 甲】）", "以甲（左移）", "以甲（后增：3）"},
				[]string{"甲之文本", "甲之长度", "甲之逆序", "甲之首项", "“{}” % 【甲】", "甲 为 【1，2】", "以甲（包含：甲）", "（抄：甲）之文本"}},
		}
		for _, cl := range colls {
			var seqs [][]int
			for a := range cl.ops {
				seqs = append(seqs, []int{a})
				for b := range cl.ops {
					seqs = append(seqs, []int{a, b})
				}
			}
			for _, sq := range seqs {
				for _, u := range cl.uses {
					var b strings.Builder
					b.WriteString("导入《@JSON》\n" + cl.decl + "\n如何抄？\n    输入物\n    令副 = 物\n    输出 副\n")
					for i, o := range sq {
						fmt.Fprintf(&b, "如何步%d？\n    %s\n    输出 1\n    拦截异常：\n        输出 0\n", i, cl.ops[o])
					}
					for i := range sq {
						fmt.Fprintf(&b, "（步%d）\n", i)
					}
					b.WriteString("输出 " + u)
					fn("refused-then-rendered", b.String())
				}
			}
		}
	}
	// the same operation first with fitting operands, then with operands that do not fit
	// (whatever the first use left behind): a Zn error, not a crash
	tmpls := []string{"{}-{}", "{#.2}：{}", "{#+}{#.1%}{#.2E}"}
	for _, t := range tmpls {
		n := strings.Count(t, "{")
		for k := 0; k <= n+1; k++ {
			if k == n {
				continue
			}
			fit, bad := strings.TrimSuffix(strings.Repeat("1.5，", n), "，"), strings.TrimSuffix(strings.Repeat("1.5，", k), "，")
			fn("reuse", "令T = “"+t+"”\n令A = T % 【"+fit+"】\n令B = T % 【"+bad+"】\n输出【A，B】")
			fn("reuse", "如何排？\n    输入各项\n    输出“"+t+"” % 各项\n令A = （排：【"+fit+"】）\n令B = （排：【"+bad+"】）\n输出【A，B】")
		}
	}
	f2 := "导入《@文件》\n导入《@JSON》\n如何F2？\n    输入V\n    输出V\n"
	for _, body := range bodies {
		kinds := []struct{ pre, call string }{
			{"如何F？\n" + c10Indent(body, 1) + "\n", "（F）"},
			{"定义T：\n    其P = 1\n    如何M？\n" + c10Indent(body, 2) + "\n令O = （新建T）\n", "以O（M）"},
			{"定义T：\n    其P = 1\n    何为H？\n" + c10Indent(body, 2) + "\n令O = （新建T）\n", "O之H"},
			{"定义T：\n    其P = 1\n如何新建T？\n" + c10Indent(body, 1) + "\n", "（新建T）"},
		}
		for _, k := range kinds {
			for _, use := range c10BodyUses {
				fn("body", f2+k.pre+fmt.Sprintf(use, k.call))
			}
		}
	}
	// (b) histories: copies of ONE dictionary / list, then mutations through each name, then rendering
	L := 3
	if tier == "thorough" {
		L = 4
	}
	type family struct {
		pre string
		ops []string
	}
	vars := []string{"甲", "乙", "丙"}
	var dops, lops []string
	for _, v := range vars {
		dops = append(dops, "以"+v+"（写入：“D”、4）", "以"+v+"（移除：“A”）", v+"#“E” = 5")
		lops = append(lops, "以"+v+"（后增：4）", "以"+v+"（左移）", "以"+v+"（新增：1、9）")
	}
	// the value a method returns, used without being bound (it may share storage with its receiver)
	for _, v := range vars {
		for _, u := range vars {
			lops = append(lops, "以"+v+"（合并："+u+"）、（左移）", "以"+v+"（合并："+u+"）、（右移）")
		}
	}
	lops = append(lops, "以甲（合并：乙）得到丁\n以丁（左移）", "（显示：以以甲（合并：【7】）（右移））")
	// a collection put into itself (directly, inside a literal, through another name): whatever
	// happens, displaying / copying / comparing / serialising it afterwards must come back
	lops = append(lops, "以甲（后增：甲）", "以甲（前增：【甲】）", "以甲（新增：甲、1）", "以甲（合并：【甲】）", "以甲（后增：乙）\n以乙（后增：甲）")
	dops = append(dops, "以甲（写入：“S”、甲）", "以甲（写入：“S”、【甲】）", "以甲（写入：“S”、乙）\n以乙（写入：“T”、甲）")
	copies := []string{"乙 = 甲", "丙 = 甲", "丙 = 乙", "甲 = 丙"}
	fams := []family{
		{"令甲 = 【“A” = 1，“B” = 2，“C” = 3】\n令乙 = 甲\n令丙 = 甲\n", append(append([]string{}, copies...), dops...)},
		{"令甲 = 【1，2，3】\n令乙 = 甲\n令丙 = 甲\n", append(append([]string{}, copies...), lops...)},
	}
	for _, fam := range fams {
		n := len(fam.ops)
		for l := 1; l <= L; l++ {
			total := 1
			for i := 0; i < l; i++ {
				total *= n
			}
			for k := 0; k < total; k++ {
				var b strings.Builder
				b.WriteString(fam.pre)
				for i, kk := 0, k; i < l; i++ {
					b.WriteString(fam.ops[kk%n] + "\n")
					kk /= n
				}
				b.WriteString("（显示：甲、乙、丙）\n令丁 = 甲 == 乙\n输出【甲，乙，丙，“{}” % 【甲】】")
				fn("history", b.String())
			}
		}
	}
	// (c) a collection changed while it is being walked: at pass i the body applies one
	// operation to the collection, every pass uses the loop variables
	uses := []string{"（显示：K、V）", "令T = “{}” % 【V】", "以总（后增：V）", "（显示：V之文本）", "以总（后增：K）"}
	dictOps := []string{"以甲（移除：“A”）", "以甲（移除：“B”）", "以甲（移除：“C”）", "以甲（写入：“D”、4）", "以甲（写入：“A”、9）", "甲 = 【“Z” = 0】"}
	listOps := []string{"以甲（左移）", "以甲（右移）", "以甲（后增：4）", "以甲（前增：0）", "甲#1 = 9", "甲 = 【7】"}
	for fi, pre := range []string{"令甲 = 【“A” = 1，“B” = 2，“C” = 3】\n", "令甲 = 【1，2，3】\n"} {
		ops := dictOps
		if fi == 1 {
			ops = listOps
		}
		for pass := 1; pass <= 3; pass++ {
			for _, op := range ops {
				for _, op2 := range append([]string{""}, ops...) {
					for _, use := range uses {
						body := "    I = I + 1\n    如果I == " + fmt.Sprint(pass) + "：\n        " + op + "\n"
						if op2 != "" {
							body += "        " + op2 + "\n"
						}
						body += "    " + use + "\n"
						fn("walk", pre+"令总 = 【】\n令I = 0\n以K、V遍历甲：\n"+body+"（显示：甲、总）\n输出【甲，总，“{}” % 【总】】")
					}
				}
			}
		}
	}
}

// ------------------------------------------------------------------ varinput grammar

var c10VarUnits = []string{"1", "“a”", "乙", "其乙", "（乙）", "（乙：1）", "（新建乙）", "【1】", "【=】", "真", "1 + 1", "1 / 0", "甲", "以1（加：1）", "以1（加：1）得到乙"}
var c10VarSeps = []string{" ", " + ", " 且 ", "之", "#"}
var c10VarTargets = []string{"甲", "1", "其甲", "甲之乙", "甲#1", "“a”", "真", "（甲）"}

// c10VarTexts enumerates the grammar in a fixed order.
func c10VarTexts(fn func(text string)) {
	U, S := c10VarUnits, c10VarSeps
	fn("")
	fn("甲 = ")
	fn("甲")
	fn("= 1")
	for _, a := range U {
		fn("甲 = " + a)
		fn("甲 设为 " + a)
	}
	for _, a := range U {
		for _, s := range S {
			for _, b := range U {
				fn("甲 = " + a + s + b)
			}
		}
	}
	for _, a := range U {
		for _, s := range S {
			for _, b := range U {
				for _, s2 := range S {
					for _, c := range U {
						fn("甲 = " + a + s + b + s2 + c)
					}
				}
			}
		}
	}
	for _, sep := range []string{"；", "\n", "\r\n", "；\n"} {
		for _, a := range U {
			for _, b := range U {
				fn("甲 = " + a + sep + "乙 = " + b)
			}
		}
	}
	for _, t := range c10VarTargets {
		for _, a := range U {
			fn(t + " = " + a)
		}
	}
}

// ------------------------------------------------------------------ enumeration

// c10Tuples calls fn with every tuple of the given arity over idxs (odometer;
// the slice passed to fn is reused).
func c10Tuples(idxs []int, arity int, buf []int, fn func(args []int)) {
	if arity > 0 && len(idxs) == 0 {
		return
	}
	buf = buf[:0]
	pos := make([]int, arity)
	for i := 0; i < arity; i++ {
		buf = append(buf, idxs[0])
	}
	for {
		for i := 0; i < arity; i++ {
			buf[i] = idxs[pos[i]]
		}
		fn(buf)
		k := arity - 1
		for k >= 0 {
			pos[k]++
			if pos[k] < len(idxs) {
				break
			}
			pos[k] = 0
			k--
		}
		if k < 0 {
			return
		}
	}
}

type c10Arity struct {
	n    int
	pool []int
}

func c10Range(n int) []int {
	out := make([]int, n)
	for i := range out {
		out[i] = i
	}
	return out
}

// c10DirectArities: arity <= 2 over the full pool and arity 3 over the sub-pool
// (quick); arity <= 3 over the full pool and arity 4 over the sub-pool (thorough).
func c10DirectArities(tier string) []c10Arity {
	full := c10Range(c10PoolN)
	if tier == "thorough" {
		return []c10Arity{{0, full}, {1, full}, {2, full}, {3, full}, {4, c10SubPool}}
	}
	return []c10Arity{{0, full}, {1, full}, {2, full}, {3, c10SubPool}}
}

func c10Union(ms ...map[string][]string) []string {
	seen := map[string]bool{}
	var out []string
	for _, m := range ms {
		for _, names := range m {
			for _, n := range names {
				if !seen[n] {
					seen[n] = true
					out = append(out, n)
				}
			}
		}
	}
	sort.Strings(out)
	return out
}

func c10Has(xs []string, s string) bool {
	for _, x := range xs {
		if x == s {
			return true
		}
	}
	return false
}

var c10Bogus = []string{"", "无此名"}

func init() {
	mc.Register(&mc.Check{
		ID:    "C10",
		Level: "exploration",
		Rule: "E1 exhaustive over tables read from the current source (go/parser): every key of the getter/setter/method map literals (and name switches) in GetProperty/SetProperty/ExecMethod of pkg/value, every DefineProperty name of the pkg/common classes, every RegisterFunction/RegisterClass name of stdlib/json and stdlib/file, every key of globalValues, every type string of validateOneParam. " +
			"direct seam: fresh boundary receiver of the owning type x every member (plus two absent names) x every argument tuple over a 24-value pool (arity <= 2 full pool, arity 3 over a 6-value sub-pool in quick; arity <= 3 full, arity 4 sub-pool in thorough); every receiver x every member name of every type (arity <= 1); library / predefined functions and constructors the same way. " +
			"guards seam: Validate{Exact,Least,All}Params / AssertElement / AssertPropertyElement over type-string patterns x value tuples. " +
			"program seam: one-call programs (method, property read / write, function call, 新建, 抛出, index read / write, every binary operator spelling, 如果 / 每当 / 遍历) with every argument slot over the full pool, arity <= 2 (method calls in quick: two arguments only on receivers whose type owns the method, one argument on every receiver; thorough: every receiver, and arity 3 over the sub-pool), values through 输入, result bound to a name and returned (and returned directly for arity <= 1). " +
			"varinput seam: every text 甲 = <rhs> with <= 3 units over 15 units joined by 5 separators, two assignments joined by ； / newline, 8 target forms. " +
			"source seam: templates formatted first with a fitting and then with a non-fitting argument list (directly and inside a method); 8 programs whose calls never end (the outcome is a Zn error, the worker survives); every callable (function, method, 何为 getter, constructor) whose body is 1..2 statements over 12 forms that may yield no value or fail (nested definitions, declarations, loops and branches that never run, 输出, 显示, a malformed template, a failing file read, a failing JSON parse) x 12 ways of consuming the call's result; every history of <= 3 (4 thorough) operations (re-copy, 写入 / 移除 / index write, 后增 / 左移 / 新增) through three names holding copies of one 3-key dictionary or one 3-item list, then 显示, format and rendering of all three (list histories also change the unbound result of 合并; both kinds also put a collection into itself - directly, inside a literal, through a second name - before everything is displayed, compared and formatted); every walk (以K、V遍历) of a 3-key dictionary / 3-item list whose body, at pass 1..3, applies one or two of 6 operations to the collection being walked (remove each key, insert, overwrite, replace / shift, append, prepend, element write, replace) while every pass uses the loop variables in one of 5 ways. " +
			"Enumeration is an odometer over table indexes, so cases are distinct; a case is non-trivial when the member's own code was reached (outcome is a value, or an error other than member-not-found / name-not-defined).",
		Assumptions: []string{
			"a Zn error of any kind is an acceptable outcome; only a Go panic, a nil Element on success (also inside a returned collection, or bound to a name that then reads as undefined), a hang or a dead worker are violations",
			"direct / guards / program seams: arguments are distinct fresh values; a collection put into itself (directly, inside a literal, through a second name) is covered by the source seam's histories; nil Elements are never passed as arguments",
			"stdlib/http does not compile at this commit and is skipped; its classes (pkg/common) are exercised through Construct and NewObject, its argument guards through the guards seam",
			"the file library only ever receives paths inside a per-worker scratch directory (directory, existing file, missing file, missing parent); the directory is removed at the end",
			"objects, methods and types of the program seam come from a fixed prelude (class T with property P, method M, constructor; function F) because values of one interpreter instance cannot be passed to another; in the direct seam they are built with the Go API",
			"the predefined 数值 is re-installed fresh before each case that can reach it (自增 on it would otherwise leak into later cases)",
			"rendering a returned error (exec.DisplayError / Error()) is part of delivering it: a panic there is reported",
		},
		Budget: func(tier string) time.Duration {
			if tier == "thorough" {
				return 25 * time.Minute
			}
			return 100 * time.Second
		},
		Run:    c10Run,
		Replay: c10Replay,
	})
}

func c10Replay(c *mc.Ctx, raw json.RawMessage) {
	var cs c10Case
	if err := json.Unmarshal(raw, &cs); err != nil {
		c.Fail(mc.Failure{Kind: "crash", Observed: "bad replay case: " + err.Error()})
		return
	}
	for _, a := range cs.Args {
		if a < 0 || a >= len(c10Pool) {
			c.Fail(mc.Failure{Kind: "crash", Observed: "bad replay case: pool index out of range"})
			return
		}
	}
	e := c10NewEnv()
	defer e.close()
	if v := c10Exec(&cs, e); v.fail != nil {
		c.Fail(*v.fail)
	}
}

func c10Run(c *mc.Ctx) {
	inv := c10LoadInventory()
	e := c10NewEnv()
	defer e.close()

	if inv.Fallback {
		c.Inexhaustive("member tables could not be read from the source; built-in list used")
	}
	for _, p := range inv.Problems {
		c.Note(p)
	}
	for _, s := range inv.Skipped {
		c.Note("stdlib/" + s + " skipped (does not compile at this commit; not registered)")
	}
	count := func(m map[string][]string) (n int64) {
		for _, v := range m {
			n += int64(len(v))
		}
		return
	}
	if c.Shard == 0 {
		c.Stat("inventory_methods", count(inv.Methods))
		c.Stat("inventory_getters", count(inv.Getters))
		c.Stat("inventory_setters", count(inv.Setters))
		c.Stat("inventory_class_properties", count(inv.ClassProps))
		c.Stat("inventory_library_members", count(inv.LibFuncs))
		c.Stat("inventory_predefined_names", int64(len(inv.Globals)))
		c.Stat("inventory_guard_type_strings", int64(len(inv.GuardTypes)))
		c.Stat("inventory_types", int64(len(c10TypeNames())))
	}
	c.Bound("inventory", inv)
	c.Bound("value_pool", func() []string {
		var s []string
		for _, p := range c10Pool[:c10PoolN] {
			s = append(s, p.Name)
		}
		return s
	}())

	var cur c10Case
	var args [8]int
	c.Describe = func(idx int64) json.RawMessage {
		c2 := cur
		c2.Args = append([]int{}, cur.Args...)
		return mc.J(c2)
	}
	idx := int64(-1)
	stopped := false
	nSample := map[string]int{}
	// one evaluates the case described by cur if it is this worker's.
	one := func(statName string) {
		idx++
		if stopped || !c.Mine(idx) {
			return
		}
		if idx&0x3FF == int64(c.Shard) && c.Expired() {
			c.Note("deadline hit in " + cur.Seam + "/" + cur.Kind)
			stopped = true
			return
		}
		c.CaseIdx(idx)
		if cur.Kind == "runaway" {
			c.AllowSlow(150) // down to the interpreter's own depth limit: seconds when idle, far more under load
		}
		v := c10Exec(&cur, e)
		c.Eval(!v.trivial)
		c.Stat(statName, 1)
		if v.gotValue {
			c.Stat(cur.Seam+"_outcome_value", 1)
		} else if v.fail == nil {
			c.Stat(cur.Seam+"_outcome_error", 1)
		}
		if v.fail != nil {
			c.Stat(cur.Seam+"_outcome_violation", 1)
			c.Fail(*v.fail)
		} else if c.WantSample() && nSample[cur.Seam] < 1 && !v.trivial && idx%97 == 3 {
			nSample[cur.Seam]++
			s := map[string]any{"seam": cur.Seam, "kind": cur.Kind, "member": cur.Member}
			if cur.Seam == "program" {
				src, _, call, _ := c10Program(&cur, e)
				s["call"], s["program"] = call, src
			} else if cur.Seam == "varinput" {
				s["text"] = cur.Text
			} else {
				_, call, _ := c10RunDirect(&cur, e)
				s["call"] = call
			}
			s["outcome"] = map[bool]string{true: "value", false: "error"}[v.gotValue]
			c.Sample(s)
		}
	}
	set := func(seam, kind, owner string, recv int, member string) {
		cur = c10Case{Seam: seam, Kind: kind, Owner: owner, Recv: recv, Member: member}
	}
	tuples := func(ar []c10Arity, stat string) {
		for _, a := range ar {
			c10Tuples(a.pool, a.n, args[:0], func(t []int) {
				cur.Args = t
				one(stat)
			})
		}
	}
	full := c10Range(c10PoolN)
	dar := c10DirectArities(c.Tier)
	small := []c10Arity{{0, full}, {1, full}}

	// ================= seam 1: direct
	allMethods := append(c10Union(inv.Methods), "M")
	allProps := append(c10Union(inv.Getters, inv.Setters, inv.ClassProps), "P")
	for _, tn := range c10TypeNames() {
		rs := c10Receivers[tn]
		own := append(append([]string{}, inv.Methods[tn]...), c10Bogus...)
		if tn == "Object" {
			own = append(own, "M")
		}
		for ri := range rs {
			// the type's own methods, deep argument tuples
			for _, m := range own {
				set("direct", "exec", tn, ri, m)
				tuples(dar, "direct_method_cases")
			}
			// every other type's method names on this receiver (wrong receiver type)
			for _, m := range allMethods {
				if c10Has(own, m) {
					continue
				}
				set("direct", "exec", tn, ri, m)
				tuples(small, "direct_foreign_member_cases")
			}
			// properties: every property name of every type, read and written with every pool value
			props := append(append([]string{}, allProps...), c10Bogus...)
			for _, p := range props {
				set("direct", "get", tn, ri, p)
				cur.Args = nil
				one("direct_getter_cases")
				set("direct", "set", tn, ri, p)
				tuples([]c10Arity{{1, full}}, "direct_setter_cases")
			}
		}
	}
	// objects of the pkg/common classes
	var classNames []string
	for cn := range inv.ClassProps {
		classNames = append(classNames, cn)
	}
	sort.Strings(classNames)
	for _, cn := range classNames {
		if c10RuntimeClass(cn) == nil {
			continue
		}
		for _, p := range append(append([]string{}, inv.ClassProps[cn]...), c10Bogus...) {
			set("direct", "get", "obj:"+cn, 0, p)
			cur.Args = nil
			one("direct_getter_cases")
			set("direct", "set", "obj:"+cn, 0, p)
			tuples([]c10Arity{{1, full}}, "direct_setter_cases")
			set("direct", "exec", "obj:"+cn, 0, p)
			tuples(small, "direct_foreign_member_cases")
		}
		set("direct", "new", "class", -1, cn)
		tuples(dar, "direct_constructor_cases")
	}
	// library functions
	var libDirs []string
	for d := range inv.LibFuncs {
		libDirs = append(libDirs, d)
	}
	sort.Strings(libDirs)
	var libMembers [][2]string // lib name, member
	for _, d := range libDirs {
		for _, m := range inv.LibFuncs[d] {
			ln, v := c10FindLib(m)
			if ln == "" {
				continue
			}
			libMembers = append(libMembers, [2]string{ln, m})
			if _, ok := v.(*value.Function); ok {
				set("direct", "call", ln, -1, m)
				tuples(dar, "direct_library_cases")
			}
		}
	}
	// predefined names
	globals := append([]string{}, inv.Globals...)
	sort.Strings(globals)
	for _, g := range globals {
		gv := exec.GlobalValues[g]
		if _, ok := gv.(*value.Function); ok {
			set("direct", "call", "global", -1, g)
			tuples(dar, "direct_predefined_cases")
		}
		if _, ok := gv.(r.ConstructableElement); ok {
			set("direct", "new", "global", -1, g)
			tuples(dar, "direct_constructor_cases")
		}
	}
	c.Bound("direct_seam", fmt.Sprintf("complete: arities %v", func() []string {
		var s []string
		for _, a := range dar {
			s = append(s, fmt.Sprintf("%d over %d values", a.n, len(a.pool)))
		}
		return s
	}()))

	// ================= seam 2: guards
	gpool := c10Range(len(c10Pool)) // includes the two GoValue entries
	gar := []c10Arity{{0, gpool}, {1, gpool}, {2, gpool}}
	gtypes := append(append([]string{}, inv.GuardTypes...), "nosuchtype")
	for _, t := range append([]string{""}, gtypes...) {
		set("guards", "guard-exact", "", -1, t)
		tuples(gar, "guard_cases")
		if t == "" {
			continue
		}
		set("guards", "guard-all", "", -1, t)
		tuples(gar, "guard_cases")
		for _, t2 := range gtypes {
			set("guards", "guard-exact", "", -1, t+","+t2)
			tuples(gar, "guard_cases")
		}
	}
	var lpat []string
	for _, t := range gtypes {
		for _, w := range []string{"", "*", "+", "?"} {
			lpat = append(lpat, t+w)
		}
	}
	firsts := []string{"number", "string", "any"}
	for _, g := range gtypes {
		if strings.HasPrefix(g, "golang:") {
			firsts = append(firsts, g)
		}
	}
	for _, p := range lpat {
		set("guards", "guard-least", "", -1, p)
		tuples(gar, "guard_cases")
		for _, f := range firsts {
			set("guards", "guard-least", "", -1, f+","+p)
			tuples(gar, "guard_cases")
		}
	}
	// the signatures in use by the classes of pkg/common
	for _, p := range []string{"string,string,any?", "number,any,hashmap?", "string+"} {
		set("guards", "guard-least", "", -1, p)
		tuples(append(gar, c10Arity{3, c10SubPool}, c10Arity{4, c10SubPool}), "guard_cases")
	}
	for _, tn := range []string{"String", "Number", "HashMap", "Array", "Object"} {
		set("guards", "assert", "", -1, tn)
		tuples([]c10Arity{{1, gpool}}, "guard_cases")
		for _, key := range []string{"P", "文本", "无此名"} {
			set("guards", "assert-prop", key, -1, tn)
			tuples([]c10Arity{{1, gpool}}, "guard_cases")
		}
	}
	c.Bound("guards_seam", "complete")

	// ================= seam 3: one-call programs
	par := []c10Arity{{0, full}, {1, full}, {2, full}}
	pmethods := append(append([]string{}, allMethods...), "无此名")
	for _, m := range pmethods {
		for ri := 0; ri < c10PoolN; ri++ {
			// quick: two arguments only where the receiver's type owns the method
			// (any other receiver fails on the name before it looks at arguments);
			// thorough: every receiver
			owns := c10Has(inv.Methods[c10KindType[c10Pool[ri].Kind]], m) || (m == "M" && c10Pool[ri].Kind == "obj")
			set("program", "p-method", "", ri, m)
			if owns || c.Tier == "thorough" {
				tuples(par, "program_method_cases")
			} else {
				tuples(small, "program_method_cases")
			}
			cur.Direct = true
			tuples(small, "program_method_cases")
		}
	}
	if c.Tier == "thorough" {
		// arity 3 over the sub-pool, every receiver x every method name
		for _, m := range pmethods {
			for ri := 0; ri < c10PoolN; ri++ {
				set("program", "p-method", "", ri, m)
				tuples([]c10Arity{{3, c10SubPool}}, "program_method_cases")
			}
		}
	}
	pprops := append(append([]string{}, allProps...), "无此名")
	for _, p := range pprops {
		for ri := 0; ri < c10PoolN; ri++ {
			set("program", "p-get", "", ri, p)
			cur.Args = nil
			one("program_property_cases")
			cur.Direct = true
			one("program_property_cases")
			set("program", "p-set", "", ri, p)
			tuples([]c10Arity{{1, full}}, "program_property_cases")
		}
	}
	// function calls, constructors, throws: predefined names, prelude names, an absent name, a value slot
	names := append(append([]string{}, globals...), "F", "T", "物", "无此名")
	for _, kind := range []string{"p-call", "p-new", "p-throw"} {
		kpar := par
		if kind == "p-throw" {
			kpar = par[1:] // 抛出 has no parameterless form
		}
		for _, n := range names {
			set("program", kind, "", -1, n)
			tuples(kpar, "program_call_cases")
			if kind != "p-throw" {
				cur.Direct = true
				tuples(small, "program_call_cases")
			}
		}
		for ri := 0; ri < c10PoolN; ri++ { // the callee / class is itself a value from the pool
			set("program", kind, "", ri, "")
			tuples(kpar, "program_call_cases")
		}
		for _, lm := range libMembers {
			set("program", kind, lm[0], -1, lm[1])
			tuples(kpar, "program_library_cases")
			if kind == "p-call" {
				cur.Direct = true
				tuples(par, "program_library_cases")
			}
		}
	}
	for ri := 0; ri < c10PoolN; ri++ {
		set("program", "p-index", "", ri, "")
		tuples([]c10Arity{{1, full}}, "program_index_cases")
		cur.Direct = true
		tuples([]c10Arity{{1, full}}, "program_index_cases")
		set("program", "p-index-set", "", ri, "")
		tuples([]c10Arity{{2, full}}, "program_index_cases")
		for _, k := range []string{"p-if", "p-while", "p-iter", "p-iter2"} {
			set("program", k, "", ri, "")
			cur.Args = nil
			one("program_statement_cases")
		}
	}
	for _, op := range c10Ops {
		set("program", "p-op", "", -1, op)
		tuples([]c10Arity{{2, full}}, "program_operator_cases")
		cur.Direct = true
		tuples([]c10Arity{{2, full}}, "program_operator_cases")
	}
	c.Bound("program_seam", "complete: every slot over the full pool, arity <= 2 ("+map[bool]string{true: "method calls: every receiver, plus arity 3 over the sub-pool", false: "method calls with 2 arguments: receivers of the owning type"}[c.Tier == "thorough"]+")")

	// ================= seam 4: input-variable texts
	c10VarTexts(func(text string) {
		cur = c10Case{Seam: "varinput", Kind: "text", Recv: -1, Text: text}
		one("varinput_cases")
	})
	c.Bound("varinput_seam", fmt.Sprintf("complete: %d units, %d separators, rhs <= 3 units", len(c10VarUnits), len(c10VarSeps)))
	// ================= seam 5: whole programs (callable bodies without a value; histories on copies)
	c10Sources(c.Tier, func(kind, src string) {
		cur = c10Case{Seam: "source", Kind: kind, Recv: -1, Text: src}
		one("source_" + kind + "_cases")
	})
	c.Bound("source_seam", fmt.Sprintf("complete: bodies of 1..2 statements over %d statement forms x 4 callables x %d uses of the result; every history of <= %d operations over copies of one 3-key dictionary / 3-item list held by three names", len(c10BodyStmts), len(c10BodyUses), map[bool]int{true: 4, false: 3}[c.Tier == "thorough"]))
	if stopped {
		c.Inexhaustive("deadline")
	}
}
