package checks

// C04 — unspaced text is tokenised exactly as documented (keywords, names, numbers).
//
// Four exhaustive sub-checks (E1):
//
//  1. identifier alphabet: all 0x110000 code points, syntax.IdInRange against a
//     linear scan of the range table extracted from id_range.go at run time, the
//     table's sortedness, and every code point alone through the real lexer;
//  2. numeric form: every string of length <= L over the recogniser's input
//     classes {0 1 7 + - . e E * ^ x} (and a shorter pass over all ten digits and
//     %), exec.MatchIDType against a recogniser written from manual chapter 5 and
//     an exact big.Rat rounding oracle;
//  3. greedy keyword segmentation: every string of length <= L over three
//     alphabets (colliding keyword glyphs; operators and their followers; all
//     keyword glyphs), the token stream of zh.NextToken against a reference
//     tokenizer written from manual chapter 1;
//  4. counts per sub-check in the evidence.

import (
	"encoding/json"
	"fmt"
	"go/ast"
	"go/parser"
	"go/token"
	"math"
	"math/big"
	"os"
	"path/filepath"
	"runtime/debug"
	"sort"
	"strconv"
	"strings"
	"time"
	"unicode"

	"github.com/DemoHn/Zn/pkg/exec"
	r "github.com/DemoHn/Zn/pkg/runtime"
	"github.com/DemoHn/Zn/pkg/syntax"
	"github.com/DemoHn/Zn/pkg/syntax/zh"

	"verif/engine/mc"
	"verif/engine/zn"
)

// ------------------------------------------------------------------ cases

type c04Case struct {
	Part   string `json:"part"` // table | idrange | idlex | num | seg
	CP     int64  `json:"cp,omitempty"`
	Pass   string `json:"pass,omitempty"`
	Source string `json:"source,omitempty"`
	Runes  []int  `json:"runes,omitempty"`
}

// ------------------------------------------------------------------ sub-check 1: the range table

// c04RepoDir finds the directory of the github.com/DemoHn/Zn module this binary
// was built against (follows the go.mod replace), so that the table is read from
// the same tree whose IdInRange is linked in.
func c04RepoDir() string {
	if bi, ok := debug.ReadBuildInfo(); ok {
		for _, d := range bi.Deps {
			if d.Path == "github.com/DemoHn/Zn" && d.Replace != nil && strings.HasPrefix(d.Replace.Path, "/") {
				return d.Replace.Path
			}
		}
	}
	return "/repo"
}

// c04LoadTable parses pkg/syntax/id_range.go and returns the composite literal
// assigned to `idRange` as (lo,hi) pairs, in source order.
func c04LoadTable() ([][2]int64, error) {
	file := filepath.Join(c04RepoDir(), "pkg", "syntax", "id_range.go")
	if _, err := os.Stat(file); err != nil {
		return nil, err
	}
	fset := token.NewFileSet()
	f, err := parser.ParseFile(fset, file, nil, 0)
	if err != nil {
		return nil, err
	}
	lit := func(e ast.Expr) (int64, error) {
		neg := false
		if u, ok := e.(*ast.UnaryExpr); ok && u.Op == token.SUB {
			neg = true
			e = u.X
		}
		b, ok := e.(*ast.BasicLit)
		if !ok {
			return 0, fmt.Errorf("non-literal bound at %s", fset.Position(e.Pos()))
		}
		var v int64
		switch b.Kind {
		case token.INT:
			x, err := strconv.ParseInt(b.Value, 0, 64)
			if err != nil {
				return 0, err
			}
			v = x
		case token.CHAR:
			x, _, _, err := strconv.UnquoteChar(b.Value[1:len(b.Value)-1], '\'')
			if err != nil {
				return 0, err
			}
			v = int64(x)
		default:
			return 0, fmt.Errorf("unexpected literal %s", b.Value)
		}
		if neg {
			v = -v
		}
		return v, nil
	}
	for _, d := range f.Decls {
		gd, ok := d.(*ast.GenDecl)
		if !ok || gd.Tok != token.VAR {
			continue
		}
		for _, sp := range gd.Specs {
			vs := sp.(*ast.ValueSpec)
			for i, nm := range vs.Names {
				if nm.Name != "idRange" || i >= len(vs.Values) {
					continue
				}
				cl, ok := vs.Values[i].(*ast.CompositeLit)
				if !ok {
					return nil, fmt.Errorf("idRange is not a composite literal")
				}
				var out [][2]int64
				for _, el := range cl.Elts {
					pl, ok := el.(*ast.CompositeLit)
					if !ok || len(pl.Elts) != 2 {
						return nil, fmt.Errorf("idRange element is not a pair at %s", fset.Position(el.Pos()))
					}
					lo, err := lit(pl.Elts[0])
					if err != nil {
						return nil, err
					}
					hi, err := lit(pl.Elts[1])
					if err != nil {
						return nil, err
					}
					out = append(out, [2]int64{lo, hi})
				}
				return out, nil
			}
		}
	}
	return nil, fmt.Errorf("idRange not found in %s", file)
}

func c04InTable(tab [][2]int64, cp int64) bool {
	for _, p := range tab {
		if cp >= p[0] && cp <= p[1] {
			return true
		}
	}
	return false
}

// c04TableOrder reports the first place where the table is not strictly
// ascending / non-overlapping ("" if fine).
func c04TableOrder(tab [][2]int64) string {
	for i, p := range tab {
		if p[0] > p[1] {
			return fmt.Sprintf("entry %d {%#x,%#x} has lo > hi", i, p[0], p[1])
		}
		if i > 0 && tab[i-1][1] >= p[0] {
			return fmt.Sprintf("entry %d {%#x,%#x} is not above entry %d {%#x,%#x}", i, p[0], p[1], i-1, tab[i-1][0], tab[i-1][1])
		}
	}
	return ""
}

func c04CheckIdRange(tab [][2]int64, cp int64) *mc.Failure {
	want := c04InTable(tab, cp)
	var got bool
	var f *mc.Failure
	func() {
		defer func() {
			if p := recover(); p != nil {
				f = &mc.Failure{Sig: "idrange-panic", Bucket: "idrange:panic", Kind: "panic", Case: mc.J(c04Case{Part: "idrange", CP: cp}), Observed: fmt.Sprint(p)}
			}
		}()
		got = syntax.IdInRange(rune(cp))
	}()
	if f != nil {
		return f
	}
	if got != want {
		return &mc.Failure{Sig: "idrange-lookup-differs-from-table", Bucket: "idrange:lookup", Kind: "mismatch", Case: mc.J(c04Case{Part: "idrange", CP: cp}),
			Expected: fmt.Sprintf("IdInRange(U+%04X) = %v (linear scan of the table)", cp, want), Observed: fmt.Sprint(got)}
	}
	return nil
}

// ------------------------------------------------------------------ real lexer

type c04Tok struct {
	T    uint8
	Lit  string
	S, E int
}

func (t c04Tok) String() string { return fmt.Sprintf("%d%q[%d,%d)", t.T, t.Lit, t.S, t.E) }

func c04Toks(ts []c04Tok) string {
	var sb strings.Builder
	for i, t := range ts {
		if i > 0 {
			sb.WriteByte(' ')
		}
		sb.WriteString(t.String())
	}
	return sb.String()
}

// c04Lex runs zh.NextToken until EOF or error.
func c04Lex(src []rune, buf []c04Tok) (toks []c04Tok, lexErr string, perr string) {
	toks = buf[:0]
	defer func() {
		if p := recover(); p != nil {
			perr = fmt.Sprint(p)
		}
	}()
	l := syntax.NewLexer(src)
	for steps := 0; ; steps++ {
		if steps > len(src)+2 {
			return toks, "", "lexer yields more tokens than characters (no progress)"
		}
		tk, err := zh.NextToken(l)
		if err != nil {
			return toks, "error: " + err.Error(), ""
		}
		toks = append(toks, c04Tok{T: tk.Type, Lit: string(tk.Literal), S: tk.StartIdx, E: tk.EndIdx})
		if tk.Type == zh.TypeEOF {
			return toks, "", ""
		}
	}
}

// ------------------------------------------------------------------ reference tokenizer (manual chapter 1)

// the keyword table of chapter 1 (34 words) with the token type each denotes
var c04Keywords = []struct {
	w string
	t uint8
}{
	{"令", zh.TypeDeclareW}, {"为", zh.TypeLogicYesW}, {"以", zh.TypeVarOneW}, {"其", zh.TypeObjThisW},
	{"或", zh.TypeLogicOrW}, {"且", zh.TypeLogicAndW}, {"之", zh.TypeObjDotW}, {"的", zh.TypeObjDotIIW},
	{"设为", zh.TypeAssignW}, {"恒为", zh.TypeAssignConstW}, {"新建", zh.TypeObjNewW}, {"何为", zh.TypeGetterW},
	{"不为", zh.TypeLogicNoW}, {"如果", zh.TypeCondW}, {"再如", zh.TypeCondOtherW},
	{"输出", zh.TypeReturnW}, {"如何", zh.TypeFuncW}, {"拦截", zh.TypeCatchErrorW}, {"导入", zh.TypeImportW},
	{"定义", zh.TypeObjDefineW}, {"得到", zh.TypeGetResultW}, {"输入", zh.TypeInputW},
	{"否则", zh.TypeCondElseW}, {"每当", zh.TypeWhileLoopW}, {"遍历", zh.TypeIteratorW}, {"等于", zh.TypeLogicEqualW},
	{"大于", zh.TypeLogicGtW}, {"小于", zh.TypeLogicLtW}, {"抛出", zh.TypeThrowErrorW},
	{"不等于", zh.TypeLogicNotEqW}, {"不大于", zh.TypeLogicLteW}, {"不小于", zh.TypeLogicGteW},
	{"继续循环", zh.TypeContinueW}, {"结束循环", zh.TypeBreakW},
}

type c04Kw struct {
	w []rune
	t uint8
}

var c04KwByFirst = func() map[rune][]c04Kw {
	m := map[rune][]c04Kw{}
	for _, k := range c04Keywords {
		rs := []rune(k.w)
		m[rs[0]] = append(m[rs[0]], c04Kw{rs, k.t})
	}
	for _, v := range m {
		sort.SliceStable(v, func(i, j int) bool { return len(v[i].w) > len(v[j].w) }) // longest first
	}
	return m
}()

// c04KwAt: the longest keyword starting at src[i] (length 0 if none).
func c04KwAt(src []rune, i int) (int, uint8) {
	ks, ok := c04KwByFirst[src[i]]
	if !ok {
		return 0, 0
	}
	for _, k := range ks {
		if i+len(k.w) <= len(src) {
			m := true
			for j, x := range k.w {
				if src[i+j] != x {
					m = false
					break
				}
			}
			if m {
				return len(k.w), k.t
			}
		}
	}
	return 0, 0
}

var c04Punct = map[rune]uint8{
	'，': zh.TypeCommaSep, '、': zh.TypePauseCommaSep, '：': zh.TypeFuncCall, '；': zh.TypeStmtSep,
	'？': zh.TypeFuncDeclare, '！': zh.TypeExceptionT, '【': zh.TypeArrayQuoteL, '】': zh.TypeArrayQuoteR,
	'（': zh.TypeFuncQuoteL, '）': zh.TypeFuncQuoteR, '{': zh.TypeStmtQuoteL, '}': zh.TypeStmtQuoteR,
}

var c04OpenQuote = map[rune]rune{'“': '”', '「': '」', '‘': '’', '『': '』', '《': '》'}

func c04IsQuote(ch rune) bool {
	switch ch {
	case '“', '”', '「', '」', '‘', '’', '『', '』', '《', '》':
		return true
	}
	return false
}

func c04IsWS(ch rune) bool { return ch == ' ' || ch == '\t' || ch == 0x3000 }

// identifier characters the manual names without ambiguity: Latin letters,
// digits, _ $ + -, Chinese characters, kana, hangul, Greek letters
func c04DocIdStart(ch rune) bool {
	switch {
	case ch >= 'a' && ch <= 'z', ch >= 'A' && ch <= 'Z', ch >= '0' && ch <= '9':
		return true
	case ch == '_', ch == '$', ch == '+', ch == '-':
		return true
	case ch >= 0x4E00 && ch <= 0x9FA5: // CJK unified ideographs (Unicode 1.1 block content)
		return true
	case ch >= 0x3041 && ch <= 0x3094, ch >= 0x30A1 && ch <= 0x30FA: // hiragana, katakana letters
		return true
	case ch >= 0xAC00 && ch <= 0xD7A3: // hangul syllables
		return true
	case ch >= 0x391 && ch <= 0x3A9 && ch != 0x3A2, ch >= 0x3B1 && ch <= 0x3C9: // Greek letters
		return true
	}
	return false
}

// inside an identifier also * / . (chapter 1: 星标值*, 白卡纸/牛皮纸飞机盒, 12.345)
func c04DocIdCont(ch rune) bool {
	return c04DocIdStart(ch) || ch == '*' || ch == '/' || ch == '.'
}

const (
	c04OK  = 0 // reference token list is what the manual prescribes
	c04Err = 1 // the manual prescribes a lexical error
	c04DC  = 2 // manual silent / several defensible readings: only "terminates without crash"
)

// c04RefLex tokenizes src the way chapter 1 describes.
func c04RefLex(src []rune, buf []c04Tok) (toks []c04Tok, st int, why string) {
	toks = buf[:0]
	n := len(src)
	if n > 0 && c04IsWS(src[0]) {
		return toks, c04DC, "leading-white-space-is-indentation"
	}
	inBackticks := false // text between backticks is one identifier: no comment starts inside it
	for i, ch := range src {
		if ch == '`' {
			inBackticks = !inBackticks
		}
		switch {
		case ch == 0:
			return toks, c04DC, "nul"
		case ch == '\r' || ch == '\n':
			return toks, c04DC, "line-break"
		case ch == 0x6CE8 && !inBackticks: // 注
			// a comment is 注 + any number of digits + ：(manual ch.1); 注 followed by digits
			// and something else is ordinary identifier text
			j := i + 1
			for j < n && src[j] >= '0' && src[j] <= '9' {
				j++
			}
			if j < n && src[j] == '：' {
				return toks, c04DC, "zhu-comment"
			}
		case ch == '/' && !inBackticks && i+1 < n && (src[i+1] == '/' || src[i+1] == '*' || src[i+1] == '='):
			return toks, c04DC, "comment-start-or-/="
		}
	}
	pos := 0
	for {
		for pos < n && c04IsWS(src[pos]) {
			pos++
		}
		if pos == n {
			toks = append(toks, c04Tok{T: zh.TypeEOF, S: n, E: n})
			return toks, c04OK, ""
		}
		ch := src[pos]
		// priority 3: backtick identifier
		if ch == '`' {
			j := pos + 1
			for j < n && src[j] != '`' {
				j++
			}
			if j == n {
				return toks, c04DC, "unterminated-backtick"
			}
			if j == pos+1 {
				return toks, c04DC, "empty-backtick"
			}
			for k := pos + 1; k < j; k++ {
				if !c04DocIdCont(src[k]) {
					return toks, c04DC, "backtick-content-not-identifier-characters"
				}
			}
			toks = append(toks, c04Tok{T: zh.TypeIdentifier, Lit: string(src[pos+1 : j]), S: pos, E: j + 1})
			pos = j + 1
			continue
		}
		// priority 4: string
		if cl, ok := c04OpenQuote[ch]; ok {
			depth, j := 1, pos+1
			for ; j < n; j++ {
				c := src[j]
				if c == '`' {
					return toks, c04DC, "backtick-in-string"
				}
				if c == ch {
					depth++
				} else if c == cl {
					depth--
					if depth == 0 {
						break
					}
				}
			}
			if j >= n {
				return toks, c04DC, "unterminated-string"
			}
			t := zh.TypeString
			if ch == '‘' || ch == '『' {
				t = zh.TypeEnumString
			} else if ch == '《' {
				t = zh.TypeLibString
			}
			toks = append(toks, c04Tok{T: t, Lit: string(src[pos+1 : j]), S: pos, E: j + 1})
			pos = j + 1
			continue
		}
		if c04IsQuote(ch) {
			return toks, c04DC, "closing-quote-at-token-start"
		}
		if pt, ok := c04Punct[ch]; ok {
			toks = append(toks, c04Tok{T: pt, S: pos, E: pos + 1})
			pos++
			continue
		}
		if ch == '+' || ch == '-' || ch == '*' || ch == '/' {
			if pos+1 == n {
				return toks, c04DC, "arithmetic-sign-at-end-of-input"
			}
			nx := src[pos+1]
			_, isP := c04Punct[nx]
			if c04IsWS(nx) || isP || c04IsQuote(nx) {
				t := zh.TypePlus
				switch ch {
				case '-':
					t = zh.TypeMinus
				case '*':
					t = zh.TypeMultiply
				case '/':
					t = zh.TypeDivision
				}
				toks = append(toks, c04Tok{T: t, S: pos, E: pos + 1})
				pos++
				continue
			}
			if ch == '*' || ch == '/' {
				return toks, c04Err, "" // * / cannot start an identifier
			}
		}
		// priority 2: keyword (longest at this position)
		if kl, kt := c04KwAt(src, pos); kl > 0 {
			toks = append(toks, c04Tok{T: kt, S: pos, E: pos + kl})
			pos += kl
			continue
		}
		// priority 1: identifier run
		if !c04DocIdStart(ch) {
			return toks, c04DC, "character-outside-the-documented-classes"
		}
		j := pos + 1
		for j < n {
			c := src[j]
			if c04IsWS(c) {
				break
			}
			if kl, _ := c04KwAt(src, j); kl > 0 {
				break
			}
			if _, isP := c04Punct[c]; isP {
				break
			}
			if c == '`' {
				return toks, c04DC, "backtick-directly-after-identifier"
			}
			if c04IsQuote(c) {
				return toks, c04DC, "quote-directly-after-identifier"
			}
			if !c04DocIdCont(c) {
				return toks, c04DC, "character-outside-the-documented-classes"
			}
			j++
		}
		if src[j-1] == '/' {
			return toks, c04Err, "" // / cannot end an identifier
		}
		toks = append(toks, c04Tok{T: zh.TypeIdentifier, Lit: string(src[pos:j]), S: pos, E: j})
		pos = j
	}
}

func c04SameToks(a, b []c04Tok) bool {
	if len(a) != len(b) {
		return false
	}
	for i := range a {
		if a[i] != b[i] {
			return false
		}
	}
	return true
}

type c04Bufs struct{ ref, got []c04Tok }

// c04SegSig: a stable signature for a segmentation failure.
func c04SegSig(ref []c04Tok, st int, got []c04Tok, lexErr string) string {
	switch {
	case st == c04Err && lexErr == "":
		return "seg-documented-error-accepted"
	case st == c04OK && lexErr != "":
		return "seg-documented-text-rejected"
	}
	// first differing token
	for i := range ref {
		if i >= len(got) {
			break
		}
		if ref[i] != got[i] {
			rk, gk := ref[i].T >= 40, got[i].T >= 40
			switch {
			case rk && gk:
				return "seg-wrong-keyword"
			case rk && !gk:
				return "seg-keyword-not-cut"
			case !rk && gk:
				return "seg-keyword-cut-where-none"
			case ref[i].T != got[i].T:
				return "seg-operator-vs-identifier"
			}
			return "seg-identifier-extent"
		}
	}
	return "seg-token-count"
}

// c04CheckSeg compares lexer and reference on one source.  Returns the
// reference status and whether a keyword/operator/backtick was involved.
func c04CheckSeg(src []rune, pass string, b *c04Bufs) (st int, why string, nontrivial bool, f *mc.Failure) {
	var ref, got []c04Tok
	ref, st, why = c04RefLex(src, b.ref)
	b.ref = ref
	got, lexErr, perr := c04Lex(src, b.got)
	b.got = got
	cs := func() json.RawMessage {
		return mc.J(c04Case{Part: "seg", Pass: pass, Source: string(src), Runes: toInts(src)})
	}
	if perr != "" {
		return st, why, true, &mc.Failure{Sig: "seg-panic", Bucket: "seg:" + pass + ":panic", Kind: "panic", Case: cs(), Observed: perr}
	}
	if st == c04DC {
		return st, why, false, nil
	}
	for _, t := range ref {
		if t.T >= 36 || (t.T == zh.TypeIdentifier && t.E-t.S != len([]rune(t.Lit))) {
			nontrivial = true
		}
	}
	if st == c04Err {
		nontrivial = true
		if lexErr == "" {
			return st, why, true, &mc.Failure{Sig: c04SegSig(ref, st, got, lexErr), Bucket: "seg:" + pass + ":error-expected", Kind: "mismatch", Case: cs(),
				Expected: "lexical error (* / cannot start, / cannot end an identifier)", Observed: c04Toks(got)}
		}
		return st, why, true, nil
	}
	if lexErr != "" || !c04SameToks(ref, got) {
		obs := c04Toks(got)
		if lexErr != "" {
			obs += " then " + lexErr
		}
		return st, why, nontrivial, &mc.Failure{Sig: c04SegSig(ref, st, got, lexErr), Bucket: "seg:" + pass + ":tokens", Kind: "mismatch", Case: cs(),
			Expected: c04Toks(ref), Observed: obs}
	}
	return st, why, nontrivial, nil
}

// ------------------------------------------------------------------ sub-check 1b: one code point through the lexer

var c04OneCharKw = func() map[rune]uint8 {
	m := map[rune]uint8{}
	for _, k := range c04Keywords {
		if rs := []rune(k.w); len(rs) == 1 {
			m[rs[0]] = k.t
		}
	}
	return m
}()

// c04CheckIdLex: cp alone as a source.  Returns whether something was asserted.
func c04CheckIdLex(tab [][2]int64, cp int64, b *c04Bufs) (asserted bool, f *mc.Failure) {
	if cp == 0 {
		return false, nil // NUL is the lexer's end-of-input sentinel
	}
	src := []rune{rune(cp)}
	got, lexErr, perr := c04Lex(src, b.got)
	b.got = got
	cs := func() json.RawMessage { return mc.J(c04Case{Part: "idlex", CP: cp}) }
	if perr != "" {
		return true, &mc.Failure{Sig: "idlex-panic", Bucket: "idlex:panic", Kind: "panic", Case: cs(), Observed: perr}
	}
	in := c04InTable(tab, cp)
	isIdent := lexErr == "" && len(got) >= 1 && got[0].T == zh.TypeIdentifier
	obs := c04Toks(got)
	if lexErr != "" {
		obs += " " + lexErr
	}
	if !in {
		// a character outside the alphabet never forms an identifier by itself
		if isIdent {
			return true, &mc.Failure{Sig: "idlex-identifier-outside-table", Bucket: "idlex:outside", Kind: "mismatch", Case: cs(),
				Expected: fmt.Sprintf("U+%04X is not in the table: not an identifier token", cp), Observed: obs}
		}
		return true, nil
	}
	if kt, ok := c04OneCharKw[rune(cp)]; ok {
		want := []c04Tok{{T: kt, S: 0, E: 1}, {T: zh.TypeEOF, S: 1, E: 1}}
		if lexErr != "" || !c04SameToks(want, got) {
			return true, &mc.Failure{Sig: "idlex-one-char-keyword", Bucket: "idlex:keyword", Kind: "mismatch", Case: cs(), Expected: c04Toks(want), Observed: obs}
		}
		return true, nil
	}
	// letters and digits only: for signs, currency symbols, modifiers etc. the
	// manual is not explicit enough about what a lone character means
	if cp == 0x6CE8 || !(unicode.IsLetter(rune(cp)) || unicode.IsDigit(rune(cp))) {
		return false, nil
	}
	want := []c04Tok{{T: zh.TypeIdentifier, Lit: string(src), S: 0, E: 1}, {T: zh.TypeEOF, S: 1, E: 1}}
	if lexErr != "" || !c04SameToks(want, got) {
		return true, &mc.Failure{Sig: "idlex-letter-not-identifier", Bucket: "idlex:inside", Kind: "mismatch", Case: cs(), Expected: c04Toks(want), Observed: obs}
	}
	return true, nil
}

// ------------------------------------------------------------------ sub-check 2: numeric form

const (
	c04Number = 0
	c04Name   = 1
	c04Reject = 2
	c04NumDC  = 3
)

var c04ClassName = []string{"number", "name", "must-reject", "dont_care"}

func c04IsD(b byte) bool { return b >= '0' && b <= '9' }

// c04NumClass: the documented form [+-]?D+(\.D+)?([eE][+-]D+|\*(10)?\^[+-]?D+)?
func c04NumClass(s []byte) int {
	n := len(s)
	if n == 0 {
		return c04NumDC
	}
	i := 0
	c0 := s[0]
	if c0 == '+' || c0 == '-' {
		if n < 2 || !c04IsD(s[1]) {
			return c04NumDC // sign alone / sign + non-digit: manual has both -内部属性- and --123
		}
		i = 1
	} else if !c04IsD(c0) {
		if c0 == '.' || c0 == '*' || c0 == '^' || c0 == '/' || c0 == '%' {
			return c04NumDC // never the first character of an identifier token / .12 is disputed
		}
		return c04Name
	}
	for i < n && c04IsD(s[i]) {
		i++
	}
	if i == n {
		return c04Number
	}
	if s[i] == '.' {
		i++
		j := i
		for i < n && c04IsD(s[i]) {
			i++
		}
		if i == j {
			return c04Reject
		}
		if i == n {
			return c04Number
		}
	}
	switch s[i] {
	case 'e', 'E':
		i++
		if i < n && (s[i] == '+' || s[i] == '-') {
			i++
		} else {
			return c04Reject
		}
	case '*':
		i++
		if i+2 < n && s[i] == '1' && s[i+1] == '0' && s[i+2] == '^' {
			i += 3
		} else if i < n && s[i] == '^' {
			i++
		} else {
			return c04Reject
		}
		if i < n && (s[i] == '+' || s[i] == '-') {
			i++
		}
	default:
		return c04Reject
	}
	j := i
	for i < n && c04IsD(s[i]) {
		i++
	}
	if i == j || i != n {
		return c04Reject
	}
	return c04Number
}

var c04Ten = big.NewInt(10)

// c04NumValue: the correctly rounded (nearest, ties to even) double of a string
// of the documented form, computed exactly with big.Rat; magnitudes beyond the
// double range go to ±Inf / 0 as IEEE 754 rounding prescribes.
func c04NumValue(s []byte) float64 {
	n := len(s)
	i := 0
	neg := false
	if s[0] == '+' || s[0] == '-' {
		neg = s[0] == '-'
		i = 1
	}
	var mant []byte
	for ; i < n && c04IsD(s[i]); i++ {
		mant = append(mant, s[i])
	}
	frac := int64(0)
	if i < n && s[i] == '.' {
		for i++; i < n && c04IsD(s[i]); i++ {
			mant = append(mant, s[i])
			frac++
		}
	}
	exp := int64(0)
	if i < n {
		if s[i] == 'e' || s[i] == 'E' {
			i++
		} else { // * or *10 then ^
			i++
			if s[i] == '1' {
				i += 2
			}
			i++
		}
		eneg := false
		if s[i] == '+' || s[i] == '-' {
			eneg = s[i] == '-'
			i++
		}
		for ; i < n; i++ {
			exp = exp*10 + int64(s[i]-'0')
			if exp > 1_000_000_000_000 {
				exp = 1_000_000_000_000
			}
		}
		if eneg {
			exp = -exp
		}
	}
	for len(mant) > 0 && mant[0] == '0' {
		mant = mant[1:]
	}
	sign := func(f float64) float64 {
		if neg {
			return -f
		}
		return f
	}
	if len(mant) == 0 {
		return sign(0)
	}
	d := int64(len(mant))
	e10 := exp - frac
	// 10^(d-1+e10) <= |value| < 10^(d+e10)
	if d-1+e10 >= 310 {
		return sign(math.Inf(1))
	}
	if d+e10 <= -326 {
		return sign(0)
	}
	m, _ := new(big.Int).SetString(string(mant), 10)
	q := new(big.Rat)
	if e10 >= 0 {
		m.Mul(m, new(big.Int).Exp(c04Ten, big.NewInt(e10), nil))
		q.SetInt(m)
	} else {
		q.SetFrac(m, new(big.Int).Exp(c04Ten, big.NewInt(-e10), nil))
	}
	f, _ := q.Float64()
	return sign(f)
}

type c04NumCtx struct {
	id   *syntax.ID
	rbuf []rune
}

// c04Observe runs exec.MatchIDType on s.
func c04Observe(s []byte, nc *c04NumCtx) (obs int, lit string, val float64, detail string, perr string) {
	defer func() {
		if p := recover(); p != nil {
			perr = fmt.Sprint(p)
		}
	}()
	nc.rbuf = nc.rbuf[:0]
	for _, b := range s {
		nc.rbuf = append(nc.rbuf, rune(b))
	}
	nc.id.SetLiteral(nc.rbuf)
	v, err := exec.MatchIDType(nc.id)
	if err != nil {
		return c04Reject, "", 0, err.Error(), ""
	}
	switch x := v.(type) {
	case *r.IDNumber:
		return c04Number, x.Literal, x.NumValue, "", ""
	case *r.IDName:
		return c04Name, x.Literal, 0, "", ""
	}
	return -1, "", 0, fmt.Sprintf("%T", v), ""
}

var c04ObsName = map[int]string{c04Number: "number", c04Name: "name", c04Reject: "error", -1: "other"}

func c04CheckNum(s []byte, nc *c04NumCtx) (class int, f *mc.Failure) {
	class = c04NumClass(s)
	obs, lit, val, detail, perr := c04Observe(s, nc)
	cs := func() json.RawMessage { return mc.J(c04Case{Part: "num", Source: string(s)}) }
	if perr != "" {
		return class, &mc.Failure{Sig: "num-panic", Bucket: "num:panic", Kind: "panic", Case: cs(), Observed: perr}
	}
	switch class {
	case c04NumDC:
		return class, nil
	case c04Number:
		if obs != c04Number {
			return class, &mc.Failure{Sig: "num-documented-number-as-" + c04ObsName[obs], Bucket: "num:number->" + c04ObsName[obs], Kind: "mismatch", Case: cs(),
				Expected: "number (documented numeric form)", Observed: c04ObsName[obs] + " " + detail}
		}
		want := c04NumValue(s)
		if lit != string(s) || !(val == want) {
			return class, &mc.Failure{Sig: "num-value-not-correctly-rounded", Bucket: "num:value", Kind: "mismatch", Case: cs(),
				Expected: fmt.Sprintf("number %q = %v (%#x)", s, want, math.Float64bits(want)), Observed: fmt.Sprintf("number %q = %v (%#x)", lit, val, math.Float64bits(val))}
		}
	case c04Name:
		if obs != c04Name || lit != string(s) {
			return class, &mc.Failure{Sig: "num-name-as-" + c04ObsName[obs], Bucket: "num:name->" + c04ObsName[obs], Kind: "mismatch", Case: cs(),
				Expected: fmt.Sprintf("name %q (does not start like a number)", s), Observed: fmt.Sprintf("%s %q %s", c04ObsName[obs], lit, detail)}
		}
	case c04Reject:
		if obs != c04Reject {
			return class, &mc.Failure{Sig: "num-malformed-number-as-" + c04ObsName[obs], Bucket: "num:must-reject->" + c04ObsName[obs], Kind: "mismatch", Case: cs(),
				Expected: "rejected (starts like a number, is not of the documented form)", Observed: fmt.Sprintf("%s %q %v", c04ObsName[obs], lit, val)}
		}
	}
	return class, nil
}

// ------------------------------------------------------------------ enumeration

var c04NumAlpha = []string{"0", "1", "7", "+", "-", ".", "e", "E", "*", "^", "x"}
var c04NumAlpha9 = []string{"0", "1", "7", "+", ".", "e", "*", "^", "x"}

// rounding boundaries of the double format (each string is one case)
var c04NumBoundary = []string{
	"0.1", "0.3", "-0.0", "1*10^23", "1e+23", "8.41e+21", "9007199254740993", "9007199254740995", "-9007199254740993",
	"4.9e-324", "5e-324", "2.4703282292062327e-324", "2.4703282292062328e-324", "24703282292062327208051355972712*10^-355", "1e-325", "1*^-400",
	"2.2250738585072011e-308", "2.2250738585072014e-308", "2.2250738585072012e-308",
	"17976931348623157e+292", "17976931348623158e+292", "1.7976931348623158079372897140530341507993413271003782693617377898044496829276475094664901797758720709633028641669288791094655554785194040263065748867150582068190890200070838367627385484581771153176447573027006985557136695962284291481986083493647529271907416844436551070434271155969950809304288017790417449779e+308",
	"179769313486231580793728971405303415079934132710037826936173778980444968292764750946649017977587207096330286416692887910946555547851940402630657488671505820681908902000708383676273854845817711531764475730270069855571366959622842914819860834936475292719074168444365510704342711559699508093042880177904174497791",
	"179769313486231580793728971405303415079934132710037826936173778980444968292764750946649017977587207096330286416692887910946555547851940402630657488671505820681908902000708383676273854845817711531764475730270069855571366959622842914819860834936475292719074168444365510704342711559699508093042880177904174497792",
	"1e+308", "1e+309", "-1e+309", "1*10^+400", "0e+99999999999999999999", "0.0e-99999999999999999999", "1e+99999999999999999999", "1e-99999999999999999999",
	"0." + "00000000000000000000000000000000000000000000000000" + "1e+50", "100000000000000000000000000000000000000000000000000e-50",
	"123456789012345678", "0.30000000000000004", "0.30000000000000002", "5.0e-1", "-18.9E-7", "-18.9E+27", "125*10^12", "125*^12", "0129.8",
}

// long mantissas: 16..21 significant digits around 2^52, 2^53, 2^54, 2^63 and 10^19, the decimal
// point in every position, plain, negative and with an exponent part - a conversion that rounds
// twice (digits -> integer -> scaled) is wrong for some of them, a correctly rounding one for none
func init() {
	bases := []string{"4503599627370497", "9007199254740993", "9007199254740995", "18014398509481985", "18014398509481987",
		"9223372036854775807", "9223372036854775809", "9999999999999999999", "1000000000000000001", "5000000000000000001",
		"9405090880450125", "79453623373871975", "30091186058528706", "1234567890123456789"}
	tails := []string{"", "1", "5", "9", "49", "51"}
	seen := map[string]bool{}
	for _, b := range bases {
		for _, t := range tails {
			d := b + t
			for p := 1; p < len(d); p++ {
				lit := d[:p] + "." + d[p:]
				for _, form := range []string{lit, "-" + lit, lit + "e+5", lit + "*10^-3"} {
					if !seen[form] {
						seen[form] = true
						c04NumBoundary = append(c04NumBoundary, form)
					}
				}
			}
		}
	}
}

var c04NumAlphaWide = []string{"0", "1", "2", "3", "4", "5", "6", "7", "8", "9", "+", "-", ".", "e", "E", "*", "^", "x", "%"}

// pass A: glyphs chosen to collide
var c04SegA = []string{"不", "大", "小", "等", "于", "为", "如", "果", "何", "再", "否", "则", "以", "的", "甲", "x", "1", " ", "`", "+", "/", "*"}

// pass A at length 7: without x 1 (same class as 甲) and 否 则 (否则 collides with nothing)
var c04SegA18 = []string{"不", "大", "小", "等", "于", "为", "如", "果", "何", "再", "以", "的", "甲", " ", "`", "+", "/", "*"}

// pass B: the four arithmetic signs and what may follow them
var c04SegB = []string{"+", "-", "*", "/", " ", "，", "“甲”", "甲", "1", "为", "."}

// pass D: the comment glyph, digits, the colon, a name character, a keyword, a blank
var c04SegD = []string{"注", "1", "2", "：", "甲", "为", " "}

// pass C: every glyph of every keyword, and a plain character
var c04SegC = func() []string {
	seen := map[rune]bool{}
	var out []string
	for _, k := range c04Keywords {
		for _, ch := range k.w {
			if !seen[ch] {
				seen[ch] = true
				out = append(out, string(ch))
			}
		}
	}
	return append(out, "甲")
}()

type c04Level struct {
	part  string // num | seg
	pass  string
	alpha []string
	n     int
}

func c04Build(alpha []string, digits []int, buf []rune) []rune {
	buf = buf[:0]
	for _, d := range digits {
		buf = append(buf, []rune(alpha[d])...)
	}
	return buf
}

func c04Unrank(base, n int, k int64, digits []int) []int {
	digits = digits[:0]
	for i := 0; i < n; i++ {
		digits = append(digits, int(k%int64(base)))
		k /= int64(base)
	}
	return digits
}

// c04Advance adds step to the little-endian odometer.
func c04Advance(digits []int, base int, step int64) {
	for i := 0; i < len(digits) && step > 0; i++ {
		v := int64(digits[i]) + step
		digits[i] = int(v % int64(base))
		step = v / int64(base)
	}
}

func c04Levels(tier string) []c04Level {
	num11L, num9L, wideL, aL, a7, bL, cL := 8, 0, 5, 5, false, 6, 4
	if tier == "thorough" {
		num11L, num9L, wideL, aL, a7, bL, cL = 9, 10, 6, 6, true, 8, 5
	}
	var ls []c04Level
	for n := 0; n <= aL; n++ {
		ls = append(ls, c04Level{"seg", "A", c04SegA, n})
	}
	if a7 {
		ls = append(ls, c04Level{"seg", "A18", c04SegA18, 7})
	}
	for n := 1; n <= bL; n++ {
		ls = append(ls, c04Level{"seg", "B", c04SegB, n})
	}
	for n := 1; n <= cL; n++ {
		ls = append(ls, c04Level{"seg", "C", c04SegC, n})
	}
	// pass D: 注 with digits, with and without the colon that makes it a comment
	for n := 1; n <= 5; n++ {
		ls = append(ls, c04Level{"seg", "D", c04SegD, n})
	}
	ls = append(ls, c04Level{"num", "boundary", c04NumBoundary, 1})
	for n := 0; n <= wideL; n++ {
		ls = append(ls, c04Level{"num", "wide", c04NumAlphaWide, n})
	}
	for n := 0; n <= num11L; n++ {
		ls = append(ls, c04Level{"num", "classes11", c04NumAlpha, n})
	}
	// the recogniser's own nine input classes (e/E and +/- merged), one level
	// deeper than the 11-symbol pass reaches
	for n := num11L + 1; n <= num9L; n++ {
		ls = append(ls, c04Level{"num", "classes9", c04NumAlpha9, n})
	}
	return ls
}

func init() {
	mc.Register(&mc.Check{
		ID:    "C04",
		Level: "exploration",
		Rule: "E1 exhaustive, four parts. (1) all 0x110000 code points (plus -1, 0x110000, MaxInt32, MinInt32): syntax.IdInRange == linear scan of the idRange table parsed out of pkg/syntax/id_range.go at run time, the table strictly ascending and non-overlapping; each code point alone through zh.NextToken: outside the table never an identifier token, a letter/digit inside the table exactly one identifier token, the 8 one-character keywords their keyword. " +
			"(2) every string of length <= L over the input classes {0 1 7 + - . e E * ^ x} (quick 8, thorough 9), in thorough also every string of length 10 over the recogniser's own nine classes {0 1 7 + . e * ^ x}, every string <= L' over all ten digits and + - . e E * ^ x % (quick 5, thorough 6) and a fixed list of rounding-boundary spellings (43 hand-picked ones and some 6 000 generated long mantissas: 16..21 digits around 2^52, 2^53, 2^54, 2^63, 10^19 with the decimal point in every position, plain, negative, with exponent), through exec.MatchIDType, against a recogniser written from chapter 5 ([+-]?D+(.D+)?([eE][+-]D+|*(10)?^[+-]?D+)?): number (value == exactly rounded double via big.Rat) / name / must-reject / dont_care. " +
			"(3) every string of length <= L over three alphabets (A: 不大小等于为如果何再否则以的 甲 x 1 space backtick + / *, quick <= 5, thorough <= 6 plus length 7 without x 1 否 则; B, quick <= 6, thorough <= 8: + - * / space ， “甲” 甲 1 为 .; C, quick <= 4, thorough <= 5: all glyphs of all 34 keywords and 甲): every token (type, literal, start, end) of zh.NextToken up to EOF or error against a reference tokenizer written from chapter 1 (longest keyword at each position left to right, identifier runs, backtick identifiers, + - * / operators only before space/punctuation/quote, * / cannot start and / cannot end an identifier); an error on both sides is agreement. " +
			"Enumerations are odometers (injective), so all cases are distinct; non-trivial = code point inside the table / string that starts like a number / reference token stream containing a keyword, operator, backtick identifier or a prescribed error.",
		Assumptions: []string{
			"the idRange table is read from id_range.go of the module the binary is linked against (go/parser); the check follows a change of the table and only requires lookup == table",
			"single code points through the lexer: asserted only for characters outside the table (never an identifier), one-character keywords, and Unicode letters/digits inside the table; lone signs/symbols ($ % ^ _ + - ¢ ° ...) and 注 are dont_care",
			"numeric dont_care (only 'no panic'): empty string; a sign alone or followed by a non-digit (-x, --1: the manual has both -内部属性- as a name and --123 as an error); strings starting with . * ^ / % (.12 is listed in chapter 5 but not in the property statement; * / never start an identifier token)",
			"numeric value oracle: m*10^e exactly with big.Rat and Rat.Float64 (nearest, ties to even); |value| >= 1e310 -> ±Inf and < 1e-326 -> 0 decided from the digit count, so every exponent length is covered; the sign of zero is not compared",
			"segmentation dont_care (only 'terminates without crash'): leading white space (indentation rule, C03), line breaks, NUL, 注, any // /* /= (comments and the /= operator are not part of the statement), + - * / as the last character of the input (manual silent on end of input), unterminated or empty backticks, backtick content that is not identifier characters (e.g. a space), a backtick or quote directly after an identifier character (the lexer reports an error; manual silent), a closing quote at token start, backticks inside strings, characters outside the documented classes (% . at token start etc.)",
			"inside an identifier + - * / followed by a space stay part of the identifier (星标值*, -内部属性-); the operator reading applies at token start only",
			"keyword list and the token type of each keyword taken from the chapter 1 table; strings longer than the bounds and symbols outside the alphabets are not covered",
		},
		Budget: func(tier string) time.Duration {
			if tier == "thorough" {
				return 25 * time.Minute
			}
			return 100 * time.Second
		},
		Run:    c04Run,
		Replay: c04Replay,
	})
}

func c04Run(c *mc.Ctx) {
	// the cases allocate a few dozen bytes each over a tiny live heap: collect less often
	defer debug.SetGCPercent(debug.SetGCPercent(800))
	tab, terr := c04LoadTable()
	if terr != nil {
		c.Inexhaustive("cannot read the idRange table: " + terr.Error())
		if c.Shard == 0 {
			c.Fail(mc.Failure{Sig: "table-unreadable", Bucket: "table", Kind: "mismatch", Case: mc.J(c04Case{Part: "table"}), Expected: "idRange composite literal in id_range.go", Observed: terr.Error()})
		}
		return
	}
	if c.Shard == 0 {
		c.Stat("idrange_table_entries", int64(len(tab)))
		if msg := c04TableOrder(tab); msg != "" {
			c.Fail(mc.Failure{Sig: "table-not-sorted", Bucket: "table", Kind: "mismatch", Case: mc.J(c04Case{Part: "table"}), Expected: "strictly ascending, non-overlapping ranges", Observed: msg})
		}
	}
	bufs := &c04Bufs{}

	// ---- part 1: code points
	extras := []int64{-1, 0x110000, math.MaxInt32, math.MinInt32, 0xFFFF + 1}
	base := int64(0)
	nCP := int64(0x110000)
	c.Describe = func(idx int64) json.RawMessage {
		if idx < nCP {
			return mc.J(c04Case{Part: "idlex", CP: idx})
		}
		return mc.J(c04Case{Part: "idrange", CP: extras[idx-nCP]})
	}
	var inTab, lexAsserted, cpChecked int64
	for idx := int64(0); idx < nCP+int64(len(extras)); idx++ {
		if !c.Mine(idx) {
			continue
		}
		c.CaseIdx(idx)
		cpChecked++
		cp := idx
		if idx >= nCP {
			cp = extras[idx-nCP]
		}
		if f := c04CheckIdRange(tab, cp); f != nil {
			c.Fail(*f)
		}
		in := c04InTable(tab, cp)
		if in {
			inTab++
		}
		c.Eval(in)
		if idx < nCP {
			as, f := c04CheckIdLex(tab, cp, bufs)
			if as {
				lexAsserted++
			}
			if f != nil {
				c.Fail(*f)
			}
		}
	}
	c.Stat("idrange_codepoints_checked", cpChecked)
	c.Stat("idrange_codepoints_in_table", inTab)
	c.Stat("idlex_single_char_sources_asserted", lexAsserted)
	c.Bound("idrange_codepoints", "all 0x110000 + 5 out-of-range values")
	base = nCP + int64(len(extras))
	if c.Shard == 0 {
		c.Sample(map[string]any{"part": "idrange", "cp": "U+4E2D", "in_table": c04InTable(tab, 0x4E2D), "IdInRange": syntax.IdInRange(0x4E2D)})
	}

	// ---- parts 2 and 3: strings
	nc := &c04NumCtx{id: new(syntax.ID)}
	sampled := false // one sample per worker: shard 0 the table, shard%3==1 a number, shard%3==2 a token stream
	var digits []int
	var rbuf []rune
	var bbuf []byte
	for _, lv := range c04Levels(c.Tier) {
		b := len(lv.alpha)
		total := pow64(b, lv.n)
		l, b0 := lv, base
		c.Describe = func(idx int64) json.RawMessage {
			s := c04Build(l.alpha, c04Unrank(len(l.alpha), l.n, idx-b0, nil), nil)
			return mc.J(c04Case{Part: l.part, Pass: l.pass, Source: string(s), Runes: toInts(s)})
		}
		// first index of this shard in this level
		k := int64(c.Shard) - base%int64(c.NShards)
		if k < 0 {
			k += int64(c.NShards)
		}
		if r0 := c.Resume - base; r0 > k {
			k += (r0 - k + int64(c.NShards) - 1) / int64(c.NShards) * int64(c.NShards)
		}
		var cnt [4]int64    // num: by class
		var segCnt [3]int64 // seg: ok / error / dont_care
		dcWhy := map[string]int64{}
		var evals, nontriv int64
		flush := func() {
			c.EvalN(evals, nontriv)
			if l.part == "num" {
				for i, v := range cnt {
					c.Stat("num_"+l.pass+"_"+c04ClassName[i], v)
				}
			} else {
				c.Stat("seg_"+l.pass+"_asserted_tokens", segCnt[c04OK])
				c.Stat("seg_"+l.pass+"_asserted_error", segCnt[c04Err])
				c.Stat("seg_"+l.pass+"_dont_care", segCnt[c04DC])
				for w, v := range dcWhy {
					c.Stat("seg_dont_care:"+w, v)
				}
			}
		}
		if k < total {
			digits = c04Unrank(b, lv.n, k, digits)
		}
		expired := false
		for it := int64(0); k < total; k, it = k+int64(c.NShards), it+1 {
			idx := base + k
			if c.Due(0xFFFF) {
				expired = true
				break
			}
			if c.Mine(idx) {
				c.CaseIdx(idx)
				if lv.part == "num" {
					bbuf = bbuf[:0]
					for _, d := range digits {
						bbuf = append(bbuf, lv.alpha[d]...)
					}
					class, f := c04CheckNum(bbuf, nc)
					cnt[class]++
					evals++
					if class == c04Number || class == c04Reject {
						nontriv++
					}
					if f != nil {
						c.Fail(*f)
					}
					if class == c04Number && lv.n == 7 && c.Shard%3 == 1 && !sampled && k%100003 < int64(c.NShards) {
						sampled = true
						c.Sample(map[string]any{"part": "num", "source": string(bbuf), "class": "number", "value": c04NumValue(bbuf)})
					}
				} else {
					rbuf = c04Build(lv.alpha, digits, rbuf)
					st, why, nt, f := c04CheckSeg(rbuf, lv.pass, bufs)
					segCnt[st]++
					if st == c04DC {
						dcWhy[why]++
					}
					evals++
					if nt {
						nontriv++
					}
					if f != nil {
						c.Fail(*f)
					}
					if nt && st == c04OK && lv.n == 5 && lv.pass == "A" && c.Shard%3 == 2 && !sampled && k%50021 < int64(c.NShards) {
						sampled = true
						c.Sample(map[string]any{"part": "seg", "source": string(rbuf), "tokens": c04Toks(bufs.ref)})
					}
				}
			}
			c04Advance(digits, b, int64(c.NShards))
		}
		flush()
		if expired {
			c.Note(fmt.Sprintf("deadline hit in %s pass %s length %d", lv.part, lv.pass, lv.n))
			return
		}
		base += total
		c.Bound(fmt.Sprintf("%s_%s_len_%d_alphabet_%d", lv.part, lv.pass, lv.n, b), "complete")
	}
	c04Contexts(c)
}

// ------------------------------------------------------------------ sub-check 2c: one identifier, every place it can stand in

// c04CtxAlpha / c04CtxFixed: the identifiers (every string <= 4 over the alphabet that the lexer
// reads as ONE identifier token, plus a few longer ones).
var c04CtxAlpha = []rune{'1', '2', '.', 'e', 'k'}
var c04CtxFixed = []string{"128kg", "2.3.5", "1e5", "1e+5", "25.8km", "9.", "12", "1.50", "k12", "2*10^3"}

// the places: s is the only identifier-shaped thing that varies
var c04CtxForms = []struct{ name, pre, post string }{
	{"value", "输出 ", ""},
	{"declared-value", "令甲 = ", "\n输出 甲"},
	{"list-item", "输出 【", "】#1"},
	{"call-argument", "如何取？\n    输入值\n    输出 值\n输出 （取：", "）"},
	{"dictionary-key", "令表 = 【", " = 5】\n输出 7"},
	{"index", "令表 = 【5，6，7】\n输出 表#", ""},
}

// c04Contexts: whether an identifier is a number, a name or malformed does not depend on where
// it stands.  exec.MatchIDType (checked against the documented form above) classifies s; every
// place then has to agree: a malformed identifier is refused with the same error everywhere
// (never silently taken as a name), a number is accepted.
func c04Contexts(c *mc.Ctx) {
	var ids []string
	var rec func(cur []rune, n int)
	rec = func(cur []rune, n int) {
		if len(cur) > 0 {
			ids = append(ids, string(cur))
		}
		if n == 0 {
			return
		}
		for _, ch := range c04CtxAlpha {
			rec(append(cur, ch), n-1)
		}
	}
	rec(nil, 4)
	ids = append(ids, c04CtxFixed...)
	nc := &c04NumCtx{id: new(syntax.ID)}
	base := int64(1) << 56
	c.Describe = func(idx int64) json.RawMessage {
		k := int(idx - base)
		return mc.J(c04Case{Part: "ctx", Source: ids[k/len(c04CtxForms)], Pass: c04CtxForms[k%len(c04CtxForms)].name})
	}
	for k := 0; k < len(ids)*len(c04CtxForms); k++ {
		idx := base + int64(k)
		if !c.Mine(idx) {
			continue
		}
		c.CaseIdx(idx)
		if f := c04CheckCtx(ids[k/len(c04CtxForms)], k%len(c04CtxForms), nc); f != nil {
			c.Fail(*f)
		}
		c.Eval(true)
		c.Stat("identifier_in_context_cases", 1)
	}
	c.Bound("identifier_contexts", fmt.Sprintf("complete: %d identifiers x %d places", len(ids), len(c04CtxForms)))
}

func c04CheckCtx(id string, form int, nc *c04NumCtx) *mc.Failure {
	toks, lexErr, perr := c04Lex([]rune(id), nil)
	if lexErr != "" || perr != "" || len(toks) != 2 || toks[0].T != zh.TypeIdentifier || toks[0].Lit != id {
		return nil // not one identifier token: nothing to place
	}
	obs, _, _, _, p2 := c04Observe([]byte(id), nc)
	if p2 != "" || obs == c04Name {
		return nil // names are looked up: what they hold is another matter
	}
	fm := c04CtxForms[form]
	src := fm.pre + id + fm.post
	cs := mc.J(c04Case{Part: "ctx", Source: id, Pass: fm.name})
	got := zn.RunReal(src, nil)
	if got.Panic != "" {
		return &mc.Failure{Kind: "panic", Bucket: "ctx:" + fm.name, Case: cs, Observed: got.Panic}
	}
	base := zn.RunReal(c04CtxForms[0].pre+id, nil)
	describe := func(o zn.Outcome) string {
		if o.Err != nil {
			return fmt.Sprintf("%s error %d", o.Err.Kind, o.Err.Code)
		}
		return "accepted"
	}
	switch obs {
	case c04Reject:
		if got.Err == nil || base.Err == nil || got.Err.Kind != base.Err.Kind || got.Err.Code != base.Err.Code {
			return &mc.Failure{Kind: "mismatch", Bucket: "ctx:" + fm.name + ":malformed", Case: cs,
				Expected: fmt.Sprintf("the malformed identifier %s is refused as %s refuses it (%s)", id, "输出 "+id, describe(base)), Observed: describe(got) + " in: " + src}
		}
	case c04Number:
		if form == 5 {
			return nil // a number as an index may well be out of range
		}
		if got.Err != nil {
			return &mc.Failure{Kind: "mismatch", Bucket: "ctx:" + fm.name + ":number", Case: cs,
				Expected: fmt.Sprintf("the number %s is accepted", id), Observed: describe(got) + " in: " + src}
		}
	}
	return nil
}

func c04Replay(c *mc.Ctx, raw json.RawMessage) {
	var cs c04Case
	if err := json.Unmarshal(raw, &cs); err != nil {
		c.Fail(mc.Failure{Kind: "crash", Observed: "bad replay case: " + err.Error()})
		return
	}
	tab, terr := c04LoadTable()
	switch cs.Part {
	case "table":
		if terr != nil {
			c.Fail(mc.Failure{Sig: "table-unreadable", Kind: "mismatch", Case: raw, Observed: terr.Error()})
		} else if msg := c04TableOrder(tab); msg != "" {
			c.Fail(mc.Failure{Sig: "table-not-sorted", Kind: "mismatch", Case: raw, Observed: msg})
		}
	case "idrange", "idlex":
		if terr != nil {
			c.Fail(mc.Failure{Sig: "table-unreadable", Kind: "mismatch", Case: raw, Observed: terr.Error()})
			return
		}
		if f := c04CheckIdRange(tab, cs.CP); f != nil {
			c.Fail(*f)
		}
		if cs.Part == "idlex" && cs.CP >= 0 && cs.CP < 0x110000 {
			if _, f := c04CheckIdLex(tab, cs.CP, &c04Bufs{}); f != nil {
				c.Fail(*f)
			}
		}
	case "ctx":
		for i, fm := range c04CtxForms {
			if fm.name == cs.Pass {
				if f := c04CheckCtx(cs.Source, i, &c04NumCtx{id: new(syntax.ID)}); f != nil {
					c.Fail(*f)
				}
			}
		}
	case "num":
		if _, f := c04CheckNum([]byte(cs.Source), &c04NumCtx{id: new(syntax.ID)}); f != nil {
			c.Fail(*f)
		}
	case "seg":
		src := toRunes(cs.Runes)
		if cs.Runes == nil {
			src = []rune(cs.Source)
		}
		if _, _, _, f := c04CheckSeg(src, cs.Pass, &c04Bufs{}); f != nil {
			c.Fail(*f)
		}
	}
}
