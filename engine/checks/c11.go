//go:build c11overlay

package checks

// C11 — execution is deterministic.
// E3: the only non-determinism the statement names is hash-map iteration order.
// The build overlay (tools/mapperm, generated from the current tree at check
// time) rewrites every `range` over a map in the interpreter into a range over
// verifperm.Keys(site, m); every dynamic occurrence is a choice point whose
// alternatives are the permutations of the keys.  A deviation-bounded DFS runs
// each driver program under every order vector with <= d non-sorted
// iterations; all executions of one driver must have the same result, trace and
// error (class, code, message, reported line).

import (
	"encoding/json"
	"fmt"
	"net/http"
	"net/http/httptest"
	"os"
	"path/filepath"
	"sort"
	"strings"
	"time"

	"github.com/DemoHn/Zn/pkg/common"
	"github.com/DemoHn/Zn/pkg/exec"
	r "github.com/DemoHn/Zn/pkg/runtime"
	"github.com/DemoHn/Zn/pkg/server"
	"github.com/DemoHn/Zn/pkg/verifperm"

	"verif/engine/mc"
	"verif/engine/zn"
)

type c11Driver struct {
	Name   string            `json:"name"`
	Kind   string            `json:"kind"` // script | files | http | exprinput
	Source string            `json:"source,omitempty"`
	Files  map[string]string `json:"files,omitempty"`
	Exprs  map[string]string `json:"exprs,omitempty"`
	Header map[string]string `json:"header,omitempty"`
	Query  string            `json:"query,omitempty"`
	Body   string            `json:"body,omitempty"` // http: POST body (with CType)
	CType  string            `json:"content_type,omitempty"`
}

type c11Case struct {
	Driver  c11Driver `json:"driver"`
	Choices []int     `json:"choices,omitempty"`
	Other   []int     `json:"other_choices,omitempty"`
}

func c11Drivers() []c11Driver {
	var ds []c11Driver
	add := func(name, src string) { ds = append(ds, c11Driver{Name: name, Kind: "script", Source: src}) }
	// dictionary equality: equal key sets, every pattern of differing values
	vals := []string{"1", "2", "3"}
	for mask := 0; mask < 8; mask++ {
		rhs := make([]string, 3)
		for i := range rhs {
			rhs[i] = vals[i]
			if mask&(1<<uint(i)) != 0 {
				rhs[i] = "9"
			}
		}
		d := fmt.Sprintf("【A=%s，B=%s，C=%s】", rhs[0], rhs[1], rhs[2])
		for _, op := range []string{"为", "不为", "==", "/="} {
			add(fmt.Sprintf("dict-%s-mask%d", op, mask), "输出【A=1，B=2，C=3】"+op+d)
		}
		add(fmt.Sprintf("dict-contains-mask%d", mask), "输出以【0，【A=1，B=2，C=3】】（包含："+d+"）")
		add(fmt.Sprintf("dict-find-mask%d", mask), "输出以【0，【A=1，B=2，C=3】】（寻找："+d+"）")
		add(fmt.Sprintf("dict-nested-mask%d", mask), "输出【【K=【A=1，B=2，C=3】】】为【【K="+d+"】】")
		dr := fmt.Sprintf("【C=%s，B=%s，A=%s】", rhs[2], rhs[1], rhs[0])
		add(fmt.Sprintf("dict-reversed-为-mask%d", mask), "输出【A=1，B=2，C=3】为"+dr)
		add(fmt.Sprintf("dict-reversed-contains-mask%d", mask), "输出以【0，【A=1，B=2，C=3】】（包含："+dr+"）")
		add(fmt.Sprintf("dict-reversed-find-mask%d", mask), "输出以【0，【A=1，B=2，C=3】】（寻找："+dr+"）")
	}
	// dictionaries holding a value that cannot be compared (an object) next to
	// entries that differ: the verdict (假 or an error) must not depend on which entry is visited first
	names := []string{"A", "B", "C"}
	for opos := 0; opos < 3; opos++ {
		for mask := 0; mask < 4; mask++ {
			l, rr := make([]string, 3), make([]string, 3)
			bit := 0
			for i := range names {
				if i == opos {
					l[i], rr[i] = names[i]+"=O", names[i]+"=O"
					continue
				}
				l[i], rr[i] = names[i]+"=1", names[i]+"=1"
				if mask&(1<<uint(bit)) != 0 {
					rr[i] = names[i] + "=9"
				}
				bit++
			}
			pre := "定义型：\n    其P = 1\n令O = （新建型）\n"
			L := "【" + strings.Join(l, "，") + "】"
			// the right-hand dictionary with its keys in the same order, and reversed
			for ri, R := range []string{"【" + strings.Join(rr, "，") + "】", "【" + rr[2] + "，" + rr[1] + "，" + rr[0] + "】"} {
				tag := fmt.Sprintf("o%d-mask%d-r%d", opos, mask, ri)
				for _, op := range []string{"为", "不为", "==", "/="} {
					add("dict-object-entry-"+op+"-"+tag, pre+"输出"+L+op+R)
				}
				add("dict-object-entry-contains-"+tag, pre+"输出以【0，"+L+"】（包含："+R+"）")
				add("dict-object-entry-find-"+tag, pre+"输出以【0，"+L+"】（寻找："+R+"）")
				add("dict-object-entry-nested-find-"+tag, pre+"输出以【0，【"+L+"】】（寻找：【"+R+"】）")
			}
		}
	}
	// JSON documents by shape: 1..2 top-level members, each a scalar, an object of 3, a list of
	// objects, an object inside an object; key order of every level is observed
	shapes := []string{`1`, `{"z":1,"y":2,"x":3}`, `[{"z":1,"y":2},{"q":1,"p":2}]`, `{"k":{"z":1,"y":2,"x":3}}`}
	jsonProg := func(doc string) string {
		return "导入《@JSON》\n令D = （解析JSON：“" + zn.EncodeStr(doc) + "”）\n输出【D，（生成JSON：D）】"
	}
	for i, a := range shapes {
		doc := `{"m":` + a + `}`
		add(fmt.Sprintf("json-shape-1-%d", i), jsonProg(doc))
		ds = append(ds, c11Driver{Name: fmt.Sprintf("http-json-body-1-%d", i), Kind: "http", Source: "输入当前请求\n输出当前请求之内容", Body: doc, CType: "application/json"})
		for j, b := range shapes {
			doc := `{"m":` + a + `,"c":` + b + `}`
			add(fmt.Sprintf("json-shape-2-%d-%d", i, j), jsonProg(doc))
			if i >= 1 && j == 1 {
				ds = append(ds, c11Driver{Name: fmt.Sprintf("http-json-body-2-%d-%d", i, j), Kind: "http", Source: "输入当前请求\n输出当前请求之内容", Body: doc, CType: "application/json"})
			}
		}
	}
	add("dict-different-keys", "输出【A=1，B=2，C=3】为【A=1，B=2，D=3】")
	add("dict-key-subset", "输出【A=1，B=2】为【A=1，B=2，C=3】")
	// values built from parsed JSON
	add("json-parse-keys", "导入《@JSON》\n令D = （解析JSON：“{\\\"c\\\":1,\\\"a\\\":2,\\\"b\\\":{\\\"z\\\":1,\\\"y\\\":2,\\\"x\\\":3}}”）\n（显示：D之所有索引、D#“b”之所有索引）\n输出D")
	add("json-generate", "导入《@JSON》\n输出（生成JSON：【c=1，a=2，b=【z=1，y=2，x=3】】）")
	add("json-roundtrip-iterate", "导入《@JSON》\n令D = （解析JSON：（生成JSON：【c=1，a=2，b=3】））\n以K、V遍历D：\n    （显示：K、V）\n输出D之所有值")
	// object creation with three defaults; two instances
	add("object-defaults", "定义型：\n    其甲 = 1\n    其乙 = 【2】\n    其丙 = 【K=3】\n令O = （新建型）\n令P = （新建型）\n以O之乙（后增：9）\n输出【O之甲，O之乙，O之丙，P之乙】")
	// library import: all names / selective / a name that collides with an earlier definition
	add("library-import-all", "导入《@JSON》\n导入《@文件》\n输出（生成JSON：【a=1】）")
	add("library-import-twice", "导入《@JSON》\n导入《@JSON》\n输出1")
	// a library call that fails: the same failure, word for word, every time
	add("file-write-failure-handled", "导入《@文件》\n如何试写？\n    （写入文件：“/verif-无此目录/子/报告.txt”、“x”）\n    输出“写了”\n    拦截异常：\n        输出其内容\n输出（试写）")
	add("file-write-failure", "导入《@文件》\n（写入文件：“/verif-无此目录/子/报告.txt”、“x”）")
	add("file-write-onto-directory", "导入《@文件》\n（写入文件：“/”、“x”）")
	add("file-read-failure", "导入《@文件》\n输出（读取文件：“/verif-无此目录/无.txt”）")
	add("error-in-method", "如何甲法？\n    输出【A=1，B=2，C=3】#“D”\n输出（甲法）")
	// modules: import-all of modules exporting three names; two modules exporting colliding names
	ds = append(ds, c11Driver{Name: "module-import-all", Kind: "files", Files: map[string]string{
		"主.zn": "导入“甲”\n输出（一） + （二） + （三）",
		"甲.zn": "如何一？\n    输出1\n如何二？\n    输出2\n如何三？\n    输出3\n定义型：\n    其P = 1",
	}})
	ds = append(ds, c11Driver{Name: "module-collision-two-names", Kind: "files", Files: map[string]string{
		"主.zn": "导入“甲”\n导入“乙”\n输出1",
		"甲.zn": "如何共一？\n    输出1\n如何共二？\n    输出2\n如何共三？\n    输出3",
		"乙.zn": "如何共一？\n    输出1\n如何共二？\n    输出2\n如何共三？\n    输出3",
	}})
	// a module that imports a library and defines methods of the same names itself: whichever
	// clash is reported, it is the same one in every run
	ds = append(ds, c11Driver{Name: "module-redefines-imported-names", Kind: "files", Files: map[string]string{
		"主.zn": "导入“甲”\n输出1",
		"甲.zn": "导入《@JSON》\n如何解析JSON？\n    输出1\n如何生成JSON？\n    输出2\n如何另法？\n    输出3",
	}})
	ds = append(ds, c11Driver{Name: "module-redefines-imported-module-names", Kind: "files", Files: map[string]string{
		"主.zn": "导入“甲”\n输出1",
		"甲.zn": "导入“乙”\n如何共一？\n    输出1\n如何共二？\n    输出2\n如何共三？\n    输出3",
		"乙.zn": "如何共一？\n    输出1\n如何共二？\n    输出2\n如何共三？\n    输出3",
	}})
	ds = append(ds, c11Driver{Name: "module-cycle", Kind: "files", Files: map[string]string{
		"主.zn": "导入“甲”\n导入“乙”\n输出1",
		"甲.zn": "导入“丙”\n如何甲法？\n    输出1",
		"乙.zn": "导入“丙”\n如何乙法？\n    输出1",
		"丙.zn": "导入“甲”\n如何丙法？\n    输出1",
	}})
	// two imports that both fail: the first one is the one reported, every time (executed 40 times
	// under the default order: what decides here is no map)
	ds = append(ds, c11Driver{Name: "repeat-two-missing-imports", Kind: "files", Files: map[string]string{
		"主.zn": "导入“无甲”\n导入“无乙”\n输出1",
	}})
	ds = append(ds, c11Driver{Name: "repeat-invalid-then-missing-import", Kind: "files", Files: map[string]string{
		"主.zn": "导入“坏”\n导入“无乙”\n输出1",
		"坏.zn": strings.Repeat("注：说明说明说明说明\n", 20000) + "\xff",
	}})
	// HTTP handler: request headers and query parameters become dictionaries
	ds = append(ds, c11Driver{Name: "http-headers", Kind: "http",
		Source: "输入当前请求\n输出【当前请求之头部之所有索引，当前请求之查询参数之所有索引】",
		Header: map[string]string{"X-C": "1", "X-A": "2", "X-B": "3"}, Query: "c=1&a=2&b=3"})
	// names that differ only in the case of their letters are different names: every one has its
	// place in the dictionaries, whatever order the host's maps hand them out in
	ds = append(ds, c11Driver{Name: "http-names-differ-in-case", Kind: "http",
		Source: "输入当前请求\n输出【当前请求之头部，当前请求之查询参数】",
		Header: map[string]string{"X-Ab": "1", "x-ab": "2", "X-AB": "3"}, Query: "id=9&ID=8&Id=7&iD=6"})
	// the response class is registered by a harness library (stdlib/http, which does it in the
	// product, does not compile at this commit); header names that canonicalise to one header
	ds = append(ds, c11Driver{Name: "http-response-headers", Kind: "http",
		Source: "导入《@HTTP》\n输入当前请求\n输出（新建HTTP响应：200、“ok”、【“X-C”=“1”，“X-A”=“2”，“x-a”=“3”，“X-a”=“4”】）"})
	ds = append(ds, c11Driver{Name: "http-response-headers-json", Kind: "http",
		Source: "导入《@HTTP》\n输入当前请求\n输出（新建HTTP响应：201、【c=1，a=2，b=3】、【“x-b”=“1”，“X-B”=“2”，“X-A”=“3”】）"})
	// expression inputs evaluated from a map
	ds = append(ds, c11Driver{Name: "exprinput-ok", Kind: "exprinput", Exprs: map[string]string{"c": "1 + 1", "a": "“x”", "b": "【1，2】"}})
	ds = append(ds, c11Driver{Name: "exprinput-two-errors", Kind: "exprinput", Exprs: map[string]string{"a": "1 / 0", "b": "【1】#5", "c": "1"}})
	return ds
}

var c11Dir string

func c11TempDir() string {
	if c11Dir == "" {
		d, err := os.MkdirTemp("", "c11-")
		if err != nil {
			panic(err)
		}
		c11Dir = d
	}
	return c11Dir
}

// c11RunOnce executes a driver under the recorder's choices and returns a
// canonical outcome string.
func c11RunOnce(d c11Driver, rec *mc.Recorder) (out string) {
	verifperm.Choose = func(site string, n int, nPerm int) int { return rec.Choose(site, nPerm) }
	defer func() {
		verifperm.Choose = nil
		if p := recover(); p != nil {
			out = fmt.Sprintf("PANIC %v", p)
		}
	}()
	describe := func(o zn.Outcome) string {
		if o.Panic != "" {
			return "PANIC " + o.Panic
		}
		if o.Err != nil {
			// class, code, message and the rendered report (module / line / call chain)
			return fmt.Sprintf("ERR kind=%s code=%d msg=%q report=%q trace=%v", o.Err.Kind, o.Err.Code, o.Err.Msg, exec.DisplayError(o.RawErr), o.Trace)
		}
		return fmt.Sprintf("OK val=%s trace=%v", o.Val, o.Trace)
	}
	switch d.Kind {
	case "script":
		return describe(zn.RunReal(d.Source, nil))
	case "files":
		dir := c11TempDir()
		ents, _ := os.ReadDir(dir)
		for _, e := range ents {
			os.RemoveAll(filepath.Join(dir, e.Name()))
		}
		for n, s := range d.Files {
			os.WriteFile(filepath.Join(dir, n), []byte(s), 0o644)
		}
		return describe(zn.RunRealFile(filepath.Join(dir, "主.zn"), nil))
	case "http":
		dir := c11TempDir()
		entry := filepath.Join(dir, "入口.zn")
		os.WriteFile(entry, []byte(d.Source), 0o644)
		httpLib := r.NewLibrary("@HTTP").RegisterClass("HTTP响应", common.CLASS_HttpResponse)
		in := exec.NewInterpreter("verif").SetExternalLibs(append(zn.Libs(), httpLib))
		h := server.NewZnHttpHandler(in, entry)
		req := httptest.NewRequest("GET", "http://h/p?"+d.Query, nil)
		if d.Body != "" {
			req = httptest.NewRequest("POST", "http://h/p?"+d.Query, strings.NewReader(d.Body))
			req.Header.Set("Content-Type", d.CType)
		}
		for k, v := range d.Header {
			req.Header[k] = []string{v}
		}
		w := httptest.NewRecorder()
		h.ServeHTTP(w, req)
		var hk []string
		for k, v := range w.Header() {
			hk = append(hk, k+"="+strings.Join(v, ",")) // values of one header in the order they were added
		}
		sort.Strings(hk)
		return fmt.Sprintf("HTTP %d %v body=%s", w.Code, hk, w.Body.String())
	case "exprinput":
		m, err := exec.ExecExpressionInputText(d.Exprs)
		if err != nil {
			return "ERR " + err.Error()
		}
		var ks []string
		for k, v := range m {
			ks = append(ks, k+"="+zn.CanonElem(v))
		}
		sort.Strings(ks)
		return "OK " + strings.Join(ks, ",")
	}
	return "unknown driver kind"
}

var _ = http.StatusOK
var _ r.ElementMap

func c11Sites() []string {
	var out []string
	b, err := os.ReadFile(os.Getenv("VERIF_SITES"))
	if err != nil {
		return nil
	}
	var ss []struct {
		ID string `json:"id"`
	}
	json.Unmarshal(b, &ss)
	for _, s := range ss {
		out = append(out, s.ID)
	}
	return out
}

func c11Sig(d c11Driver) string {
	switch {
	case strings.HasPrefix(d.Name, "http-response-headers"):
		return "response-header-order"
	case d.Kind == "http" && d.Name == "http-headers":
		return "request-header-order"
	case strings.HasPrefix(d.Name, "module-redefines"):
		return "module-own-names-redeclared-in-map-order"
	case d.Name == "module-collision-two-names":
		return "import-collision-message-order"
	case d.Name == "exprinput-two-errors":
		return "exprinput-first-error-order"
	case strings.HasPrefix(d.Name, "json-parse") || strings.HasPrefix(d.Name, "json-roundtrip"):
		return "parse-key-order"
	case strings.HasPrefix(d.Name, "dict-object-entry"):
		return "dict-compare-uncomparable-entry-order"
	case strings.HasPrefix(d.Name, "dict-"):
		return "dict-compare-first-key"
	}
	return ""
}

func init() {
	mc.Register(&mc.Check{
		ID:    "C11",
		Level: "model_checking",
		Rule:  "E3: stateless deviation-bounded DFS over map-iteration-order choices. Every range-over-map site of the interpreter (inventoried from the current source with go/types by tools/mapperm and rewritten through a build overlay) is a choice point at each dynamic occurrence with n! alternatives for n <= 3 keys (rotations + reversal above); deviation = an occurrence not in sorted order; bounds 0,1,2 (3 in thorough). Driver programs per site with >= 3 keys and contents chosen so that order matters if it can: dictionary 为/不为/==//= with equal key sets under all 8 patterns of differing values, nested, 包含/寻找 of dictionaries; the same with the right-hand keys reversed, and with an entry that cannot be compared (an object) at each position x every pattern of differing entries x same / reversed key order; parsed JSON documents of every shape with 1..2 top-level members over {scalar, object of 3, list of objects, object in object}, shown and re-generated, also as HTTP JSON request bodies; 所有索引/iteration; 生成JSON; object creation with 3 defaults; library and module imports (all names, colliding names, cycles); HTTP request headers/query (also names that differ only in case) and response headers; expression inputs; failing file-library calls. Every driver is also executed twice under the default order (two drivers whose imports both fail: 40 times). Oracle: all executions of one driver are identical in result, display trace and error (class, code, message, rendered report incl. lines). A state = one complete execution under one order vector.",
		Assumptions: []string{
			"only hash-map iteration order is controlled (the source the statement names); Go select, goroutine scheduling and rand are not (取随机数 is excepted by the statement)",
			"order vectors with more deviations than the bound are not covered; sites no driver reaches are listed in evidence, not reported as violations",
		},
		Shards: func(tier string) int { return 16 },
		Budget: func(tier string) time.Duration {
			if tier == "thorough" {
				return 20 * time.Minute
			}
			return 100 * time.Second
		},
		Run: func(c *mc.Ctx) {
			defer func() {
				if c11Dir != "" {
					os.RemoveAll(c11Dir)
				}
			}()
			bound := 2
			if c.Tier == "thorough" {
				bound = 3
			}
			reached := map[string]bool{}
			for di, d := range c11Drivers() {
				idx := int64(di)
				if !c.Mine(idx) {
					continue
				}
				dd := d
				c.Case(idx, func() json.RawMessage { return mc.J(c11Case{Driver: dd}) })
				outcomes := map[string][]int{}
				var first string
				var firstChoices []int
				n := mc.Explore(bound, func(rec *mc.Recorder) {
					o := c11RunOnce(d, rec)
					if _, ok := outcomes[o]; !ok {
						outcomes[o] = rec.Choices()
					}
					if first == "" {
						first, firstChoices = o, rec.Choices()
					}
					for _, p := range rec.Log {
						reached[p.Kind] = true
					}
					c.Stat("transitions", int64(len(rec.Log)))
				}, c.Expired)
				// the same order vector once more: the same execution (what no map order explains:
				// a random name, a clock, an address in a message)
				again := 1
				if strings.HasPrefix(d.Name, "repeat-") {
					again = 40
				}
				for i := 0; i < again; i++ {
					n += mc.Explore(0, func(rec *mc.Recorder) {
						o := c11RunOnce(d, rec)
						if _, ok := outcomes[o]; !ok {
							outcomes[o] = rec.Choices()
						}
					}, c.Expired)
				}
				c.EvalN(n, n)
				c.Stat("states", n)
				c.Stat("traces_validated_against_impl", n)
				c.Stat("drivers", 1)
				c.StatMax("max_distinct_outcomes_per_driver", int64(len(outcomes)))
				if len(outcomes) > 1 {
					var other string
					var otherChoices []int
					for o, ch := range outcomes {
						if o != first {
							other, otherChoices = o, ch
							break
						}
					}
					c.Fail(mc.Failure{Sig: c11Sig(d), Kind: "mismatch", Bucket: d.Name, Case: mc.J(c11Case{Driver: d, Choices: firstChoices, Other: otherChoices}),
						Expected: "one outcome under every iteration order: " + clipS(first, 400), Observed: fmt.Sprintf("%d distinct outcomes, e.g. under choices %v: %s", len(outcomes), otherChoices, clipS(other, 400))})
				}
				if c.WantSample() {
					c.Sample(map[string]any{"driver": d.Name, "executions": n, "outcome": clipS(first, 300)})
				}
			}
			var rs []string
			for s := range reached {
				rs = append(rs, s)
			}
			sort.Strings(rs)
			c.Note(fmt.Sprintf("shard %d reached sites: %v", c.Shard, rs))
			if c.Shard == 0 {
				c.Note(fmt.Sprintf("inventory of range-over-map sites: %v", c11Sites()))
				c.Bound("deviation_bound", bound)
			}
		},
		Replay: func(c *mc.Ctx, raw json.RawMessage) {
			var cs c11Case
			if err := json.Unmarshal(raw, &cs); err != nil {
				c.Fail(mc.Failure{Kind: "crash", Observed: err.Error()})
				return
			}
			defer func() {
				if c11Dir != "" {
					os.RemoveAll(c11Dir)
				}
			}()
			a := c11RunOnce(cs.Driver, &mc.Recorder{Prefix: cs.Choices})
			b := c11RunOnce(cs.Driver, &mc.Recorder{Prefix: cs.Other})
			// determinism of the harness itself: the same schedule twice gives the same observation
			a2 := c11RunOnce(cs.Driver, &mc.Recorder{Prefix: cs.Choices})
			if a != a2 {
				c.Fail(mc.Failure{Kind: "crash", Observed: "replaying one order vector twice gave different observations: uncaptured non-determinism"})
				return
			}
			if a != b {
				c.Fail(mc.Failure{Sig: c11Sig(cs.Driver), Kind: "mismatch", Case: raw, Expected: clipS(a, 400), Observed: clipS(b, 400)})
			}
		},
	})
}
