package checks

// C09 — exceptions reach the nearest matching handler and unwind cleanly.
// E1 over a product space: raise kind x raise site x call depth x receiver
// kind x module boundary x handler placement per level x handler body, with
// follow-up probes after the handler (caller locals, caller's 其, a callee local
// that must be gone, a second call of the same method, call depth and scope
// depth of the VM).  Oracle: reference interpreter.

import (
	"encoding/json"
	"fmt"
	"github.com/DemoHn/Zn/pkg/exec"
	"os"
	"path/filepath"
	"strings"
	"time"

	"verif/engine/mc"
	"verif/engine/zn"
)

type c09Params struct {
	Depth   int   `json:"depth"`    // 0..3: the raise happens in level Depth
	Kind    int   `json:"kind"`     // raise kind
	Site    int   `json:"site"`     // raise site
	Handler []int `json:"handlers"` // per level 0..Depth: 0 none 1 matching 2 non-matching 3 both
	Body    int   `json:"body"`     // handler body: 0 no 输出, 1 输出 v, 2 raises again, 3 no 输出 and a valued last expression
	Obj     bool  `json:"obj"`      // level 1 is a method of an object
	Mod     bool  `json:"module"`   // innermost level lives in an imported module
}

var c09Kinds = []string{"抛出异常", "抛出错", "取样越界", "解析JSON", "除零", "索引越界", "未定义", "抛出异常经别名", "抛出错经别名", "格式化非数值"}

// c09Explicit: raised by a 抛出 statement (the message is the program's own)
func c09Explicit(kind int) bool { return kind <= 1 || kind == 7 || kind == 8 }

var c09Sites = []string{"语句", "如果", "每当", "遍历", "构造", "拦截内", "遍历字典", "调用在遍历内", "再如条件"}

func c09ClassOf(kind int) string {
	if kind == 1 || kind == 8 {
		return "错"
	}
	return "异常"
}

func c09Show(args ...zn.Expr) zn.Stmt { return zn.ExprStmt{E: zn.Call{Name: "显示", Args: args}} }
func c09S(s string) zn.Expr           { return zn.Str{Val: s} }
func c09N(n int) zn.Expr              { return zn.Num{Lit: fmt.Sprint(n)} }
func c09V(n string) zn.Expr           { return zn.Var{Name: n} }

// the message of the explicit raises: a text that a formatting function would mangle
const c09Msg = "满100%d减5%s，折扣100%"

// the raising statement(s) of a kind
func c09Raise(kind int) []zn.Stmt {
	switch kind {
	case 0:
		return []zn.Stmt{zn.Throw{Class: "异常", Args: []zn.Expr{c09S(c09Msg)}}}
	case 1:
		return []zn.Stmt{zn.Throw{Class: "错", Args: []zn.Expr{c09S(c09Msg)}}}
	case 7, 8:
		// the exception type reached through another name: the exception is one of the TYPE, and
		// is handled by the handlers for that type
		return []zn.Stmt{zn.Decl{Pairs: []zn.DeclPair{{Names: []string{"别"}, Val: c09V(c09ClassOf(kind))}}},
			zn.Throw{Class: "别", Args: []zn.Expr{c09S(c09Msg)}}}
	case 2:
		return []zn.Stmt{zn.ExprStmt{E: zn.MCall{Root: c09S("abc"), Chain: []zn.Call{{Name: "取样", Args: []zn.Expr{c09N(0), c09N(1)}}}}}}
	case 9:
		// a failing built-in operation of another kind: a numeric directive of % given a text
		return []zn.Stmt{zn.ExprStmt{E: zn.Bin{Op: "%", L: c09S("{#.2}"), R: zn.List{Items: []zn.Expr{c09S("文")}}}}}
	case 3:
		return []zn.Stmt{zn.ExprStmt{E: zn.Call{Name: "解析JSON", Args: []zn.Expr{c09S("{")}}}}
	case 4:
		return []zn.Stmt{zn.ExprStmt{E: zn.Bin{Op: "/", L: c09N(1), R: c09N(0)}}}
	case 5:
		return []zn.Stmt{zn.ExprStmt{E: zn.Index{Root: zn.List{Items: []zn.Expr{c09N(1)}}, Idx: c09N(5)}}}
	default:
		return []zn.Stmt{c09Show(c09V("未有此名"))}
	}
}

// the raise wrapped by its site; defs receives extra definitions (constructor site)
func c09Site(site, kind int, defs *[]zn.Stmt) []zn.Stmt {
	raise := c09Raise(kind)
	switch site {
	case 0, 7:
		return raise
	case 1:
		return []zn.Stmt{zn.If{Cond: c09V("真"), Then: raise}}
	case 2:
		body := append([]zn.Stmt{zn.ExprStmt{E: zn.Assign{Target: c09V("圈"), Val: zn.Bin{Op: "+", L: c09V("圈"), R: c09N(1)}}}}, raise...)
		return []zn.Stmt{zn.Decl{Pairs: []zn.DeclPair{{Names: []string{"圈"}, Val: c09N(0)}}}, zn.While{Cond: zn.Bin{Op: "<", L: c09V("圈"), R: c09N(2)}, Body: body}}
	case 3:
		return []zn.Stmt{zn.Iter{Vars: []string{"元"}, Target: zn.List{Items: []zn.Expr{c09N(1), c09N(2)}}, Body: raise}}
	case 6:
		return []zn.Stmt{zn.Iter{Vars: []string{"键", "值"}, Target: zn.Dict{Pairs: []zn.DictPair{{Key: "乙", Val: c09N(1)}, {Key: "甲", Val: c09N(2)}}}, Body: raise}}
	case 8:
		// raised while the condition of a 再如 branch is evaluated (the 如果 condition was false):
		// no branch runs, nothing after the statement runs
		*defs = append(*defs, zn.Func{Name: "发", Body: append(append([]zn.Stmt{}, raise...), zn.Return{Val: c09N(0)})})
		return []zn.Stmt{zn.If{Cond: c09V("假"), Then: []zn.Stmt{c09Show(c09S("不到"))},
			Elifs:   []zn.Elif{{Cond: zn.Bin{Op: "==", L: zn.Call{Name: "发"}, R: c09N(0)}, Body: []zn.Stmt{c09Show(c09S("再如体"))}}},
			HasElse: true, Else: []zn.Stmt{c09Show(c09S("否则体"))}}}
	case 4:
		*defs = append(*defs,
			zn.Class{Name: "造", Props: []zn.Prop{{Name: "P", Val: c09N(1)}}},
			zn.Func{Name: "造", Ctor: true, Body: append([]zn.Stmt{c09Show(c09S("造"))}, raise...)})
		return []zn.Stmt{zn.Decl{Pairs: []zn.DeclPair{{Names: []string{"物造"}, Val: zn.New{Class: "造"}}}}}
	default:
		// raised inside a handler: an inner method raises 异常 "内", its handler's body raises the real thing
		*defs = append(*defs, zn.Func{Name: "内发", Body: []zn.Stmt{zn.Throw{Class: "异常", Args: []zn.Expr{c09S("内")}}},
			Catches: []zn.Catch{{Class: "异常", Body: append([]zn.Stmt{c09Show(c09S("内拦"))}, raise...)}}})
		return []zn.Stmt{zn.ExprStmt{E: zn.Call{Name: "内发"}}}
	}
}

func c09Handlers(level int, p c09Params) []zn.Catch {
	match, other := c09ClassOf(p.Kind), "错"
	if match == "错" {
		other = "异常"
	}
	body := func() []zn.Stmt {
		b := []zn.Stmt{c09Show(c09S("拦"), c09N(level))}
		if c09Explicit(p.Kind) {
			b = append(b, c09Show(zn.This{Name: "内容"}))
		}
		switch p.Body {
		case 1:
			b = append(b, zn.Return{Val: c09N(1000 + level)})
		case 2:
			b = append(b, zn.Throw{Class: "异常", Args: []zn.Expr{c09S("again")}})
		case 3:
			// no 输出, but the last statement is an expression with a value of its own
			b = append(b, zn.ExprStmt{E: zn.Group{E: zn.Bin{Op: "+", L: c09N(2000), R: c09N(level)}}})
		case 4:
			// the handler calls a method that raises and handles an exception of its own (with
			// 输出 in that inner handler), then goes on: 其 is still the OUTER exception and the
			// handler runs to its own 输出
			b = append(b, c09Show(c09S("内处"), zn.Call{Name: "内处"}))
			if c09Explicit(p.Kind) {
				b = append(b, c09Show(zn.This{Name: "内容"}))
			}
			b = append(b, c09Show(c09S("拦后"), c09N(level)), zn.Return{Val: c09N(3000 + level)})
		}
		return b
	}
	wrong := []zn.Stmt{c09Show(c09S("误拦"), c09N(level)), zn.Return{Val: c09N(-1)}}
	switch p.Handler[level] {
	case 1:
		return []zn.Catch{{Class: match, Body: body()}}
	case 2:
		return []zn.Catch{{Class: other, Body: wrong}}
	case 3:
		return []zn.Catch{{Class: other, Body: wrong}, {Class: match, Body: body()}}
	case 4:
		// the matching handler comes first: what IT raises leaves the body; the handler written
		// after it is not asked (a custom exception handled by re-raising 异常, with a 异常 handler behind)
		return []zn.Catch{{Class: match, Body: body()}, {Class: other, Body: wrong}}
	}
	return nil
}

// c09Build returns the main program and (if p.Mod) the imported module.
func c09Build(p c09Params) (main *zn.Program, ext *zn.Program) {
	var sharedDefs []zn.Stmt // definitions needed where the raise lives
	site := c09Site(p.Site, p.Kind, &sharedDefs)
	errClass := []zn.Stmt{
		zn.Class{Name: "错", Props: []zn.Prop{{Name: "内容", Val: c09S("")}}},
		zn.Func{Name: "错", Ctor: true, Params: []string{"M"}, Body: []zn.Stmt{zn.ExprStmt{E: zn.Assign{Target: zn.This{Name: "内容"}, Val: c09V("M")}}}},
	}
	level := func(l int) zn.Func {
		name := fmt.Sprintf("F%d", l)
		local := fmt.Sprintf("局%d", l)
		body := []zn.Stmt{
			zn.Decl{Pairs: []zn.DeclPair{{Names: []string{local}, Val: c09N(l * 10)}}},
			c09Show(c09S("入"), c09N(l), c09V("参")),
		}
		if l == p.Depth {
			// raise only on the first call (参 == 0), so that a second call completes
			body = append(body, zn.If{Cond: zn.Bin{Op: "==", L: c09V("参"), R: c09N(0)}, Then: site})
		} else {
			call := zn.Call{Name: fmt.Sprintf("F%d", l+1), Args: []zn.Expr{c09V("参")}}
			if p.Site == 7 {
				// the call sits in the body of a 遍历 loop of THIS (the calling) level
				rn := fmt.Sprintf("回%d", l)
				body = append(body, zn.Decl{Pairs: []zn.DeclPair{{Names: []string{rn}, Val: c09N(-3)}}},
					zn.Iter{Vars: []string{fmt.Sprintf("环%d", l)}, Target: zn.List{Items: []zn.Expr{c09N(1), c09N(2)}},
						Body: []zn.Stmt{zn.If{Cond: zn.Bin{Op: "==", L: c09V(fmt.Sprintf("环%d", l)), R: c09N(1)}, Then: []zn.Stmt{zn.ExprStmt{E: zn.Assign{Target: c09V(rn), Val: call}}}}}})
			} else {
				body = append(body, zn.Decl{Pairs: []zn.DeclPair{{Names: []string{fmt.Sprintf("回%d", l)}, Val: call}}})
			}
			body = append(body, c09Show(c09S("回"), c09N(l), c09V(fmt.Sprintf("回%d", l))))
		}
		body = append(body, c09Show(c09S("后"), c09N(l), c09V(local)))
		if p.Obj && l == 1 && !(p.Mod && p.Depth == 1) {
			body = append(body, c09Show(c09S("其数"), zn.This{Name: "数"}))
		}
		body = append(body, zn.Return{Val: c09N(l * 100)})
		return zn.Func{Name: name, Params: []string{"参"}, Body: body, Catches: c09Handlers(l, p)}
	}
	inner := zn.Func{Name: "内处", Body: []zn.Stmt{zn.Throw{Class: "异常", Args: []zn.Expr{c09S("内层")}}, zn.Return{Val: c09N(-5)}},
		Catches: []zn.Catch{{Class: "异常", Body: []zn.Stmt{c09Show(c09S("内处拦"), zn.This{Name: "内容"}), zn.Return{Val: c09N(7)}}}}}
	if p.Body == 4 {
		errClass = append(errClass, inner)
	}
	mainBody := []zn.Stmt{}
	imports := []zn.Import{}
	needJSON := p.Kind == 3
	if needJSON {
		imports = append(imports, zn.Import{Name: "@JSON", Lib: true})
	}
	if p.Mod && p.Depth >= 1 {
		ext = &zn.Program{}
		if needJSON {
			ext.Imports = append(ext.Imports, zn.Import{Name: "@JSON", Lib: true})
		}
		ext.Body = append(ext.Body, errClass...)
		ext.Body = append(ext.Body, sharedDefs...)
		ext.Body = append(ext.Body, level(p.Depth))
		imports = append(imports, zn.Import{Name: "外"})

	} else {
		mainBody = append(mainBody, errClass...)
		mainBody = append(mainBody, sharedDefs...)
	}
	// probe for a callee local that must be gone
	mainBody = append(mainBody, zn.Func{Name: "探", Body: []zn.Stmt{zn.Return{Val: c09V(fmt.Sprintf("局%d", p.Depth))}},
		Catches: []zn.Catch{{Class: "异常", Body: []zn.Stmt{zn.Return{Val: c09S("无")}}}}})
	first, last := 1, p.Depth
	if ext != nil {
		last = p.Depth - 1
	}
	if p.Obj && p.Depth >= 1 {
		// level 1 is a method of 型; F1 forwards to it
		if !(ext != nil && p.Depth == 1) {
			m := level(1)
			m.Name = "法"
			mainBody = append(mainBody, zn.Class{Name: "型", Props: []zn.Prop{{Name: "数", Val: c09N(42)}}, Methods: []zn.Func{m}})
			mainBody = append(mainBody, zn.Decl{Pairs: []zn.DeclPair{{Names: []string{"物"}, Val: zn.New{Class: "型"}}}})
			mainBody = append(mainBody, zn.Func{Name: "F1", Params: []string{"参"}, Body: []zn.Stmt{zn.Return{Val: zn.MCall{Root: c09V("物"), Chain: []zn.Call{{Name: "法", Args: []zn.Expr{c09V("参")}}}}}}})
			first = 2
		}
	}
	for l := first; l <= last; l++ {
		mainBody = append(mainBody, level(l))
	}
	mainBody = append(mainBody, zn.Decl{Pairs: []zn.DeclPair{{Names: []string{"主"}, Val: c09N(1)}}}, c09Show(c09S("始")))
	if p.Depth == 0 {
		mainBody = append(mainBody, site...)
		mainBody = append(mainBody, c09Show(c09S("后"), c09N(0), c09V("主")))
	} else {
		first1 := zn.Call{Name: "F1", Args: []zn.Expr{c09N(0)}}
		if p.Site == 7 {
			mainBody = append(mainBody, zn.Decl{Pairs: []zn.DeclPair{{Names: []string{"果"}, Val: c09N(-3)}}},
				zn.Iter{Vars: []string{"环0"}, Target: zn.List{Items: []zn.Expr{c09N(1), c09N(2)}},
					Body: []zn.Stmt{zn.If{Cond: zn.Bin{Op: "==", L: c09V("环0"), R: c09N(1)}, Then: []zn.Stmt{zn.ExprStmt{E: zn.Assign{Target: c09V("果"), Val: first1}}}}}})
		} else {
			mainBody = append(mainBody, zn.Decl{Pairs: []zn.DeclPair{{Names: []string{"果"}, Val: first1}}})
		}
		mainBody = append(mainBody,
			c09Show(c09S("果"), c09V("果"), c09V("主")),
			c09Show(c09S("探"), zn.Call{Name: "探"}),
			zn.Decl{Pairs: []zn.DeclPair{{Names: []string{"果二"}, Val: zn.Call{Name: "F1", Args: []zn.Expr{c09N(1)}}}}},
			c09Show(c09S("果二"), c09V("果二"), c09V("主")),
		)
	}
	mainBody = append(mainBody, c09Show(c09S("终")), zn.Return{Val: c09V("主")})
	main = &zn.Program{Imports: imports, Body: mainBody, Catches: c09Handlers(0, p)}
	return
}

func c09SetupRef(rf *zn.Ref) {
	unknown := func() *zn.ZErr { return &zn.ZErr{Class: "异常", Exc: &zn.XV{}} }
	rf.Libs = map[string]map[string]zn.V{"@JSON": {"解析JSON": &zn.FV{Builtin: "解析JSON"}, "生成JSON": &zn.FV{Builtin: "生成JSON"}}}
	rf.BuiltinHook = func(name string, args []zn.V) (zn.V, *zn.ZErr) { return nil, unknown() }
	rf.StrMethodHook = func(s string, name string, args []zn.V) (zn.V, *zn.ZErr) { return nil, unknown() }
}

type c09Case struct {
	Repeat int       `json:"handled_faults_in_one_run,omitempty"` // > 0: the repetition family (Kind = P.Kind)
	P      c09Params `json:"params"`
	Source string    `json:"source,omitempty"`
	Ext    string    `json:"module_source,omitempty"`
}

var c09Dir string

// c09RepeatCounts: how many faults are raised and handled, one after the other, in ONE run
// (the last count is beyond the interpreter's own limit of 100 000 nested evaluations: whatever a
// handled fault leaves behind, one unit per fault is enough to be seen)
var c09RepeatCounts = []int{1, 2, 10, 100, 1000, 5000, 20000, 120000}

// c09Repeat: a method raises (kind) and handles N times in a row; afterwards ordinary
// expressions still have their values, every block has ended and no call is left open.
func c09Repeat(kind, n int) *mc.Failure {
	raise := zn.Render(&zn.Program{Body: c09Raise(kind)}, nil)
	class := c09ClassOf(kind)
	pre := ""
	if kind == 3 {
		pre = "导入《@JSON》\n"
	}
	if kind == 1 || kind == 8 {
		pre += "定义错：\n    其内容 = “”\n如何新建错？\n    输入M\n    其内容 = M\n"
	}
	var body strings.Builder
	for _, ln := range strings.Split(strings.TrimRight(raise, "\n"), "\n") {
		body.WriteString("    " + ln + "\n")
	}
	src := pre + "如何险？\n    输入参\n    令局 = {参 + 1} * 2\n" + body.String() + "    输出1\n    拦截" + class + "：\n        输出-1\n" +
		"令次 = 0\n令果 = 0\n每当次 < " + fmt.Sprint(n) + "：\n    次 = 次 + 1\n    果 = 果 + （险：次）\n输出【次，果，1 + 1，{2 * 3} + 4，（险：0）】"
	cs := mc.J(c09Case{Repeat: n, P: c09Params{Kind: kind}, Source: src})
	got, vm := zn.RunRealVM(src, nil)
	if got.Panic != "" {
		return &mc.Failure{Kind: "panic", Bucket: "repeat:" + c09Kinds[kind], Case: cs, Observed: got.Panic, Detail: got.Stack}
	}
	want := zn.Canon(&zn.LV{Items: []zn.V{float64(n), float64(-n), float64(2), float64(10), float64(-1)}})
	if got.Err != nil || got.Val != want {
		obs := "value " + got.Val
		if got.Err != nil {
			obs = fmt.Sprintf("%s error %d %s", got.Err.Kind, got.Err.Code, clipS(got.Err.Msg, 200))
		}
		return &mc.Failure{Kind: "mismatch", Bucket: "repeat:" + c09Kinds[kind], Case: cs, Expected: fmt.Sprintf("after %d handled faults: %s", n, want), Observed: obs}
	}
	if vm != nil {
		if d := vm.VerifCallDepth(); d != 0 {
			return &mc.Failure{Kind: "mismatch", Bucket: "repeat:" + c09Kinds[kind], Case: cs, Expected: "call stack empty after the run", Observed: fmt.Sprintf("%d frames left", d)}
		}
		for _, st := range vm.VerifScopeStats() {
			if st.Depth != 0 {
				return &mc.Failure{Kind: "mismatch", Bucket: "repeat:" + c09Kinds[kind], Case: cs, Expected: "all blocks ended", Observed: fmt.Sprintf("module %d depth %d live %d", st.ModuleID, st.Depth, st.Live)}
			}
		}
	}
	return nil
}

func c09Check(p c09Params) *mc.Failure {
	main, ext := c09Build(p)
	src := zn.Render(main, nil)
	extSrc := ""
	if ext != nil {
		extSrc = zn.Render(ext, nil)
	}
	cs := func() json.RawMessage { return mc.J(c09Case{P: p, Source: src, Ext: extSrc}) }
	rf := zn.NewRef()
	c09SetupRef(rf)
	if ext != nil {
		rf.Modules = map[string]*zn.Program{"外": ext}
	}
	want, werr, aborted := rf.RunProgram(main, nil)
	if aborted {
		return &mc.Failure{Kind: "crash", Case: cs(), Observed: "reference step limit"}
	}
	if rf.Open {
		return nil
	}
	zn.ObjPropNames = []string{"数", "内容", "P"}
	var got zn.Outcome
	callDepth, scopeBad := -1, ""
	if ext != nil {
		if c09Dir == "" {
			d, err := os.MkdirTemp("", "c09-")
			if err != nil {
				return &mc.Failure{Kind: "crash", Case: cs(), Observed: err.Error()}
			}
			c09Dir = d
		}
		_ = os.WriteFile(filepath.Join(c09Dir, "主.zn"), []byte(src), 0o644)
		_ = os.WriteFile(filepath.Join(c09Dir, "外.zn"), []byte(extSrc), 0o644)
		got = zn.RunRealFile(filepath.Join(c09Dir, "主.zn"), nil)
	} else {
		var vm interface {
			VerifCallDepth() int
		}
		o, v := zn.RunRealVM(src, nil)
		got = o
		if v != nil && got.Err == nil && got.Panic == "" {
			vm = v
			callDepth = vm.VerifCallDepth()
			for _, st := range v.VerifScopeStats() {
				if st.Depth != 0 {
					scopeBad = fmt.Sprintf("module %d depth %d live %d", st.ModuleID, st.Depth, st.Live)
				}
			}
		}
	}
	bucket := func(b string) string {
		return fmt.Sprintf("%s/d%d/%s/%s/h%v/b%d/obj=%v/mod=%v", b, p.Depth, c09Kinds[p.Kind], c09Sites[p.Site], p.Handler, p.Body, p.Obj, p.Mod)
	}
	short := func(b string) string {
		return fmt.Sprintf("%s:%s:%s:mod=%v", b, c09Kinds[p.Kind], c09Sites[p.Site], p.Mod)
	}
	_ = bucket
	if got.Panic != "" {
		return &mc.Failure{Kind: "panic", Bucket: short("panic"), Case: cs(), Observed: got.Panic, Detail: got.Stack}
	}
	wt, gt := strings.Join(rf.Trace, " | "), strings.Join(got.Trace, " | ")
	if werr != nil {
		if got.Err == nil {
			return &mc.Failure{Kind: "mismatch", Bucket: short("accepted"), Case: cs(), Expected: fmt.Sprintf("ends with exception of class %s after trace %s", werr.Class, wt), Observed: "completed " + got.Val + ", trace " + gt}
		}
		if wt != gt {
			return &mc.Failure{Kind: "mismatch", Bucket: short("trace-before-error"), Case: cs(), Expected: "trace " + wt, Observed: "trace " + gt}
		}
		// the uncaught exception ends the program "with its message"
		if x, ok := werr.Exc.(*zn.XV); ok && x.MsgKnown && got.Err.Kind == "exception" && got.Err.ExcClass == "异常" && got.Err.Msg != x.Msg {
			return &mc.Failure{Kind: "mismatch", Bucket: short("message"), Case: cs(), Expected: "message " + x.Msg, Observed: got.Err.Msg}
		}
		// ... also in what the user is shown: the rendered report carries the message verbatim
		if x, ok := werr.Exc.(*zn.XV); ok && x.MsgKnown && got.Err.Kind == "exception" && got.RawErr != nil {
			raw := got.RawErr
			if ext == nil {
				// the in-memory run returns the evaluator's bare error: what the user is shown is what
				// Interpreter.Execute returns for the same program
				raw = zn.RunReal(src, nil).RawErr
			}
			if raw == nil {
				return &mc.Failure{Kind: "mismatch", Bucket: short("rendered-message"), Case: cs(), Expected: "Interpreter.Execute ends with the exception as well", Observed: "no error"}
			}
			// (the report also quotes the source line, which holds the message as a literal: look
			// at its last line, "…异常：<message>")
			rep := exec.DisplayError(raw)
			last := ""
			for _, ln := range strings.Split(rep, "\n") {
				if strings.TrimSpace(ln) != "" {
					last = ln
				}
			}
			if !strings.HasSuffix(strings.TrimRight(last, " "), x.Msg) {
				return &mc.Failure{Kind: "mismatch", Bucket: short("rendered-message"), Case: cs(), Expected: "the report shown to the user contains the message " + x.Msg, Observed: clipS(rep, 300)}
			}
		}
		return nil
	}
	if got.Err != nil {
		return &mc.Failure{Kind: "mismatch", Bucket: short("rejected"), Case: cs(), Expected: "completes, trace " + wt, Observed: fmt.Sprintf("%s error %d %s after trace %s", got.Err.Kind, got.Err.Code, got.Err.Msg, gt)}
	}
	if wt != gt {
		return &mc.Failure{Kind: "mismatch", Bucket: short("trace"), Case: cs(), Expected: "trace " + wt, Observed: "trace " + gt}
	}
	if want != nil && got.Val != zn.Canon(want) {
		return &mc.Failure{Kind: "mismatch", Bucket: short("result"), Case: cs(), Expected: "result " + zn.Canon(want), Observed: "result " + got.Val}
	}
	if callDepth > 0 {
		return &mc.Failure{Kind: "mismatch", Bucket: short("call-depth"), Case: cs(), Expected: "call stack empty after the run", Observed: fmt.Sprintf("%d frames left", callDepth)}
	}
	if scopeBad != "" {
		return &mc.Failure{Kind: "mismatch", Bucket: short("scope-depth"), Case: cs(), Expected: "all blocks ended", Observed: scopeBad}
	}
	return nil
}

// enumerate the product space; returns total count and an unranker
// handler bodies: 0 no 输出 (ends with 显示), 1 输出 v, 2 raises again, 3 no 输出 but ends with a valued expression
const c09NBodies = 5

// handler placements per level: none, matching, non-matching, non-matching + matching, matching + non-matching
const c09NHandlers = 5

func c09Space(maxDepth int) (int64, func(k int64) c09Params) {
	type dim struct{ depth int }
	var sizes []int64
	for d := 0; d <= maxDepth; d++ {
		n := int64(len(c09Kinds) * len(c09Sites) * c09NBodies) // kind site body
		n *= pow64(c09NHandlers, d+1)                          // handlers per level
		if d >= 1 {
			n *= 4 // obj x mod
		}
		sizes = append(sizes, n)
	}
	var total int64
	for _, s := range sizes {
		total += s
	}
	return total, func(k int64) c09Params {
		d := 0
		for k >= sizes[d] {
			k -= sizes[d]
			d++
		}
		p := c09Params{Depth: d}
		p.Kind = int(k % int64(len(c09Kinds)))
		k /= int64(len(c09Kinds))
		p.Site = int(k % int64(len(c09Sites)))
		k /= int64(len(c09Sites))
		p.Body = int(k % c09NBodies)
		k /= c09NBodies
		for l := 0; l <= d; l++ {
			p.Handler = append(p.Handler, int(k%c09NHandlers))
			k /= c09NHandlers
		}
		if d >= 1 {
			p.Obj = k%2 == 1
			k /= 2
			p.Mod = k%2 == 1
		}
		return p
	}
}

func init() {
	mc.Register(&mc.Check{
		ID:    "C09",
		Level: "exploration",
		Rule:  "E1 exhaustive over the product: raise kind {抛出异常, 抛出 custom type, both also through a variable that holds the type, failing built-in (取样 out of range; a numeric % directive given a text), failing library call (解析JSON), 1 / 0, index out of range, undefined name} x raise site {statement, in 如果, in 每当, in 遍历 over a list, in 遍历 over a dictionary, in a constructor, inside a handler, statement with every caller's call inside a 遍历 loop of the caller, in the condition of a 再如 branch} x call depth 0..D x handler placement per level {none, matching, non-matching, non-matching+matching, matching+non-matching} x handler body {no 输出, 输出 v, raises again, no 输出 but a valued expression as last statement, calls a method that raises and handles an exception of its own and then goes on using 其} x level 1 plain method / method of an object x innermost level in the main file / in an imported module; every program runs follow-up probes after the handled call: caller locals, caller's 其, a callee local that must be gone (guarded read), a second call of the same chain, final result; on in-memory runs also the VM's call depth and scope depth. Plus, for every raise kind, a method that raises and handles N = 1, 2, 10, 100, 1000, 5000, 20000, 120000 times in one run: afterwards ordinary expressions have their values, every block has ended, no call is left open. Oracle: reference interpreter. Distinct by construction; non-trivial = at least one handler present.",
		Assumptions: []string{
			"reference semantics from manual ch.4: runtime faults and failing built-ins are exceptions of class 异常; handler value is its 输出 or 空",
			"the message text of faults / built-in failures is not compared (其内容 is displayed only for 抛出 with a known message)",
			"call depth above D is not covered",
		},
		Budget: func(tier string) time.Duration {
			if tier == "thorough" {
				return 20 * time.Minute
			}
			return 300 * time.Second
		},
		Run: func(c *mc.Ctx) {
			D := 2
			if c.Tier == "thorough" {
				D = 3
			}
			total, unrank := c09Space(D)
			c.Describe = func(idx int64) json.RawMessage { return mc.J(c09Case{P: unrank(idx)}) }
			defer func() {
				if c09Dir != "" {
					os.RemoveAll(c09Dir)
				}
			}()
			for k := int64(0); k < total; k++ {
				if !c.Mine(k) {
					continue
				}
				if c.Due(0xFF) {
					c.Note("deadline hit")
					return
				}
				c.CaseIdx(k)
				p := unrank(k)
				f := c09Check(p)
				hasHandler := false
				for _, h := range p.Handler {
					if h != 0 {
						hasHandler = true
					}
				}
				c.Eval(hasHandler)
				c.Stat(fmt.Sprintf("programs_depth_%d", p.Depth), 1)
				if f != nil {
					c.Fail(*f)
				}
				if c.WantSample() && k%4099 == 17 {
					m, _ := c09Build(p)
					c.Sample(map[string]any{"params": p, "source": zn.Render(m, nil)})
				}
			}
			c.Bound("call_depth", D)
			// repetition family: N faults raised and handled in one run, for every raise kind
			c.Describe = func(idx int64) json.RawMessage {
				k := idx - total
				return mc.J(c09Case{Repeat: c09RepeatCounts[k%int64(len(c09RepeatCounts))], P: c09Params{Kind: int(k / int64(len(c09RepeatCounts)))}})
			}
			for k := int64(0); k < int64(len(c09Kinds)*len(c09RepeatCounts)); k++ {
				if !c.Mine(total + k) {
					continue
				}
				c.CaseIdx(total + k)
				if c09RepeatCounts[k%int64(len(c09RepeatCounts))] >= 20000 {
					c.AllowSlow(200)
				}
				if f := c09Repeat(int(k/int64(len(c09RepeatCounts))), c09RepeatCounts[k%int64(len(c09RepeatCounts))]); f != nil {
					c.Fail(*f)
				}
				c.Eval(true)
				c.Stat("repetition_programs", 1)
			}
			c.Bound("handled_faults_in_one_run", c09RepeatCounts)
		},
		Replay: func(c *mc.Ctx, raw json.RawMessage) {
			var cs c09Case
			if err := json.Unmarshal(raw, &cs); err != nil {
				c.Fail(mc.Failure{Kind: "crash", Observed: err.Error()})
				return
			}
			if cs.Repeat > 0 {
				if f := c09Repeat(cs.P.Kind, cs.Repeat); f != nil {
					c.Fail(*f)
				}
				return
			}
			if f := c09Check(cs.P); f != nil {
				c.Fail(*f)
			}
			if c09Dir != "" {
				os.RemoveAll(c09Dir)
			}
		},
	})
}
