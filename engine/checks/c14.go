package checks

// C14 — text operations count characters; % formatting follows the directives.
//
// Three bounded-exhaustive sub-checks (nothing is sampled):
//
//  1. character arithmetic: every text of <= 3 characters over {a é 你 😀 U+0301}
//     x every (i, j) in [-5,5]^2 for 取样 (through the real value and end to end),
//     长度 / 字符组 against the code points, 分隔 by every 1..2-character separator;
//  2. templates: every template of <= L characters over {x 你 { } # + . 2 0 % E}
//     x argument lists of length p-1, p, p+1 over {-3.14159, “s”}, real `T % A`
//     against a reference scanner written from manual chapter 6;
//  3. numeric renderings: every directive form x precision N x boundary double,
//     expected strings from Python's %-formatting (one batch process per worker).

import (
	"bytes"
	"encoding/json"
	"fmt"
	"math"
	"math/big"
	"os"
	osexec "os/exec"
	"path/filepath"
	"runtime/debug"
	"strconv"
	"strings"
	"sync"
	"time"
	"unicode/utf8"

	"github.com/DemoHn/Zn/pkg/exec"
	r "github.com/DemoHn/Zn/pkg/runtime"
	"github.com/DemoHn/Zn/pkg/syntax"
	"github.com/DemoHn/Zn/pkg/syntax/zh"
	"github.com/DemoHn/Zn/pkg/value"

	"verif/engine/mc"
	"verif/engine/zn"
)

// ------------------------------------------------------------------ alphabets

var c14Alpha = []rune{'a', 0x00E9, 0x4F60, 0x1F600, 0x0301, 0xFFFD} // a é 你 😀 combining acute, the replacement character (a character like any other)
var c14Sym = []rune{'x', 0x4F60, '{', '}', '#', '+', '.', '2', '0', '%', 'E'}

const c14ArgNum = -3.14159
const c14ArgStr = "s{}{#.1}" // (a text that itself spells placeholders: it is copied, never filled in)

// boundary doubles of sub-check 3 (finite ones asserted, non-finite dont_care)
var c14Doubles = []float64{
	0, math.Copysign(0, -1), 0.5, 1.5, 2.5, -0.5, -1.5, -2.5, 9.995, 0.045, 0.125, 0.375, 1.005, 4.35, 0.285,
	123456.5, 999999.5, 99999.95, 100000, 1e6, 1e15, 9007199254740992, 1e21, 1e22, 1e100,
	1e-7, 1e-4, 1e-5, 0.0001234565, 0.00001234565, 5e-324, 2.2250738585072014e-308, 1.7976931348623157e308,
	-1, 1, 5, -3, 1234, 12.3456789, 0.876, 12345, 3.14159, -3.14159, 98.765, 123.456789, 0.1, 1.0 / 3, 2.0 / 3,
	0.13208945, -1234.56789, -398.77775, 13.208945,
	math.Inf(1), math.Inf(-1), math.NaN(),
}

var c14Ns = func() []string {
	var out []string
	for n := 0; n <= 20; n++ {
		out = append(out, strconv.Itoa(n))
	}
	return append(out, "99", "10000000000000000000", "99999999999999999999")
}()

// directive bodies (the text after '#') of sub-check 3
func c14NumDirectives() []string {
	out := []string{"", "+", "E", "%", "+E", "+%", ".", "+.", ".E", ".%", "+.E", "+.%"}
	for _, n := range c14Ns {
		out = append(out, "."+n, "."+n+"%", "."+n+"E", "+."+n, "+."+n+"%", "+."+n+"E")
	}
	// malformed directives: an error is required for every argument
	out = append(out, "E%", "%E", "++", ".2.", "2", "+2", "E2", "%2", ".2+", "E+", "%+", " ", "x", ".2x", "#", "-", ".-2", "e", ".2e", ".2f", ".2F", ".２", "+ ", ". 2", "..2", ".2EE", ".2%%")
	return out
}

// manual chapter 6's own examples: ground truth, executed from literal source.
var c14Manual = []struct{ src, want string }{
	{"输出“A{}” % 【“BCD”】", "ABCD"},
	{"输出“{}年{}月{}日” % 【2025，7，3】", "2025年7月3日"},
	{"输出“数值为{#}” % 【123.456789】", "数值为123.457"},
	{"输出“保留两位小数：{#.2}” % 【3.14159】", "保留两位小数：3.14"},
	{"输出“变化：{#+}” % 【5】", "变化：+5"},
	{"输出“变化：{#+}” % 【-3】", "变化：-3"},
	{"输出“变化：{#+}” % 【0】", "变化：+0"},
	{"输出“完成率：{#.1%}” % 【0.876】", "完成率：87.6%"},
	{"输出“科学计数：{#.2E}” % 【12345】", "科学计数：1.23E+04"},
	{"输出“姓名：{}，分数：{#.1}” % 【“张三”，98.765】", "姓名：张三，分数：98.8"},
}

// ------------------------------------------------------------------ case

type c14Case struct {
	Mode     string   `json:"mode"` // slice | len | split | tmpl | tmpl-all | manual
	E2E      bool     `json:"end_to_end,omitempty"`
	Text     []int    `json:"text,omitempty"` // code points (lossless)
	Shown    string   `json:"text_shown,omitempty"`
	I        int      `json:"i,omitempty"`
	J        int      `json:"j,omitempty"`
	Sep      []int    `json:"sep,omitempty"`
	Template string   `json:"template,omitempty"`
	Args     []string `json:"args,omitempty"` // "n:<double>" | "s:<text>" | "b:真" | "null" | "list"
	Literal  bool     `json:"template_as_literal,omitempty"`
	PreParse bool     `json:"program_parsed_once,omitempty"`
	K        int      `json:"k,omitempty"` // manual example number
	Source   string   `json:"source,omitempty"`
	Ops      []int    `json:"ops,omitempty"` // mode seq: operations applied in turn to ONE text value
}

func c14ArgEnc(v zn.V) string {
	switch x := v.(type) {
	case float64:
		return "n:" + strconv.FormatFloat(x, 'g', -1, 64)
	case string:
		return "s:" + x
	case bool:
		if x {
			return "b:真"
		}
		return "b:假"
	case zn.Null:
		return "null"
	}
	return "list"
}

func c14ArgDec(s string) zn.V {
	switch {
	case strings.HasPrefix(s, "n:"):
		f, _ := strconv.ParseFloat(s[2:], 64)
		return f
	case strings.HasPrefix(s, "s:"):
		return s[2:]
	case s == "b:真":
		return true
	case s == "b:假":
		return false
	case s == "null":
		return zn.Null{}
	}
	return &zn.LV{Items: []zn.V{1.0}}
}

func c14EncArgs(args []zn.V) []string {
	out := make([]string, len(args))
	for i, a := range args {
		out[i] = c14ArgEnc(a)
	}
	return out
}

func c14Multibyte(t []rune) bool {
	for _, ch := range t {
		if ch >= 0x80 {
			return true
		}
	}
	return false
}

// ------------------------------------------------------------------ sub-check 1

// c14IsRun: res is valid UTF-8 and a contiguous run of whole characters of t.
func c14IsRun(t []rune, res string) bool {
	if !utf8.ValidString(res) {
		return false
	}
	for a := 0; a <= len(t); a++ {
		for b := a; b <= len(t); b++ {
			if string(t[a:b]) == res {
				return true
			}
		}
	}
	return false
}

type c14Got struct {
	err   string // non-empty: the operation reported an error
	elem  r.Element
	panic string
}

func c14Direct(fn func() (r.Element, error)) (g c14Got) {
	defer func() {
		if p := recover(); p != nil {
			g = c14Got{panic: fmt.Sprint(p)}
		}
	}()
	e, err := fn()
	if err != nil {
		return c14Got{err: err.Error()}
	}
	return c14Got{elem: e}
}

func c14Real(src string, in map[string]r.Element) c14Got {
	o := zn.RunReal(src, in)
	if o.Panic != "" {
		return c14Got{panic: o.Panic}
	}
	if o.Err != nil {
		return c14Got{err: fmt.Sprintf("%s error %d %s", o.Err.Kind, o.Err.Code, o.Err.Msg)}
	}
	return c14Got{elem: o.Elem}
}

func c14Strings(e r.Element) ([]string, bool) {
	arr, ok := e.(*value.Array)
	if !ok || arr == nil {
		return nil, false
	}
	var out []string
	for _, it := range arr.GetValue() {
		s, ok := it.(*value.String)
		if !ok || s == nil {
			return nil, false
		}
		out = append(out, s.GetValue())
	}
	return out, true
}

func c14Slice(t []rune, i, j int, e2e bool) *mc.Failure {
	s := string(t)
	src := ""
	var g c14Got
	if e2e {
		src = fmt.Sprintf("输出以“%s”（取样：%d、%d）", zn.EncodeStr(s), i, j)
		g = c14Real(src, nil)
	} else {
		g = c14Direct(func() (r.Element, error) {
			return value.NewString(s).ExecMethod("取样", []r.Element{value.NewNumber(float64(i)), value.NewNumber(float64(j))})
		})
	}
	cs := func() json.RawMessage {
		return mc.J(c14Case{Mode: "slice", E2E: e2e, Text: toInts(t), Shown: s, I: i, J: j, Source: src})
	}
	if g.panic != "" {
		return &mc.Failure{Kind: "panic", Bucket: "slice:panic", Case: cs(), Observed: g.panic}
	}
	// known defect: 取样 indexes the bytes of the text.  A failure gets the
	// signature only if the text has a multi-byte character and the observed
	// text is exactly bytes i..j (negative indices counted from the byte end).
	sig := ""
	if str, ok := g.elem.(*value.String); ok && str != nil && g.err == "" && c14Multibyte(t) {
		if m, ok := c14ByteSlice(s, i, j); ok && m == str.GetValue() {
			sig = "slice-bytes-not-chars"
		}
	}
	if f := c14SliceJudge(t, i, j, g, cs); f != nil {
		f.Sig = sig
		return f
	}
	return nil
}

// c14ByteSlice: what 取样 gives when i and j count bytes instead of characters.
func c14ByteSlice(s string, i, j int) (string, bool) {
	n := len(s)
	if i < 0 {
		i = n + i + 1
	}
	if i < 1 || j > n {
		return "", false
	}
	if j < 0 {
		j = n + j + 1
	}
	if i > j {
		return "", true
	}
	return s[i-1 : j], true
}

func c14SliceJudge(t []rune, i, j int, g c14Got, cs func() json.RawMessage) *mc.Failure {
	inRange := 1 <= i && i <= j && j <= len(t)
	if inRange {
		want := string(t[i-1 : j])
		if g.err != "" {
			return &mc.Failure{Kind: "mismatch", Bucket: "slice:in-range", Case: cs(), Expected: fmt.Sprintf("characters %d..%d of the character array: %q", i, j, want), Observed: "error: " + g.err}
		}
		str, ok := g.elem.(*value.String)
		if !ok || str == nil || str.GetValue() != want {
			return &mc.Failure{Kind: "mismatch", Bucket: "slice:in-range", Case: cs(), Expected: fmt.Sprintf("characters %d..%d of the character array: %q", i, j, want), Observed: c14Show(g.elem)}
		}
		return nil
	}
	// outside 1 <= i <= j <= 长度 the convention (negative = from the end, reversed = empty, ...)
	// is not documented, but "counts characters consistently" means it is the SAME convention
	// for every text: what 取样 does to an ASCII text of the same length, position for position
	twin := []rune("abcdefghijklmnopqrstuvwxyz")[:len(t)]
	tw := c14Direct(func() (r.Element, error) {
		return value.NewString(string(twin)).ExecMethod("取样", []r.Element{value.NewNumber(float64(i)), value.NewNumber(float64(j))})
	})
	if tws, isStr := tw.elem.(*value.String); tw.panic == "" && tw.err == "" && isStr && tws != nil {
		sub := []rune(tws.GetValue())
		a := 0
		if len(sub) > 0 {
			a = strings.IndexRune(string(twin), sub[0])
		}
		if a >= 0 && a+len(sub) <= len(t) && string(twin[a:a+len(sub)]) == string(sub) {
			want := string(t[a : a+len(sub)])
			str, ok := g.elem.(*value.String)
			if g.err != "" || !ok || str == nil || str.GetValue() != want {
				obs := g.err
				if obs == "" {
					obs = c14Show(g.elem)
				}
				return &mc.Failure{Kind: "mismatch", Bucket: "slice:same-positions-as-ascii", Case: cs(), Expected: fmt.Sprintf("%q: the characters at the positions that 取样：%d、%d selects in an ASCII text of the same length (%q of %q)", want, i, j, string(sub), string(twin)), Observed: obs}
			}
			return nil
		}
	} else if tw.panic == "" && tw.err != "" && g.err == "" {
		return &mc.Failure{Kind: "mismatch", Bucket: "slice:same-positions-as-ascii", Case: cs(), Expected: "an error, as for an ASCII text of the same length", Observed: c14Show(g.elem)}
	}
	if g.err != "" {
		return nil
	}
	str, ok := g.elem.(*value.String)
	if !ok || str == nil || !c14IsRun(t, str.GetValue()) {
		return &mc.Failure{Kind: "mismatch", Bucket: "slice:out-of-range", Case: cs(), Expected: "an error, or a contiguous run of whole characters of the text (valid UTF-8)", Observed: c14Show(g.elem)}
	}
	return nil
}

func c14Show(e r.Element) string {
	if s, ok := e.(*value.String); ok && s != nil {
		v := s.GetValue()
		if !utf8.ValidString(v) {
			return fmt.Sprintf("text %q (not valid UTF-8: a character was split)", v)
		}
		return fmt.Sprintf("text %q", v)
	}
	return "value " + zn.CanonElem(e)
}

// c14Len: 长度 == len(字符组) == number of code points; 字符组 lists the code points.
func c14Len(t []rune, e2e bool) *mc.Failure {
	s := string(t)
	cs := func(src string) json.RawMessage {
		return mc.J(c14Case{Mode: "len", E2E: e2e, Text: toInts(t), Shown: s, Source: src})
	}
	var gl, gc c14Got
	srcL, srcC := "", ""
	if e2e {
		srcL = fmt.Sprintf("输出“%s”之长度", zn.EncodeStr(s))
		srcC = fmt.Sprintf("输出“%s”之字符组", zn.EncodeStr(s))
		gl, gc = c14Real(srcL, nil), c14Real(srcC, nil)
	} else {
		gl = c14Direct(func() (r.Element, error) { return value.NewString(s).GetProperty("长度") })
		gc = c14Direct(func() (r.Element, error) { return value.NewString(s).GetProperty("字符组") })
	}
	if gl.panic != "" || gc.panic != "" {
		return &mc.Failure{Kind: "panic", Bucket: "len:panic", Case: cs(srcL), Observed: gl.panic + gc.panic}
	}
	n, ok := gl.elem.(*value.Number)
	if gl.err != "" || !ok || n == nil || n.GetValue() != float64(len(t)) {
		obs := gl.err
		if obs == "" {
			obs = c14Show(gl.elem)
		}
		return &mc.Failure{Kind: "mismatch", Bucket: "len:length", Case: cs(srcL), Expected: fmt.Sprintf("长度 = %d (code points)", len(t)), Observed: obs}
	}
	want := make([]string, len(t))
	for i, ch := range t {
		want[i] = string(ch)
	}
	chars, ok := c14Strings(gc.elem)
	if gc.err != "" || !ok || strings.Join(chars, "\x00") != strings.Join(want, "\x00") || len(chars) != len(want) {
		obs := gc.err
		if obs == "" {
			obs = c14Show(gc.elem)
		}
		return &mc.Failure{Kind: "mismatch", Bucket: "len:chars", Case: cs(srcC), Expected: fmt.Sprintf("字符组 = %q", want), Observed: obs}
	}
	return nil
}

func c14Split(t, sep []rune, e2e bool) *mc.Failure {
	s, sp := string(t), string(sep)
	src := ""
	var g c14Got
	if e2e {
		src = fmt.Sprintf("输出以“%s”（分隔：“%s”）", zn.EncodeStr(s), zn.EncodeStr(sp))
		g = c14Real(src, nil)
	} else {
		g = c14Direct(func() (r.Element, error) {
			return value.NewString(s).ExecMethod("分隔", []r.Element{value.NewString(sp)})
		})
	}
	cs := func() json.RawMessage {
		return mc.J(c14Case{Mode: "split", E2E: e2e, Text: toInts(t), Shown: s, Sep: toInts(sep), Source: src})
	}
	if g.panic != "" {
		return &mc.Failure{Kind: "panic", Bucket: "split:panic", Case: cs(), Observed: g.panic}
	}
	exp := fmt.Sprintf("pieces of whole characters, none containing %q, that re-join with it to %q", sp, s)
	if g.err != "" {
		return &mc.Failure{Kind: "mismatch", Bucket: "split:error", Case: cs(), Expected: exp, Observed: "error: " + g.err}
	}
	ps, ok := c14Strings(g.elem)
	if !ok {
		return &mc.Failure{Kind: "mismatch", Bucket: "split:type", Case: cs(), Expected: exp, Observed: c14Show(g.elem)}
	}
	bad := strings.Join(ps, sp) != s
	for _, p := range ps {
		if !c14IsRun(t, p) || strings.Contains(p, sp) {
			bad = true
		}
	}
	if bad {
		return &mc.Failure{Kind: "mismatch", Bucket: "split:pieces", Case: cs(), Expected: exp, Observed: fmt.Sprintf("%q", ps)}
	}
	return nil
}

func c14Texts() [][]rune {
	var out [][]rune
	for n := 0; n <= 3; n++ {
		for k := int64(0); k < pow64(len(c14Alpha), n); k++ {
			out = append(out, append([]rune{}, c13Unrank(c14Alpha, n, k, nil)...))
		}
	}
	return out
}

func c14Seps() [][]rune {
	var out [][]rune
	for n := 1; n <= 2; n++ {
		for k := int64(0); k < pow64(len(c14Alpha), n); k++ {
			out = append(out, append([]rune{}, c13Unrank(c14Alpha, n, k, nil)...))
		}
	}
	return out
}

// ------------------------------------------------------------------ sub-check 4: operation sequences on one text value

var c14SeqTexts = []string{"2*10^3", "3*^2", "é*10^2", "12", "é你😀", " 4*10^1"}

var c14SeqOps = []struct {
	name string
	stmt string // end-to-end form, applied to the variable X
	do   func(s *value.String) (r.Element, error)
}{
	{"长度", "X之长度", func(s *value.String) (r.Element, error) { return s.GetProperty("长度") }},
	{"字符组", "X之字符组", func(s *value.String) (r.Element, error) { return s.GetProperty("字符组") }},
	{"取样", "以X（取样：1、1）", func(s *value.String) (r.Element, error) {
		return s.ExecMethod("取样", []r.Element{value.NewNumber(1), value.NewNumber(1)})
	}},
	{"转换数值", "以X（转换数值）", func(s *value.String) (r.Element, error) { return s.ExecMethod("转换数值", nil) }},
	{"去除空格", "以X（去除空格）", func(s *value.String) (r.Element, error) { return s.ExecMethod("去除空格", nil) }},
	{"拼接", "以X（拼接：“z”）", func(s *value.String) (r.Element, error) {
		return s.ExecMethod("拼接", []r.Element{value.NewString("z")})
	}},
	{"分隔", "以X（分隔：“*”）", func(s *value.String) (r.Element, error) {
		return s.ExecMethod("分隔", []r.Element{value.NewString("*")})
	}},
	{"替换", "以X（替换：“1”、“7”）", func(s *value.String) (r.Element, error) {
		return s.ExecMethod("替换", []r.Element{value.NewString("1"), value.NewString("7")})
	}},
}

// c14SeqConsistent: 长度, 字符组 and 取样 of the value all describe the text the value holds NOW.
func c14SeqConsistent(cur string, gl, gc, gs c14Got) (string, string) {
	t := []rune(cur)
	if gl.panic != "" || gc.panic != "" || gs.panic != "" {
		return "no crash", "panic: " + gl.panic + gc.panic + gs.panic
	}
	n, ok := gl.elem.(*value.Number)
	if gl.err != "" || !ok || n == nil || n.GetValue() != float64(len(t)) {
		return fmt.Sprintf("长度 = %d, the number of characters of the text %q the value now holds", len(t), cur), gl.err + c14ShowN(gl.elem)
	}
	chars, ok := c14Strings(gc.elem)
	want := make([]string, len(t))
	for i, ch := range t {
		want[i] = string(ch)
	}
	if gc.err != "" || !ok || len(chars) != len(want) || strings.Join(chars, "\x00") != strings.Join(want, "\x00") {
		return fmt.Sprintf("字符组 = %q, the characters of the text %q the value now holds", want, cur), gc.err + c14ShowN(gc.elem)
	}
	if len(t) > 0 {
		str, ok := gs.elem.(*value.String)
		if gs.err != "" || !ok || str == nil || str.GetValue() != cur {
			return fmt.Sprintf("取样：1、长度 = the whole text %q", cur), gs.err + c14ShowN(gs.elem)
		}
	}
	return "", ""
}

func c14ShowN(e r.Element) string {
	if e == nil {
		return ""
	}
	return c14Show(e)
}

func c14SeqOf(k int64) []int {
	// k enumerates sequences of length 0..3 over the operations, shortest first
	nOps := int64(len(c14SeqOps))
	n := 0
	for k >= pow64(int(nOps), n) {
		k -= pow64(int(nOps), n)
		n++
	}
	ops := make([]int, n)
	for i := range ops {
		ops[i] = int(k % nOps)
		k /= nOps
	}
	return ops
}

func c14SeqCount() int64 {
	t := int64(0)
	for n := 0; n <= 3; n++ {
		t += pow64(len(c14SeqOps), n)
	}
	return t
}

// c14Seq applies ops in turn to one text value and, after every step, compares
// 长度 / 字符组 / 取样 with the text the value holds at that moment.
func c14Seq(text string, ops []int, e2e bool) *mc.Failure {
	cs := func(src string) json.RawMessage {
		return mc.J(c14Case{Mode: "seq", E2E: e2e, Text: toInts([]rune(text)), Shown: text, Ops: ops, Source: src})
	}
	names := func(upto int) string {
		var ns []string
		for _, o := range ops[:upto] {
			ns = append(ns, c14SeqOps[o].name)
		}
		return strings.Join(ns, " → ")
	}
	if !e2e {
		var f *mc.Failure
		func() {
			defer func() {
				if p := recover(); p != nil {
					f = &mc.Failure{Kind: "panic", Bucket: "seq:panic", Case: cs(""), Observed: fmt.Sprint(p)}
				}
			}()
			s := value.NewString(text)
			for i := 0; i <= len(ops); i++ {
				if i > 0 {
					_, _ = c14SeqOps[ops[i-1]].do(s)
				}
				cur := s.GetValue()
				n := len([]rune(cur))
				gl := c14Direct(func() (r.Element, error) { return s.GetProperty("长度") })
				gc := c14Direct(func() (r.Element, error) { return s.GetProperty("字符组") })
				gs := c14Direct(func() (r.Element, error) {
					return s.ExecMethod("取样", []r.Element{value.NewNumber(1), value.NewNumber(float64(n))})
				})
				if exp, obs := c14SeqConsistent(cur, gl, gc, gs); exp != "" {
					f = &mc.Failure{Kind: "mismatch", Bucket: "seq:stale", Case: cs(""), Expected: "after " + names(i) + ": " + exp, Observed: obs}
					return
				}
			}
		}()
		return f
	}
	var b strings.Builder
	fmt.Fprintf(&b, "令X = “%s”\n", zn.EncodeStr(text))
	for i, o := range ops {
		fmt.Fprintf(&b, "令R%d = %s\n", i+1, c14SeqOps[o].stmt)
	}
	b.WriteString("令N = X之长度\n令W = X\n如果N == 0：\n    输出【X，N，X之字符组，“”】\n输出【X，N，X之字符组，以X（取样：1、N）】")
	src := b.String()
	g := c14Real(src, nil)
	if g.panic != "" {
		return &mc.Failure{Kind: "panic", Bucket: "seq:panic", Case: cs(src), Observed: g.panic}
	}
	if g.err != "" {
		return nil // one of the operations is not applicable to this text (e.g. 转换数值 of a non-number)
	}
	arr, ok := g.elem.(*value.Array)
	if !ok || arr == nil || len(arr.GetValue()) != 4 {
		return &mc.Failure{Kind: "mismatch", Bucket: "seq:shape", Case: cs(src), Expected: "a list of four", Observed: c14Show(g.elem)}
	}
	it := arr.GetValue()
	x, ok := it[0].(*value.String)
	if !ok || x == nil {
		return &mc.Failure{Kind: "mismatch", Bucket: "seq:shape", Case: cs(src), Expected: "X is a text", Observed: c14Show(it[0])}
	}
	if exp, obs := c14SeqConsistent(x.GetValue(), c14Got{elem: it[1]}, c14Got{elem: it[2]}, c14Got{elem: it[3]}); exp != "" {
		return &mc.Failure{Kind: "mismatch", Bucket: "seq:stale", Case: cs(src), Expected: "after " + names(len(ops)) + ": " + exp, Observed: obs}
	}
	return nil
}

// ------------------------------------------------------------------ reference scanner (manual chapter 6)

type c14Dir struct {
	plus   bool
	hasDot bool
	n      string // digits after '.', possibly empty
	kind   byte   // 0 | 'E' | '%'
}

// c14ParseDir parses the text after '#': [+][.N][E|%].
func c14ParseDir(body string) (d c14Dir, ok bool) {
	i := 0
	if i < len(body) && body[i] == '+' {
		d.plus = true
		i++
	}
	if i < len(body) && body[i] == '.' {
		d.hasDot = true
		i++
		for i < len(body) && body[i] >= '0' && body[i] <= '9' {
			d.n += string(body[i])
			i++
		}
	}
	if i < len(body) && (body[i] == 'E' || body[i] == '%') {
		d.kind = body[i]
		i++
	}
	return d, i == len(body)
}

// documented: exactly the five forms of the manual: # #.N #+ #.N% #.NE
func (d c14Dir) documented() bool {
	if d.plus {
		return !d.hasDot && d.kind == 0
	}
	if !d.hasDot {
		return d.kind == 0
	}
	return d.n != ""
}

func (d c14Dir) bigN() *big.Int {
	if d.n == "" {
		return big.NewInt(0)
	}
	b, _ := new(big.Int).SetString(d.n, 10)
	return b
}

type c14Seg struct {
	lit  string
	ph   bool
	body string
}

// c14Scan splits a template into literal text and placeholders.
// why != "" means the template is malformed.
func c14Scan(t []rune) (segs []c14Seg, why string) {
	var lit []rune
	flush := func() {
		if len(lit) > 0 {
			segs = append(segs, c14Seg{lit: string(lit)})
			lit = nil
		}
	}
	for i := 0; i < len(t); i++ {
		switch t[i] {
		case '{':
			j := i + 1
			for j < len(t) && t[j] != '}' {
				if t[j] == '{' {
					return nil, "a { inside a placeholder"
				}
				j++
			}
			if j >= len(t) {
				return nil, "unclosed {"
			}
			flush()
			segs = append(segs, c14Seg{ph: true, body: string(t[i+1 : j])})
			i = j
		case '}':
			return nil, "stray }"
		default:
			lit = append(lit, t[i])
		}
	}
	flush()
	return segs, ""
}

// c14CountPH: lenient placeholder count, defined for malformed templates too
// (used only to choose the argument-list lengths p-1, p, p+1).
func c14CountPH(t []rune) int {
	p, open := 0, false
	for _, ch := range t {
		if ch == '{' {
			open = true
		} else if ch == '}' && open {
			p++
			open = false
		}
	}
	return p
}

type c14Part struct {
	alts []string // exact alternatives
	wild bool     // any text (undocumented combination / dont_care)
}

type c14Ref struct {
	err     string // non-empty: an error is required
	parts   []c14Part
	lenient bool // an error is acceptable as well (undocumented / absurd N / non-finite)
	note    string
}

// oracle answer for one (directive, double)
type c14A struct {
	Nonfinite bool     `json:"nonfinite"`
	Err       string   `json:"err"`
	Alts      []string `json:"alts"`
}

type c14Ora func(body string, x float64) (c14A, error)

func c14Reference(t []rune, args []zn.V, ora c14Ora) (c14Ref, error) {
	segs, why := c14Scan(t)
	if why != "" {
		return c14Ref{err: "malformed template: " + why}, nil
	}
	p := 0
	for _, s := range segs {
		if s.ph {
			p++
		}
	}
	// every placeholder body must be "" or a well-formed numeric directive
	for _, s := range segs {
		if s.ph && s.body != "" {
			if !strings.HasPrefix(s.body, "#") {
				return c14Ref{err: "malformed placeholder {" + s.body + "}"}, nil
			}
			if _, ok := c14ParseDir(s.body[1:]); !ok {
				return c14Ref{err: "malformed directive {" + s.body + "}"}, nil
			}
		}
	}
	if p != len(args) {
		return c14Ref{err: fmt.Sprintf("%d placeholders but %d arguments", p, len(args))}, nil
	}
	var ref c14Ref
	k := 0
	for _, s := range segs {
		if !s.ph {
			ref.parts = append(ref.parts, c14Part{alts: []string{s.lit}})
			continue
		}
		a := args[k]
		k++
		if s.body == "" {
			ref.parts = append(ref.parts, c14Part{alts: []string{zn.Display(a)}})
			continue
		}
		x, isNum := a.(float64)
		if !isNum {
			return c14Ref{err: "numeric directive {" + s.body + "} on a non-number"}, nil
		}
		d, _ := c14ParseDir(s.body[1:])
		ans, err := ora(s.body[1:], x)
		if err != nil {
			return c14Ref{}, err
		}
		switch {
		case ans.Nonfinite:
			ref.parts = append(ref.parts, c14Part{wild: true})
			ref.lenient = true
			ref.note = "dont_care: non-finite"
		case !d.documented():
			ref.parts = append(ref.parts, c14Part{wild: true})
			ref.lenient = true
			ref.note = "undocumented combination: error or artefact-free text"
		default:
			if d.bigN().Cmp(big.NewInt(20)) > 0 {
				ref.lenient = true // absurd N: an error or exactly Python's string
			}
			if ans.Err != "" {
				return c14Ref{err: "precision " + d.n + " is not renderable (Python: " + ans.Err + ")"}, nil
			}
			ref.parts = append(ref.parts, c14Part{alts: ans.Alts})
		}
	}
	return ref, nil
}

func c14Match(parts []c14Part, s string) bool {
	if len(parts) == 0 {
		return s == ""
	}
	p := parts[0]
	if p.wild {
		for cut := 0; cut <= len(s); cut++ {
			if c14Match(parts[1:], s[cut:]) {
				return true
			}
		}
		return false
	}
	for _, a := range p.alts {
		if strings.HasPrefix(s, a) && c14Match(parts[1:], s[len(a):]) {
			return true
		}
	}
	return false
}

func (ref c14Ref) describe() string {
	if ref.err != "" {
		return "an error (" + ref.err + ")"
	}
	var b strings.Builder
	for _, p := range ref.parts {
		switch {
		case p.wild:
			b.WriteString("‹any›")
		case len(p.alts) == 1:
			b.WriteString(p.alts[0])
		default:
			b.WriteString("‹" + strings.Join(p.alts, " | ") + "›")
		}
	}
	s := fmt.Sprintf("text %q", c14Clip(b.String()))
	if ref.lenient {
		s += " or an error"
	}
	if ref.note != "" {
		s += " [" + ref.note + "]"
	}
	return s
}

func c14Clip(s string) string {
	if len(s) > 400 {
		return s[:400] + "…"
	}
	return s
}

var c14TmplSrc = "输入T、A\n输出T % A"

func c14LitArg(a zn.V) string {
	switch x := a.(type) {
	case float64:
		return strconv.FormatFloat(x, 'f', -1, 64)
	case string:
		return "“" + zn.EncodeStr(x) + "”"
	}
	return "空"
}

// how a template case reaches the real formatter
const (
	c14ViaInput    = 0 // RunReal("输入T、A\n输出T % A") with T and A as input variables
	c14ViaLiteral  = 1 // RunReal("输出“T” % 【a，b】"): template and arguments as literals
	c14ViaPreParse = 2 // the same two-line program parsed once per process, evaluated in a fresh VM per case
)

var c14Prog *syntax.Program
var c14ProgErr error
var c14ProgOnce sync.Once
var c14Libs []*r.Library

// c14RunPreParsed evaluates the fixed program 输入T、A / 输出T % A on a fresh VM
// (what Interpreter.Execute does, minus re-parsing the same source).
func c14RunPreParsed(in r.ElementMap) (g c14Got) {
	c14ProgOnce.Do(func() {
		parser := syntax.NewParser([]rune(c14TmplSrc), zh.NewParserZH())
		c14Prog, c14ProgErr = parser.Compile()
		c14Libs = zn.Libs()
	})
	if c14ProgErr != nil {
		return c14Real(c14TmplSrc, in)
	}
	defer func() {
		if p := recover(); p != nil {
			g = c14Got{panic: fmt.Sprint(p)}
		}
	}()
	vm := r.InitVM(exec.GlobalValues)
	vm.LoadExternalLibs(c14Libs)
	v, err := exec.EvalMainModule(vm, c14Prog, in)
	if err != nil {
		e := zn.Classify(err)
		return c14Got{err: fmt.Sprintf("%s error %d %s", e.Kind, e.Code, e.Msg)}
	}
	return c14Got{elem: v}
}

// c14Tmpl runs one template x argument list and judges it against the reference.
// It returns (failure, lenient/dontCare, oracleError).
func c14Tmpl(t []rune, args []zn.V, how int, ora c14Ora) (*mc.Failure, bool, error) {
	ref, err := c14Reference(t, args, ora)
	if err != nil {
		return nil, false, err
	}
	tmpl := string(t)
	src := c14TmplSrc
	var o c14Got
	if how == c14ViaLiteral {
		var as []string
		for _, a := range args {
			as = append(as, c14LitArg(a))
		}
		src = "输出“" + zn.EncodeStr(tmpl) + "” % 【" + strings.Join(as, "，") + "】"
		o = c14Real(src, nil)
	} else {
		in := map[string]r.Element{"T": value.NewString(tmpl), "A": zn.ToElem(&zn.LV{Items: args})}
		if how == c14ViaPreParse {
			o = c14RunPreParsed(in)
		} else {
			o = c14Real(src, in)
		}
		// formatting reads its arguments: the caller's list is what it was
		if before, after := zn.CanonElem(zn.ToElem(&zn.LV{Items: args})), zn.CanonElem(in["A"]); o.panic == "" && before != after {
			return &mc.Failure{Kind: "mismatch", Bucket: "tmpl:arguments-changed", Case: mc.J(c14Case{Mode: "tmpl", Template: tmpl, Args: c14EncArgs(args), PreParse: how == c14ViaPreParse, Source: src}),
				Expected: "the argument list is unchanged after T % A: " + before, Observed: after}, false, nil
		}
	}
	cs := func() json.RawMessage {
		return mc.J(c14Case{Mode: "tmpl", Template: tmpl, Args: c14EncArgs(args), Literal: how == c14ViaLiteral, PreParse: how == c14ViaPreParse, Source: src})
	}
	bucket := "tmpl:"
	switch {
	case strings.HasPrefix(ref.err, "malformed template"):
		bucket += "malformed-template"
	case strings.HasPrefix(ref.err, "malformed"):
		bucket += "malformed-directive"
	case strings.Contains(ref.err, "arguments"):
		bucket += "count"
	case strings.Contains(ref.err, "non-number"):
		bucket += "type"
	case strings.HasPrefix(ref.err, "precision"):
		bucket += "precision"
	case ref.lenient:
		bucket += "lenient"
	default:
		bucket += "rendering"
	}
	if o.panic != "" {
		return &mc.Failure{Kind: "panic", Bucket: bucket + ":panic", Case: cs(), Expected: ref.describe(), Observed: o.panic}, ref.lenient, nil
	}
	if o.err != "" {
		if ref.err != "" || ref.lenient {
			return nil, ref.lenient, nil
		}
		return &mc.Failure{Kind: "mismatch", Bucket: bucket + ":error", Case: cs(), Expected: ref.describe(), Observed: o.err}, ref.lenient, nil
	}
	str, ok := o.elem.(*value.String)
	if !ok || str == nil {
		return &mc.Failure{Kind: "mismatch", Bucket: bucket + ":type", Case: cs(), Expected: ref.describe(), Observed: "value " + zn.CanonElem(o.elem)}, ref.lenient, nil
	}
	got := str.GetValue()
	if strings.Contains(got, "%!") {
		return &mc.Failure{Kind: "mismatch", Bucket: bucket + ":artefact", Case: cs(), Expected: ref.describe(), Observed: fmt.Sprintf("text %q (a Go fmt %%! artefact)", c14Clip(got))}, ref.lenient, nil
	}
	if ref.err != "" {
		return &mc.Failure{Kind: "mismatch", Bucket: bucket + ":no-error", Case: cs(), Expected: ref.describe(), Observed: fmt.Sprintf("text %q", c14Clip(got))}, ref.lenient, nil
	}
	if !c14Match(ref.parts, got) {
		return &mc.Failure{Kind: "mismatch", Bucket: bucket + ":text", Case: cs(), Expected: ref.describe(), Observed: fmt.Sprintf("text %q", c14Clip(got))}, ref.lenient, nil
	}
	return nil, ref.lenient, nil
}

// c14ArgLists: argument lists of length p-1, p, p+1 over {number, text}:
// all tuples when p <= 2, a fixed covering set (all numbers, all texts, the two
// alternations) beyond.
func c14ArgLists(p int) [][]zn.V {
	var out [][]zn.V
	pick := func(b bool) zn.V {
		if b {
			return c14ArgStr
		}
		return c14ArgNum
	}
	for n := p - 1; n <= p+1; n++ {
		if n < 0 {
			continue
		}
		if p <= 2 {
			for m := 0; m < 1<<uint(n); m++ {
				l := make([]zn.V, n)
				for i := range l {
					l[i] = pick(m>>uint(i)&1 == 1)
				}
				out = append(out, l)
			}
			continue
		}
		for v := 0; v < 4; v++ {
			l := make([]zn.V, n)
			for i := range l {
				switch v {
				case 0:
					l[i] = pick(false)
				case 1:
					l[i] = pick(true)
				case 2:
					l[i] = pick(i%2 == 1)
				default:
					l[i] = pick(i%2 == 0)
				}
			}
			out = append(out, l)
		}
	}
	// ... and the first (shortest) list once more, after the fitting and the longer ones: whatever
	// a successful formatting of the template left behind, too few arguments are still an error
	if len(out) > 1 && len(out[0]) < p {
		out = append(out, append([]zn.V{}, out[0]...))
	}
	return out
}

// ------------------------------------------------------------------ Python oracle

const c14OracleSrc = `import sys, json, math
from decimal import Decimal, getcontext
getcontext().prec = 6000

def one(q):
    x = float(q["x"])
    plus = "+" if q["plus"] else ""
    n = q["n"]
    kind = q["kind"]
    v = x * 100 if kind == "%" else x
    out = {"nonfinite": not math.isfinite(v), "err": "", "alts": []}
    prec = "" if n is None else "." + n
    if kind == "E":
        verb = "E"
    elif n is not None:
        verb = "f"
    else:
        verb = ".6g"
    try:
        s = ("%" + plus + prec + verb) % v
    except (ValueError, OverflowError, MemoryError) as e:
        out["err"] = "%s: %s" % (type(e).__name__, e)
        return out
    tail = "%" if kind == "%" else ""
    alts = [s + tail]
    if kind == "%" and n is not None and math.isfinite(x) and len(n) <= 3:
        # percentage by exact decimal scaling instead of a double multiplication
        t = format(Decimal(x) * 100, plus + "." + str(int(n or "0")) + "f") + "%"
        if t not in alts:
            alts.append(t)
    out["alts"] = alts
    return out

qs = json.load(sys.stdin)
json.dump([one(q) for q in qs], sys.stdout)
`

type c14Q struct {
	X    string  `json:"x"`
	Plus bool    `json:"plus"`
	N    *string `json:"n"`
	Kind string  `json:"kind"`
}

func c14MkQ(body string, x float64) (c14Q, bool) {
	d, ok := c14ParseDir(body)
	if !ok {
		return c14Q{}, false
	}
	q := c14Q{X: strconv.FormatFloat(x, 'g', -1, 64), Plus: d.plus}
	if d.hasDot {
		n := d.n
		q.N = &n
	}
	if d.kind != 0 {
		q.Kind = string(d.kind)
	}
	return q, true
}

// c14FindPython: the first python3 on PATH that is a real executable rather
// than a launcher script (a pyenv shim costs seconds per start); falls back to
// whatever "python3" resolves to.
func c14FindPython() string {
	fallback := "python3"
	for _, dir := range filepath.SplitList(os.Getenv("PATH")) {
		p := filepath.Join(dir, "python3")
		st, err := os.Stat(p)
		if err != nil || st.IsDir() || st.Mode()&0o111 == 0 {
			continue
		}
		if fallback == "python3" {
			fallback = p
		}
		f, err := os.Open(p)
		if err != nil {
			continue
		}
		var magic [2]byte
		_, err = f.Read(magic[:])
		f.Close()
		if err == nil && string(magic[:]) != "#!" {
			return p
		}
	}
	return fallback
}

// c14Python answers a batch of questions with one python3 process.
func c14Python(qs []c14Q) ([]c14A, error) {
	if len(qs) == 0 {
		return nil, nil
	}
	f, err := os.CreateTemp("", "c14-oracle-*.py")
	if err != nil {
		return nil, err
	}
	defer os.Remove(f.Name())
	if _, err := f.WriteString(c14OracleSrc); err != nil {
		return nil, err
	}
	f.Close()
	in, _ := json.Marshal(qs)
	cmd := osexec.Command(c14FindPython(), "-S", "-E", f.Name())
	cmd.Stdin = bytes.NewReader(in)
	var out, errb bytes.Buffer
	cmd.Stdout, cmd.Stderr = &out, &errb
	if err := cmd.Run(); err != nil {
		return nil, fmt.Errorf("python3 oracle: %v %s", err, c14Clip(errb.String()))
	}
	var as []c14A
	if err := json.Unmarshal(out.Bytes(), &as); err != nil || len(as) != len(qs) {
		return nil, fmt.Errorf("python3 oracle: bad answer (%v, %d of %d)", err, len(as), len(qs))
	}
	return as, nil
}

type c14Table map[string]c14A

func c14Key(body string, x float64) string {
	return body + "\x00" + strconv.FormatUint(math.Float64bits(x), 16)
}

// c14Fill asks Python for every (directive, double) pair not yet in the table.
type c14Pair struct {
	body string
	x    float64
}

func (tb c14Table) fill(pairs []c14Pair) error {
	var qs []c14Q
	var keys []string
	seen := map[string]bool{}
	for _, p := range pairs {
		k := c14Key(p.body, p.x)
		if _, ok := tb[k]; ok || seen[k] {
			continue
		}
		q, ok := c14MkQ(p.body, p.x)
		if !ok {
			continue
		}
		seen[k] = true
		qs = append(qs, q)
		keys = append(keys, k)
	}
	as, err := c14Python(qs)
	if err != nil {
		return err
	}
	for i, k := range keys {
		tb[k] = as[i]
	}
	return nil
}

func (tb c14Table) ora(body string, x float64) (c14A, error) {
	if a, ok := tb[c14Key(body, x)]; ok {
		return a, nil
	}
	// not prefetched (replay): ask Python now
	if err := tb.fill([]c14Pair{{body, x}}); err != nil {
		return c14A{}, err
	}
	a, ok := tb[c14Key(body, x)]
	if !ok {
		return c14A{}, fmt.Errorf("oracle has no answer for directive %q", body)
	}
	return a, nil
}

// c14TemplateDirectives: every well-formed directive body that fits in a
// template of <= L symbols (used to prefetch sub-check 2's renderings).
func c14TemplateDirectives(L int) []string {
	sym := []rune{'+', '.', '2', '0', '%', 'E'}
	var out []string
	for n := 0; n <= L-3; n++ {
		for k := int64(0); k < pow64(len(sym), n); k++ {
			b := string(c13Unrank(sym, n, k, nil))
			if _, ok := c14ParseDir(b); ok {
				out = append(out, b)
			}
		}
	}
	return out
}

// ------------------------------------------------------------------ sub-check 3 cases

type c14NumCase struct {
	body string
	arg  zn.V
}

func c14NumCases() []c14NumCase {
	var out []c14NumCase
	dirs := c14NumDirectives()
	for _, d := range dirs {
		for _, x := range c14Doubles {
			out = append(out, c14NumCase{d, x})
		}
	}
	// a numeric directive on a non-number: an error is required
	for _, d := range dirs {
		if _, ok := c14ParseDir(d); !ok {
			continue
		}
		if dd, _ := c14ParseDir(d); dd.bigN().Cmp(big.NewInt(20)) > 0 {
			continue
		}
		for _, a := range []zn.V{"s", "1", "", true, zn.Null{}, &zn.LV{Items: []zn.V{1.0}}} {
			out = append(out, c14NumCase{d, a})
		}
	}
	return out
}

// ------------------------------------------------------------------ signatures

func c14Sig(f *mc.Failure) string {
	var cs c14Case
	if json.Unmarshal(f.Case, &cs) != nil {
		return ""
	}
	switch cs.Mode {
	case "slice":
		return f.Sig // decided in c14Slice, where the observed text is at hand
	case "tmpl":
		// a precision beyond Go fmt's limit (10^6) or beyond int64 is pasted
		// into a fmt verb and renders as %!(NOVERB) / %!-(float64=…)
		if f.Kind == "mismatch" && strings.Contains(f.Observed, "%!") {
			segs, why := c14Scan([]rune(cs.Template))
			if why != "" {
				return ""
			}
			for _, s := range segs {
				if s.ph && strings.HasPrefix(s.body, "#") {
					if d, ok := c14ParseDir(s.body[1:]); ok && d.bigN().Cmp(big.NewInt(1000000)) > 0 {
						return "precision-overflow-artefact"
					}
				}
			}
		}
	}
	return ""
}

// ------------------------------------------------------------------ run / replay

func init() {
	mc.Register(&mc.Check{
		ID:    "C14",
		Level: "exploration",
		Rule: "E1 exhaustive, four sub-checks. (1) every text of <= 3 characters over {a é 你 😀 U+0301} (1-4 byte encodings and a combining mark) x every (i,j) in [-5,5]^2 for 取样, through the real text value and end to end through a program, plus 长度/字符组 against the code points and 分隔 by every 1..2-character separator; " +
			"(2) every template of <= L symbols (L=6 quick, 7 thorough) over {x 你 { } # + . 2 0 % E} x every argument list of length p-1, p, p+1 over {-3.14159, “s”} (all tuples for p<=2, four covering tuples per length beyond), real `T % A` vs a reference scanner written from manual chapter 6 (templates of <= 4 symbols through Interpreter.Execute both as input variables and as string literals; longer ones on the same two-line program parsed once, fresh VM per case); " +
			"(3) 183 directive bodies (the 5 documented forms, every undocumented combination of + .N E %, 27 malformed ones) with N in 0..20, 99, 10^19, 10^20-1 x 55 boundary doubles (3 of them non-finite) vs Python %-formatting, plus every well-formed directive on 6 non-number arguments and the 10 examples of manual chapter 6 run from source. " +
			"(4) every sequence of <= 3 operations over {长度, 字符组, 取样, 转换数值, 去除空格, 拼接, 分隔, 替换} applied to ONE text value (6 texts, on the real value and end to end): after every step 长度, 字符组 and 取样：1、长度 must describe the text the value holds at that moment. " +
			"Enumerations are rank/unrank (every case distinct). Non-trivial: (1) the text has a multi-byte character, (2) the template contains a brace, (3) the double is finite.",
		Assumptions: []string{
			"a character is a Unicode code point (长度 counts code points; the combining mark U+0301 is a character of its own)",
			"取样 outside 1 <= i <= j <= 长度 (zero, negative, reversed, beyond the end) is not documented: required is 'an error, or a contiguous run of whole characters of the text', and that it selects the same positions (or fails alike) as for an ASCII text of the same length (the counting is the same for every text)",
			"分隔: pieces are whole-character runs, none contains the separator, and joining them with the separator gives the text back; which occurrences are chosen when separators overlap is not asserted",
			"malformed template (from the task statement): a { inside a placeholder, a stray }, an unclosed {, a placeholder body that is neither empty nor #[+][.N][E|%]; which of several errors is reported is not compared, only that an error is reported",
			"documented directives are exactly # #.N #+ #.N% #.NE (N a decimal integer, leading zeros allowed); their expected text is Python's %.6g / %.Nf / %+.6g / %.Nf of x*100 + '%' / %.NE, which agrees with every example of manual chapter 6",
			"percentages: both x*100 as a double multiplication and exact decimal scaling are accepted when they round differently",
			"the combinations the manual does not list (#+.N #E #% #+E #+% #+.NE #+.N% and '.' without digits) only have to give an error or a text that fits the template and is free of Go %! artefacts",
			"for N > 20 an error is accepted as well as Python's string; where Python itself refuses the precision (too big) an error is required",
			"non-finite doubles (and x*100 overflowing) are dont_care: only 'no crash, no %! artefact'",
			"{} display form is checked for numbers (Go %v) and texts only; longer templates, other symbols and other argument values are not covered",
			"python3 on PATH is the oracle for numeric renderings; without it sub-checks 2 and 3 are skipped and the run is reported inexhaustive",
		},
		Budget: func(tier string) time.Duration {
			if tier == "thorough" {
				return 20 * time.Minute
			}
			return 100 * time.Second
		},
		Run:    c14Run,
		Replay: c14Replay,
	})
}

func c14Run(c *mc.Ctx) {
	L := 6
	if c.Tier == "thorough" {
		L = 7
	}
	// every case builds a fresh interpreter: short-lived garbage only, the live
	// heap stays tiny, so collect less often (halves the time spent in madvise)
	defer debug.SetGCPercent(debug.SetGCPercent(800))
	fail := func(f *mc.Failure) {
		if f != nil {
			f.Sig = c14Sig(f)
			c.Fail(*f)
		}
	}
	base := int64(0)

	// ---------------- sub-check 1: character arithmetic
	texts := c14Texts()
	seps := c14Seps()
	c.Describe = func(idx int64) json.RawMessage {
		if idx < int64(len(texts)) {
			return mc.J(c14Case{Mode: "text-all", Text: toInts(texts[idx]), Shown: string(texts[idx])})
		}
		return mc.J(map[string]any{"idx": idx})
	}
	for k, t := range texts {
		idx := base + int64(k)
		if !c.Mine(idx) {
			continue
		}
		c.CaseIdx(idx)
		multi := c14Multibyte(t)
		for _, e2e := range []bool{false, true} {
			fail(c14Len(t, e2e))
			c.Eval(multi)
			c.Stat("chars_length_and_array_cases", 1)
			for i := -5; i <= 5; i++ {
				for j := -5; j <= 5; j++ {
					fail(c14Slice(t, i, j, e2e))
					c.Eval(multi)
					if e2e {
						c.Stat("chars_slice_cases_end_to_end", 1)
					} else {
						c.Stat("chars_slice_cases_real_value", 1)
					}
					if 1 <= i && i <= j && j <= len(t) {
						c.Stat("chars_slice_cases_in_range_exact", 1)
					}
				}
			}
			for _, sp := range seps {
				fail(c14Split(t, sp, e2e))
				c.Eval(multi || c14Multibyte(sp))
				c.Stat("chars_split_cases", 1)
			}
		}
		c.Stat("chars_texts", 1)
		if c.WantSample() && string(t) == "a你😀" {
			c.Sample(map[string]any{"sub_check": 1, "text": string(t), "code_points": toInts(t), "asserted": "以“a你😀”（取样：2、3） == “你😀”; 长度 == 3; 字符组 == 【“a”，“你”，“😀”】"})
		}
	}
	base += int64(len(texts))
	c.Bound("chars_texts_len_le_3_alphabet_5_x_index_pairs_121", fmt.Sprintf("complete: %d texts x 121 (i,j) x {real value, end to end}; %d separators", len(texts), len(seps)))

	// ---------------- sub-check 4: operation sequences on one text value
	{
		nseq := c14SeqCount()
		total := nseq * int64(len(c14SeqTexts))
		sb := base
		c.Describe = func(idx int64) json.RawMessage {
			k := idx - sb
			return mc.J(c14Case{Mode: "seq", Text: toInts([]rune(c14SeqTexts[k/nseq])), Shown: c14SeqTexts[k/nseq], Ops: c14SeqOf(k % nseq)})
		}
		for k := int64(0); k < total; k++ {
			if !c.Mine(base + k) {
				continue
			}
			c.CaseIdx(base + k)
			text, ops := c14SeqTexts[k/nseq], c14SeqOf(k%nseq)
			for _, e2e := range []bool{false, true} {
				fail(c14Seq(text, ops, e2e))
				c.Eval(len(ops) >= 2)
				c.Stat("op_sequence_cases", 1)
			}
		}
		base += total
		c.Bound("op_sequences_len_le_3_ops_8_texts_6", "complete")
	}

	// ---------------- oracle
	tb := c14Table{}
	nums := c14NumCases()
	var pairs []c14Pair
	for _, d := range c14TemplateDirectives(L) {
		pairs = append(pairs, c14Pair{d, c14ArgNum})
	}
	for k, nc := range nums {
		if x, ok := nc.arg.(float64); ok && c.Mine(base+int64(k)) {
			pairs = append(pairs, c14Pair{nc.body, x})
		}
	}
	c.Idle()
	if err := tb.fill(pairs); err != nil {
		c.Inexhaustive("numeric oracle unavailable, sub-checks 2 and 3 skipped: " + err.Error())
		return
	}

	// ---------------- sub-check 3: numeric renderings
	nb := base
	c.Describe = func(idx int64) json.RawMessage {
		k := idx - nb
		if k >= 0 && k < int64(len(nums)) {
			return mc.J(c14Case{Mode: "tmpl", Template: "{#" + nums[k].body + "}", Args: []string{c14ArgEnc(nums[k].arg)}})
		}
		return mc.J(map[string]any{"idx": idx})
	}
	for k, nc := range nums {
		idx := base + int64(k)
		if !c.Mine(idx) {
			continue
		}
		c.CaseIdx(idx)
		t := []rune("{#" + nc.body + "}")
		f, dont, err := c14Tmpl(t, []zn.V{nc.arg}, c14ViaInput, tb.ora)
		if err != nil {
			c.Inexhaustive("numeric oracle failed: " + err.Error())
			return
		}
		fail(f)
		x, isNum := nc.arg.(float64)
		finite := isNum && !math.IsNaN(x) && !math.IsInf(x, 0)
		c.Eval(!isNum || finite)
		d, okd := c14ParseDir(nc.body)
		switch {
		case !isNum:
			c.Stat("numeric_directive_on_non_number_cases", 1)
		case !okd:
			c.Stat("numeric_malformed_directive_cases", 1)
		case dont && !finite:
			c.Stat("numeric_dont_care_non_finite", 1)
		case !d.documented():
			c.Stat("numeric_undocumented_combination_cases", 1)
		case dont:
			c.Stat("numeric_documented_absurd_N_cases", 1)
		default:
			c.Stat("numeric_documented_exact_cases", 1)
		}
		if c.WantSample() && nc.body == ".2E" && isNum && x == 12345 {
			a, _ := tb.ora(nc.body, x)
			c.Sample(map[string]any{"sub_check": 3, "template": string(t), "argument": x, "python_expected": a.Alts})
		}
	}
	base += int64(len(nums))
	c.Bound("numeric_directives_x_N_x_doubles", fmt.Sprintf("complete: %d directive bodies (N in 0..20, 99, 10^19, 10^20-1) x %d doubles, plus non-number arguments: %d cases", len(c14NumDirectives()), len(c14Doubles), len(nums)))

	// ---------------- manual examples
	for k := range c14Manual {
		idx := base + int64(k)
		if !c.Mine(idx) {
			continue
		}
		kk := k
		c.Case(idx, func() json.RawMessage { return mc.J(c14Case{Mode: "manual", K: kk, Source: c14Manual[kk].src}) })
		fail(c14ManualCheck(k))
		c.Eval(true)
		c.Stat("manual_examples", 1)
	}
	base += int64(len(c14Manual))

	// ---------------- sub-check 2: templates
	buf := make([]rune, 0, 8)
	argLists := map[int][][]zn.V{}
	for p := 0; p <= 4; p++ {
		argLists[p] = c14ArgLists(p)
	}
	for n := 0; n <= L; n++ {
		total := pow64(len(c14Sym), n)
		lbase, nn := base, n
		// short templates through the whole pipeline (as inputs and as literals),
		// longer ones on the program parsed once
		hows := []int{c14ViaInput, c14ViaLiteral}
		if n > 4 {
			hows = []int{c14ViaPreParse}
		}
		c.Describe = func(idx int64) json.RawMessage {
			return mc.J(c14Case{Mode: "tmpl-all", Template: string(c13Unrank(c14Sym, nn, idx-lbase, nil))})
		}
		for k := int64(0); k < total; k++ {
			idx := base + k
			if !c.Mine(idx) {
				continue
			}
			if c.Due(0x3FF) {
				c.Note(fmt.Sprintf("deadline hit in templates of length %d", n))
				return
			}
			c.CaseIdx(idx)
			buf = c13Unrank(c14Sym, n, k, buf)
			braces := false
			for _, ch := range buf {
				if ch == '{' || ch == '}' {
					braces = true
				}
			}
			_, why := c14Scan(buf)
			c.Stat("templates", 1)
			if why == "" {
				c.Stat("templates_wellformed_braces", 1)
			}
			for _, args := range argLists[c14CountPH(buf)] {
				for _, how := range hows {
					lit := how == c14ViaLiteral
					f, _, err := c14Tmpl(buf, args, how, tb.ora)
					if err != nil {
						c.Inexhaustive("numeric oracle failed: " + err.Error())
						return
					}
					fail(f)
					c.Eval(braces)
					c.Stat("template_evaluations", 1)
					if c.WantSample() && !lit && string(buf) == "你{#.2}" && len(args) == 1 {
						if _, isNum := args[0].(float64); isNum {
							ref, _ := c14Reference(buf, args, tb.ora)
							c.Sample(map[string]any{"sub_check": 2, "template": string(buf), "arguments": c14EncArgs(args), "reference": ref.describe()})
						}
					}
				}
			}
		}
		base += total
		c.Bound(fmt.Sprintf("templates_len_%d_alphabet_%d", n, len(c14Sym)), "complete")
	}
}

func c14ManualCheck(k int) *mc.Failure {
	m := c14Manual[k]
	o := zn.RunReal(m.src, nil)
	cs := mc.J(c14Case{Mode: "manual", K: k, Source: m.src})
	if o.Panic != "" {
		return &mc.Failure{Kind: "panic", Bucket: "manual:panic", Case: cs, Observed: o.Panic}
	}
	want := strconv.Quote(m.want)
	if o.Err != nil {
		return &mc.Failure{Kind: "mismatch", Bucket: "manual", Case: cs, Expected: "text " + want, Observed: fmt.Sprintf("%s error %d %s", o.Err.Kind, o.Err.Code, o.Err.Msg)}
	}
	if o.Val != want {
		return &mc.Failure{Kind: "mismatch", Bucket: "manual", Case: cs, Expected: "text " + want, Observed: "value " + o.Val}
	}
	return nil
}

func c14Replay(c *mc.Ctx, raw json.RawMessage) {
	var cs c14Case
	if err := json.Unmarshal(raw, &cs); err != nil {
		c.Fail(mc.Failure{Kind: "crash", Observed: "bad replay case: " + err.Error()})
		return
	}
	fail := func(f *mc.Failure) {
		if f != nil {
			f.Sig = c14Sig(f)
			c.Fail(*f)
		}
	}
	t := toRunes(cs.Text)
	tb := c14Table{}
	tmpl := func(args []zn.V, how int) {
		f, _, err := c14Tmpl([]rune(cs.Template), args, how, tb.ora)
		if err != nil {
			c.Fail(mc.Failure{Kind: "crash", Case: raw, Observed: "oracle: " + err.Error()})
			return
		}
		fail(f)
	}
	switch cs.Mode {
	case "slice":
		fail(c14Slice(t, cs.I, cs.J, cs.E2E))
	case "len":
		fail(c14Len(t, cs.E2E))
	case "split":
		fail(c14Split(t, toRunes(cs.Sep), cs.E2E))
	case "seq":
		if cs.Source == "" && !cs.E2E {
			fail(c14Seq(string(t), cs.Ops, false))
			fail(c14Seq(string(t), cs.Ops, true))
		} else {
			fail(c14Seq(string(t), cs.Ops, cs.E2E))
		}
	case "text-all":
		for _, e2e := range []bool{false, true} {
			fail(c14Len(t, e2e))
			for i := -5; i <= 5; i++ {
				for j := -5; j <= 5; j++ {
					fail(c14Slice(t, i, j, e2e))
				}
			}
			for _, sp := range c14Seps() {
				fail(c14Split(t, sp, e2e))
			}
		}
	case "tmpl":
		var args []zn.V
		for _, a := range cs.Args {
			args = append(args, c14ArgDec(a))
		}
		how := c14ViaInput
		if cs.Literal {
			how = c14ViaLiteral
		} else if cs.PreParse {
			how = c14ViaPreParse
		}
		tmpl(args, how)
	case "tmpl-all":
		for _, args := range c14ArgLists(c14CountPH([]rune(cs.Template))) {
			tmpl(args, c14ViaInput)
			tmpl(args, c14ViaPreParse)
		}
	case "manual":
		if cs.K >= 0 && cs.K < len(c14Manual) {
			fail(c14ManualCheck(cs.K))
		}
	default:
		c.Fail(mc.Failure{Kind: "crash", Observed: "unknown mode " + cs.Mode})
	}
}
