package checks

// C12 — lists are 1-indexed sequences, dictionaries insertion-ordered maps.
// E2 (hist.go): BFS over operation histories on one list L and one dictionary D
// (and one copy of each); after every operation a full observation battery:
// value, display text, length, 首项 末项 逆序 包含, every index 0..len+1 read
// through a guarded method (error => "err"), iteration order, 所有索引 / 所有值,
// keyed reads of present/absent keys and the generated JSON.

import (
	"encoding/json"
	"fmt"
	"strconv"
	"strings"
	"time"

	"verif/engine/mc"
	"verif/engine/zn"
)

func c12Num(n int) zn.Expr    { return zn.Num{Lit: fmt.Sprint(n)} }
func c12Str(s string) zn.Expr { return zn.Str{Val: s} }

var c12Keys = []string{"乙", "甲", "丙"}

// c12JSON renders a reference value as JSON with keys in stored order
// (what "generated JSON follows the same order" requires).
func c12JSON(v zn.V) string {
	switch x := v.(type) {
	case float64:
		return strconv.FormatFloat(x, 'g', -1, 64)
	case string:
		return strconv.Quote(x)
	case bool:
		if x {
			return "true"
		}
		return "false"
	case zn.Null:
		return "null"
	case *zn.LV:
		if len(x.Items) == 0 {
			return "[]"
		}
		var parts []string
		for _, it := range x.Items {
			parts = append(parts, c12JSON(it))
		}
		return "[" + strings.Join(parts, ",") + "]"
	case *zn.DV:
		var parts []string
		for _, k := range x.Keys {
			parts = append(parts, strconv.Quote(k)+":"+c12JSON(x.M[k]))
		}
		return "{" + strings.Join(parts, ",") + "}"
	}
	return "?"
}

func c12Spec() *histSpec {
	guard := func(name string, params []string, body zn.Stmt, ret zn.Expr) zn.Stmt {
		return zn.Func{Name: name, Params: params, Body: []zn.Stmt{body, zn.Return{Val: ret}},
			Catches: []zn.Catch{{Class: "异常", Body: []zn.Stmt{zn.Return{Val: c12Str("err")}}}}}
	}
	L, D := zn.Var{Name: "L"}, zn.Var{Name: "D"}
	I, K, V := zn.Var{Name: "I"}, zn.Var{Name: "K"}, zn.Var{Name: "V"}
	sp := &histSpec{
		ID:       "C12",
		WithText: true,
		Blind:    true,
		Imports:  []zn.Import{{Name: "@JSON", Lib: true}},
		SetupRef: func(rf *zn.Ref) {
			rf.Libs = map[string]map[string]zn.V{"@JSON": {"生成JSON": &zn.FV{Builtin: "生成JSON"}, "解析JSON": &zn.FV{Builtin: "解析JSON"}}}
			rf.BuiltinHook = func(name string, args []zn.V) (zn.V, *zn.ZErr) {
				if name == "生成JSON" && len(args) == 1 {
					if d, ok := args[0].(*zn.DV); ok {
						return c12JSON(d), nil
					}
				}
				return nil, &zn.ZErr{Code: zn.EParamType, Class: "异常", Exc: &zn.XV{}}
			}
		},
		Prelude: []zn.Stmt{
			// guarded accessors: an index error becomes "err" and the collection can be observed afterwards
			zn.Func{Name: "读", Params: []string{"I"}, Body: []zn.Stmt{zn.Return{Val: zn.Index{Root: L, Idx: I}}},
				Catches: []zn.Catch{{Class: "异常", Body: []zn.Stmt{zn.Return{Val: c12Str("err")}}}}},
			guard("写", []string{"I", "V"}, zn.ExprStmt{E: zn.Assign{Target: zn.Index{Root: L, Idx: I}, Val: V}}, c12Str("ok")),
			zn.Func{Name: "查", Params: []string{"K"}, Body: []zn.Stmt{zn.Return{Val: zn.Index{Root: D, Idx: K}}},
				Catches: []zn.Catch{{Class: "异常", Body: []zn.Stmt{zn.Return{Val: c12Str("err")}}}}},
			guard("换", []string{"I", "K"}, zn.ExprStmt{E: zn.MCall{Root: L, Chain: []zn.Call{{Name: "交换", Args: []zn.Expr{I, K}}}}}, c12Str("ok")),
		},
	}
	decl := func(n string, v zn.Expr) zn.Stmt { return zn.Decl{Pairs: []zn.DeclPair{{Names: []string{n}, Val: v}}} }
	dict := func(kv ...interface{}) zn.Expr {
		d := zn.Dict{}
		for i := 0; i+1 < len(kv); i += 2 {
			d.Pairs = append(d.Pairs, zn.DictPair{Key: kv[i].(string), Val: c12Num(kv[i+1].(int))})
		}
		return d
	}
	sp.Init = []histOp{
		{Label: "L=【1，2】 D=【乙=1，甲=2】", Declares: []string{"L", "D"}, Stmts: []zn.Stmt{decl("L", zn.List{Items: []zn.Expr{c12Num(1), c12Num(2)}}), decl("D", dict("乙", 1, "甲", 2))}},
		{Label: "L=【】 D=【=】", Declares: []string{"L", "D"}, Stmts: []zn.Stmt{decl("L", zn.List{}), decl("D", zn.Dict{})}},
		{Label: "L=【0】 D=【乙=1，乙=2，甲=0，乙=1】", Declares: []string{"L", "D"}, Stmts: []zn.Stmt{decl("L", zn.List{Items: []zn.Expr{c12Num(0)}}), decl("D", dict("乙", 1, "乙", 2, "甲", 0, "乙", 1))}},
	}
	show := func(args ...zn.Expr) zn.Stmt { return zn.ExprStmt{E: zn.Call{Name: "显示", Args: args}} }
	mem := func(r zn.Expr, n string) zn.Expr { return zn.Member{Root: r, Name: n} }
	mcall := func(r zn.Expr, m string, args ...zn.Expr) zn.Expr {
		return zn.MCall{Root: r, Chain: []zn.Call{{Name: m, Args: args}}}
	}
	sp.Observe = func(declared []string) []zn.Stmt {
		var out []zn.Stmt
		for _, n := range declared {
			x := zn.Var{Name: n}
			if n == "L" || n == "M" {
				out = append(out, show(c12Str(n), x, mem(x, "长度"), mem(x, "数目"), mem(x, "首项"), mem(x, "末项"), mem(x, "逆序"), mem(mem(x, "逆序"), "逆序"),
					mcall(x, "包含", c12Num(1)), mcall(x, "包含", c12Num(7)), mem(x, "文本")))
				out = append(out, zn.Iter{Vars: []string{"甲K", "甲V"}, Target: x, Body: []zn.Stmt{show(zn.Var{Name: "甲K"}, zn.Var{Name: "甲V"})}})
				// 寻找 without fixing its numbering: the distance between the answer for v and the answer
				// for a value that is never stored (a text) is the 1-based position of v's first occurrence (0 when
				// absent) under either convention (0-based with -1, 1-based with 0)
				absent := mcall(x, "寻找", c12Str("无"))
				out = append(out, show(c12Str("寻"), zn.Bin{Op: "-", L: mcall(x, "寻找", c12Num(0)), R: absent},
					zn.Bin{Op: "-", L: mcall(x, "寻找", c12Num(1)), R: absent}, zn.Bin{Op: "-", L: mcall(x, "寻找", c12Num(2)), R: absent},
					mcall(x, "包含", c12Num(0)), mcall(x, "包含", c12Num(2))))
			} else {
				out = append(out, show(c12Str(n), x, mem(x, "长度"), mem(x, "所有索引"), mem(x, "所有值"),
					mcall(x, "读取", c12Str("乙")), mcall(x, "读取", c12Str("无")), zn.Call{Name: "生成JSON", Args: []zn.Expr{x}},
					// the same dictionary as a direct item of a list and under a key: its order is its own everywhere
					zn.Call{Name: "生成JSON", Args: []zn.Expr{zn.Dict{Pairs: []zn.DictPair{{Key: "列", Val: zn.List{Items: []zn.Expr{x, zn.List{Items: []zn.Expr{x}}}}}, {Key: "键", Val: x}}}}}))
				out = append(out, zn.Iter{Vars: []string{"甲K", "甲V"}, Target: x, Body: []zn.Stmt{show(zn.Var{Name: "甲K"}, zn.Var{Name: "甲V"})}})
			}
		}
		// guarded reads of L at every position around its bounds, D at present/absent keys
		out = append(out, show(c12Str("读"), zn.Call{Name: "读", Args: []zn.Expr{c12Num(0)}}, zn.Call{Name: "读", Args: []zn.Expr{c12Num(1)}}, zn.Call{Name: "读", Args: []zn.Expr{c12Num(2)}},
			zn.Call{Name: "读", Args: []zn.Expr{mem(L, "长度")}}, zn.Call{Name: "读", Args: []zn.Expr{zn.Bin{Op: "+", L: mem(L, "长度"), R: c12Num(1)}}},
			zn.Call{Name: "读", Args: []zn.Expr{zn.Num{Lit: "0.5"}}}, zn.Call{Name: "读", Args: []zn.Expr{zn.Num{Lit: "1.5"}}}, zn.Call{Name: "读", Args: []zn.Expr{zn.Num{Lit: "-0.5"}}}))
		out = append(out, show(c12Str("查"), zn.Call{Name: "查", Args: []zn.Expr{c12Str("乙")}}, zn.Call{Name: "查", Args: []zn.Expr{c12Str("甲")}}, zn.Call{Name: "查", Args: []zn.Expr{c12Str("丙")}}, zn.Call{Name: "查", Args: []zn.Expr{c12Str("无")}},
			// whole numbers beyond 2^63 as keys: two different ones are two keys
			zn.Call{Name: "查", Args: []zn.Expr{zn.Num{Lit: "10000000000000000000"}}}, zn.Call{Name: "查", Args: []zn.Expr{zn.Num{Lit: "20000000000000000000"}}}))
		return out
	}
	sp.Ops = func(declared []string, rf *zn.Ref, depth int) []histOp {
		v := c12Num(depth % 3)
		has := func(n string) bool {
			for _, d := range declared {
				if d == n {
					return true
				}
			}
			return false
		}
		var ops []histOp
		add := func(label string, declares []string, st ...zn.Stmt) {
			ops = append(ops, histOp{Label: label, Declares: declares, Stmts: st})
		}
		es := func(e zn.Expr) zn.Stmt { return zn.ExprStmt{E: e} }
		ll := 0
		if lv, ok := rf.TopVar("L"); ok {
			if x, isL := lv.(*zn.LV); isL {
				ll = len(x.Items)
			}
		}
		// list
		idxs := map[int]bool{0: true, 1: true, 2: true, ll: true, ll + 1: true}
		for i := 0; i <= ll+1; i++ {
			if idxs[i] {
				add(fmt.Sprintf("（写：%d、v）", i), nil, show(c12Str("写"), zn.Call{Name: "写", Args: []zn.Expr{c12Num(i), v}}))
			}
		}
		// a position between two whole numbers is the whole number below it: 0.5 is no position
		add("（写：0.5、v）", nil, show(c12Str("写"), zn.Call{Name: "写", Args: []zn.Expr{zn.Num{Lit: "0.5"}, v}}))
		add("（写：1.5、v + 3）", nil, show(c12Str("写"), zn.Call{Name: "写", Args: []zn.Expr{zn.Num{Lit: "1.5"}, zn.Bin{Op: "+", L: v, R: c12Num(3)}}}))
		add("以L（前增：v）", nil, es(mcall(L, "前增", v)))
		add("以L（后增：v）", nil, show(mem(mcall(L, "后增", v), "末项"), mem(L, "长度")))
		add("以L（左移）", nil, show(mem(L, "首项"), mcall(L, "左移")))
		add("以L（右移）", nil, show(mem(L, "末项"), mcall(L, "右移")))
		add("（换：1、2）", nil, show(zn.Call{Name: "换", Args: []zn.Expr{c12Num(1), c12Num(2)}}))
		add("（换：1、len+1）", nil, show(zn.Call{Name: "换", Args: []zn.Expr{c12Num(1), c12Num(ll + 1)}}))
		add("以L（合并：【v，7】）", nil, show(mcall(L, "合并", zn.List{Items: []zn.Expr{v, c12Num(7)}})))
		// the receiver itself among the arguments (after a non-empty one, twice)
		add("以L（合并：【v】、L）", nil, show(mcall(L, "合并", zn.List{Items: []zn.Expr{v}}, L)))
		add("以L（合并：L、L）", nil, show(mcall(L, "合并", L, L)))
		add("L之首项 = v", nil, es(zn.Assign{Target: mem(L, "首项"), Val: v}))
		add("L之末项 = v", nil, es(zn.Assign{Target: mem(L, "末项"), Val: v}))
		if !has("M") {
			add("令M = L", []string{"M"}, decl("M", L))
		} else {
			add("M = L", nil, es(zn.Assign{Target: zn.Var{Name: "M"}, Val: L}))
			// assignment from a call that returns its receiver: M still gets a copy
			add("M = 以L（后增：v）", nil, es(zn.Assign{Target: zn.Var{Name: "M"}, Val: mcall(L, "后增", v)}))
			add("L = M", nil, es(zn.Assign{Target: L, Val: zn.Var{Name: "M"}}))
			add("以M（后增：v）", nil, es(mcall(zn.Var{Name: "M"}, "后增", v)))
			// the position a two-name loop hands out, stored as it is while the loop goes on: every
			// stored position stays the one it was stored as
			add("以I、V遍历L：以M（后增：I）", nil, zn.Iter{Vars: []string{"位", "值"}, Target: L, Body: []zn.Stmt{es(mcall(zn.Var{Name: "M"}, "后增", zn.Var{Name: "位"}))}})
		}
		// dictionary
		for _, k := range c12Keys {
			add(fmt.Sprintf("D#“%s” = v", k), nil, es(zn.Assign{Target: zn.Index{Root: D, Idx: c12Str(k)}, Val: v}))
			add(fmt.Sprintf("以D（写入：“%s”、v）", k), nil, show(mcall(D, "写入", c12Str(k), v)))
			add(fmt.Sprintf("以D（移除：“%s”）", k), nil, show(mcall(D, "移除", c12Str(k))))
		}
		add("D#1 = v", nil, es(zn.Assign{Target: zn.Index{Root: D, Idx: c12Num(1)}, Val: v}))
		add("D#10000000000000000000 = v", nil, es(zn.Assign{Target: zn.Index{Root: D, Idx: zn.Num{Lit: "10000000000000000000"}}, Val: v}))
		add("D#20000000000000000000 = v + 5", nil, es(zn.Assign{Target: zn.Index{Root: D, Idx: zn.Num{Lit: "20000000000000000000"}}, Val: zn.Bin{Op: "+", L: v, R: c12Num(5)}}))
		// a fourth and a fifth key (the copy below gets new keys of its own as well: a copy made while
		// the key list has spare room must not share that room with the original)
		add("D#“丁” = v", nil, es(zn.Assign{Target: zn.Index{Root: D, Idx: c12Str("丁")}, Val: v}))
		if !has("E") {
			add("令E = D", []string{"E"}, decl("E", D))
		} else {
			add("E#“戊” = v", nil, es(zn.Assign{Target: zn.Index{Root: zn.Var{Name: "E"}, Idx: c12Str("戊")}, Val: v}))
			add("以E（写入：“丁”、v + 6）", nil, show(mcall(zn.Var{Name: "E"}, "写入", c12Str("丁"), zn.Bin{Op: "+", L: v, R: c12Num(6)})))
			add("D#“戊” = v + 7", nil, es(zn.Assign{Target: zn.Index{Root: D, Idx: c12Str("戊")}, Val: zn.Bin{Op: "+", L: v, R: c12Num(7)}}))
			add("E = D", nil, es(zn.Assign{Target: zn.Var{Name: "E"}, Val: D}))
			add("D = E", nil, es(zn.Assign{Target: D, Val: zn.Var{Name: "E"}}))
			add("以E（移除：“乙”）", nil, show(mcall(zn.Var{Name: "E"}, "移除", c12Str("乙"))))
		}
		_, _ = K, I
		return ops
	}
	return sp
}

func init() {
	sp := c12Spec()
	mc.Register(&mc.Check{
		ID:    "C12",
		Level: "model_checking",
		Rule:  "E2: breadth-first search over operation histories on a list L and a dictionary D (plus one copy of each) from 3 initial states (non-empty, empty, literal with duplicate keys); list operations: guarded write at positions {0,1,2,len,len+1} and at the fractional positions 0.5 and 1.5, 前增 后增 左移 右移 交换 (in and out of range) 合并 (also with the receiver itself among the arguments), setters 首项 末项, copies; dictionary operations over keys 乙 甲 丙 (deliberately unsorted) and 丁 戊: #k write, 写入 移除 读取, new keys written to the original and to its copy, numeric key, two whole-number keys beyond 2^63, copies; a two-name loop over L that appends its position variable to the copy M; values cycle through 0..2 so the space closes under the history bound. Every history of >= 3 operations is also run with the battery only at its end (an observation may itself refresh hidden state). After EVERY operation the full observation battery runs on the real interpreter (fresh run of the whole history) and the reference (slice / key list + map): structural value, display text, length, 首项 末项 逆序 逆序∘逆序 包含 寻找 (first position of 0, 1, 2 relative to the answer for an absent value), guarded reads at 0,1,2,len,len+1 and at 0.5, 1.5, -0.5 (out of range => error and unchanged), iteration order with indices, 所有索引 所有值, keyed reads of present and absent keys, generated JSON (of the dictionary itself and of it as an item of a list, of a list in a list and under a key).",
		Assumptions: []string{
			"the numbering of 寻找 is not fixed (only the distance between the answer for a stored value and the answer for an absent one, which is the 1-based first position under either convention); the index convention of 新增 is not asserted",
			"JSON text of the reference uses Go's shortest float formatting and member order = stored key order",
			"histories longer than the bound are not covered",
		},
		Budget: func(tier string) time.Duration {
			if tier == "thorough" {
				return 20 * time.Minute
			}
			return 240 * time.Second
		},
		Run: func(c *mc.Ctx) {
			n := 4
			if c.Tier == "thorough" {
				n = 5 // length 6 takes longer than the budget since every history is run observed and blind
			}
			sp.explore(c, n)
		},
		Replay: func(c *mc.Ctx, raw json.RawMessage) { sp.replay(c, raw) },
	})
}
