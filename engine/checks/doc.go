// Package checks holds one file per property (C01..C20); each registers an
// mc.Check in its init function.
package checks

func clipS(s string, n int) string {
	if len(s) > n {
		return s[:n] + "…"
	}
	return s
}
