// Package checks holds one file per property (C01..C20); each registers an
// mc.Check in its init function.
package checks
