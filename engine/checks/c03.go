package checks

// C03 — parsing builds the tree the grammar prescribes, for any layout.
//
// E1 x E3: (i) every statement tree with <= k nodes over all statement kinds,
// every program-section combination, and every expression form placed in every
// expression slot; (ii) for each AST every layout vector that differs from the
// default layout in <= d places (synonyms, optional spaces, comments, optional
// commas, TAB/space indentation, LF/CRLF/CR/LFCR, blank lines, line breaks after
// separators, 令： block form, ； instead of a line break).  Oracle: the dump of
// the parser's tree equals the generator's tree.  Second half: every token-level
// corruption of every default rendering either is rejected or yields a complete tree.

import (
	"encoding/json"
	"fmt"
	"strings"
	"time"

	"github.com/DemoHn/Zn/pkg/syntax"
	"github.com/DemoHn/Zn/pkg/syntax/zh"

	"verif/engine/mc"
	"verif/engine/zn"
)

// ---------- expression corpus

func c03E0() []zn.Expr {
	// (the fourth leaf is a text with a real line break inside: the statement goes on after it)
	// (the fifth is a name that begins like a comment but is none; the sixth a text with a
	// variation selector, an invisible character that is part of the value all the same)
	return []zn.Expr{zn.Var{Name: "A"}, zn.Num{Lit: "1"}, zn.Str{Val: "s"}, zn.Str{Val: "u\nv"}, zn.Var{Name: "注册"}, zn.Str{Val: "心\uFE0F"}}
}

// expression forms as constructors over child slots
type c03Form struct {
	name  string
	slots int
	mk    func(ch []zn.Expr) zn.Expr
}

func c03Forms() []c03Form {
	var fs []c03Form
	for _, op := range []string{"+", "-", "*", "/", "|", "%", "==", "/=", ">", "<", ">=", "<=", "为", "不为", "且", "或"} {
		o := op
		fs = append(fs, c03Form{"bin" + o, 2, func(ch []zn.Expr) zn.Expr { return zn.Bin{Op: o, L: ch[0], R: ch[1]} }})
	}
	fs = append(fs,
		c03Form{"list0", 0, func(ch []zn.Expr) zn.Expr { return zn.List{} }},
		c03Form{"list1", 1, func(ch []zn.Expr) zn.Expr { return zn.List{Items: []zn.Expr{ch[0]}} }},
		c03Form{"list2", 2, func(ch []zn.Expr) zn.Expr { return zn.List{Items: []zn.Expr{ch[0], ch[1]}} }},
		c03Form{"dict0", 0, func(ch []zn.Expr) zn.Expr { return zn.Dict{} }},
		c03Form{"dict1", 1, func(ch []zn.Expr) zn.Expr { return zn.Dict{Pairs: []zn.DictPair{{Key: "K", Val: ch[0]}}} }},
		c03Form{"dict2", 2, func(ch []zn.Expr) zn.Expr {
			return zn.Dict{Pairs: []zn.DictPair{{Key: "K", Val: ch[0]}, {Key: "t", KeyStr: true, Val: ch[1]}}}
		}},
		c03Form{"dictnum", 1, func(ch []zn.Expr) zn.Expr { return zn.Dict{Pairs: []zn.DictPair{{Key: "1", Val: ch[0]}}} }},
		c03Form{"call0", 0, func(ch []zn.Expr) zn.Expr { return zn.Call{Name: "F"} }},
		c03Form{"call1", 1, func(ch []zn.Expr) zn.Expr { return zn.Call{Name: "F", Args: []zn.Expr{ch[0]}} }},
		c03Form{"call2", 2, func(ch []zn.Expr) zn.Expr { return zn.Call{Name: "F", Args: []zn.Expr{ch[0], ch[1]}} }},
		c03Form{"cally", 1, func(ch []zn.Expr) zn.Expr { return zn.Call{Name: "F", Args: []zn.Expr{ch[0]}, Yield: "R"} }},
		c03Form{"new0", 0, func(ch []zn.Expr) zn.Expr { return zn.New{Class: "T"} }},
		c03Form{"new2", 2, func(ch []zn.Expr) zn.Expr { return zn.New{Class: "T", Args: []zn.Expr{ch[0], ch[1]}} }},
		c03Form{"mcall0", 1, func(ch []zn.Expr) zn.Expr { return zn.MCall{Root: ch[0], Chain: []zn.Call{{Name: "m"}}} }},
		c03Form{"mcall1", 2, func(ch []zn.Expr) zn.Expr {
			return zn.MCall{Root: ch[0], Chain: []zn.Call{{Name: "m", Args: []zn.Expr{ch[1]}}}}
		}},
		c03Form{"mchain", 2, func(ch []zn.Expr) zn.Expr {
			return zn.MCall{Root: ch[0], Chain: []zn.Call{{Name: "m"}, {Name: "n", Args: []zn.Expr{ch[1]}}}}
		}},
		c03Form{"mcally", 1, func(ch []zn.Expr) zn.Expr { return zn.MCall{Root: ch[0], Chain: []zn.Call{{Name: "m"}}, Yield: "R"} }},
		c03Form{"mchainy", 2, func(ch []zn.Expr) zn.Expr {
			return zn.MCall{Root: ch[0], Chain: []zn.Call{{Name: "m"}, {Name: "n", Args: []zn.Expr{ch[1]}}}, Yield: "R"}
		}},
		c03Form{"mchainy3", 1, func(ch []zn.Expr) zn.Expr {
			return zn.MCall{Root: ch[0], Chain: []zn.Call{{Name: "m"}, {Name: "n"}, {Name: "o", Args: []zn.Expr{zn.Num{Lit: "2"}}}}, Yield: "R"}
		}},
		c03Form{"idxnum", 1, func(ch []zn.Expr) zn.Expr { return zn.Index{Root: ch[0], Idx: zn.Num{Lit: "1"}} }},
		c03Form{"idxvar", 1, func(ch []zn.Expr) zn.Expr { return zn.Index{Root: ch[0], Idx: zn.Var{Name: "K"}} }},
		c03Form{"idxstr", 1, func(ch []zn.Expr) zn.Expr { return zn.Index{Root: ch[0], Idx: zn.Str{Val: "k"}} }},
		c03Form{"idxexpr", 2, func(ch []zn.Expr) zn.Expr {
			return zn.Index{Root: ch[0], Idx: zn.Bin{Op: "+", L: ch[1], R: zn.Num{Lit: "1"}}}
		}},
		c03Form{"member", 1, func(ch []zn.Expr) zn.Expr { return zn.Member{Root: ch[0], Name: "P"} }},
		c03Form{"this", 0, func(ch []zn.Expr) zn.Expr { return zn.This{Name: "P"} }},
		c03Form{"asgvar", 1, func(ch []zn.Expr) zn.Expr { return zn.Assign{Target: zn.Var{Name: "X"}, Val: ch[0]} }},
		c03Form{"asgidx", 2, func(ch []zn.Expr) zn.Expr {
			return zn.Assign{Target: zn.Index{Root: ch[0], Idx: zn.Num{Lit: "1"}}, Val: ch[1]}
		}},
		c03Form{"asgmem", 2, func(ch []zn.Expr) zn.Expr { return zn.Assign{Target: zn.Member{Root: ch[0], Name: "P"}, Val: ch[1]} }},
		c03Form{"asgthis", 1, func(ch []zn.Expr) zn.Expr { return zn.Assign{Target: zn.This{Name: "P"}, Val: ch[0]} }},
	)
	return fs
}

// c03Valid: some slots only take restricted expressions in the grammar
// (assignment value is an arithmetic-level expression; assignment itself only
// as a whole statement or braced — the renderer braces it).
func c03IsAssign(e zn.Expr) bool { _, ok := e.(zn.Assign); return ok }

// exprs of level 1 (forms over E0) and level 2 (one level-1 child, rest E0)
func c03Exprs() (e1, e2 []zn.Expr) {
	e0 := c03E0()
	forms := c03Forms()
	for _, f := range forms {
		switch f.slots {
		case 0:
			e1 = append(e1, f.mk(nil))
		case 1:
			for _, a := range e0 {
				e1 = append(e1, f.mk([]zn.Expr{a}))
			}
		case 2:
			e1 = append(e1, f.mk([]zn.Expr{e0[0], e0[1]}), f.mk([]zn.Expr{e0[1], e0[2]}), f.mk([]zn.Expr{e0[2], e0[0]}))
		}
	}
	for _, f := range forms {
		for s := 0; s < f.slots; s++ {
			for _, c := range e1 {
				ch := []zn.Expr{e0[0], e0[1]}
				ch[s] = c
				e2 = append(e2, f.mk(ch))
			}
		}
	}
	return
}

// statement slots for an expression
func c03Slots(e zn.Expr) []*zn.Program {
	body := []zn.Stmt{zn.ExprStmt{E: zn.Var{Name: "B"}}}
	var ps []*zn.Program
	add := func(s ...zn.Stmt) { ps = append(ps, &zn.Program{Body: s}) }
	add(zn.ExprStmt{E: e})
	add(zn.Return{Val: e})
	if !c03IsAssign(e) {
		add(zn.Decl{Pairs: []zn.DeclPair{{Names: []string{"X"}, Val: e}}})
		add(zn.If{Cond: e, Then: body}, zn.ExprStmt{E: zn.Var{Name: "C"}})
		add(zn.While{Cond: e, Body: body})
		add(zn.Iter{Vars: []string{"V"}, Target: e, Body: body})
		add(zn.Throw{Class: "E", Args: []zn.Expr{e, zn.Num{Lit: "2"}}})
		add(zn.Class{Name: "T", Props: []zn.Prop{{Name: "P", Val: e}}})
	}
	return ps
}

// ---------- statement trees

var c03Body1 = []zn.Stmt{zn.ExprStmt{E: zn.Var{Name: "Z"}}}

func c03Leaves() []zn.Stmt {
	return []zn.Stmt{
		zn.Decl{Pairs: []zn.DeclPair{{Names: []string{"A"}, Val: zn.Num{Lit: "1"}}}},
		zn.Decl{Pairs: []zn.DeclPair{{Names: []string{"A", "B"}, Const: true, Val: zn.Str{Val: "s"}}}},
		zn.Decl{Block: true, Pairs: []zn.DeclPair{{Names: []string{"A"}, Val: zn.Num{Lit: "1"}}, {Names: []string{"B", "C"}, Val: zn.Num{Lit: "2"}}}},
		zn.Return{Val: zn.Var{Name: "A"}},
		zn.Throw{Class: "异常", Args: []zn.Expr{zn.Str{Val: "m"}}},
		zn.Throw{Class: "E", Args: []zn.Expr{zn.Num{Lit: "1"}, zn.Var{Name: "A"}}},
		zn.Throw{Class: "E"}, // (the arguments are optional: BNF)
		zn.Break{}, zn.Continue{},
		zn.ExprStmt{E: zn.Assign{Target: zn.Var{Name: "A"}, Val: zn.Num{Lit: "1"}}},
		zn.ExprStmt{E: zn.Call{Name: "F", Args: []zn.Expr{zn.Var{Name: "A"}, zn.Num{Lit: "1"}}}},
		zn.ExprStmt{E: zn.MCall{Root: zn.Var{Name: "A"}, Chain: []zn.Call{{Name: "m", Args: []zn.Expr{zn.Num{Lit: "1"}}}}, Yield: "R"}},
		zn.ExprStmt{E: zn.Bin{Op: "+", L: zn.Var{Name: "A"}, R: zn.Num{Lit: "1"}}},
	}
}

const (
	c03NOne   = 9
	c03NTwo   = 3
	c03NThree = 2
)

func c03One(w int, b []zn.Stmt) zn.Stmt {
	cond := zn.Bin{Op: "<", L: zn.Var{Name: "A"}, R: zn.Num{Lit: "1"}}
	switch w {
	case 0:
		return zn.If{Cond: zn.Var{Name: "A"}, Then: b}
	case 1:
		return zn.While{Cond: cond, Body: b}
	case 2:
		return zn.Iter{Target: zn.Var{Name: "L"}, Body: b}
	case 3:
		return zn.Iter{Vars: []string{"V"}, Target: zn.Var{Name: "L"}, Body: b}
	case 4:
		return zn.Iter{Vars: []string{"K", "V"}, Target: zn.List{Items: []zn.Expr{zn.Num{Lit: "1"}}}, Body: b}
	case 5:
		return zn.Func{Name: "F", Body: b}
	case 6:
		return zn.Func{Name: "G", Params: []string{"X", "Y"}, Body: b}
	case 7:
		return zn.Func{Name: "T", Ctor: true, Params: []string{"X"}, Body: b}
	default:
		return zn.Class{Name: "T", Props: []zn.Prop{{Name: "P", Val: zn.Num{Lit: "1"}}}, Methods: []zn.Func{{Name: "M", Body: b}}}
	}
}

func c03Two(w int, a, b []zn.Stmt) zn.Stmt {
	switch w {
	case 0:
		return zn.If{Cond: zn.Var{Name: "A"}, Then: a, HasElse: true, Else: b}
	case 1:
		return zn.Func{Name: "F", Body: a, Catches: []zn.Catch{{Class: "E", Body: b}}}
	default:
		return zn.If{Cond: zn.Var{Name: "A"}, Then: a, Elifs: []zn.Elif{{Cond: zn.Var{Name: "B"}, Body: b}}}
	}
}

func c03Three(w int, a, b, cc []zn.Stmt) zn.Stmt {
	switch w {
	case 0:
		return zn.If{Cond: zn.Var{Name: "A"}, Then: a, Elifs: []zn.Elif{{Cond: zn.Var{Name: "B"}, Body: b}}, HasElse: true, Else: cc}
	default:
		return zn.Func{Name: "F", Body: a, Catches: []zn.Catch{{Class: "E", Body: b}, {Class: "异常", Body: cc}}}
	}
}

// c03Bodies enumerates all statement lists of exactly m nodes, nesting <= d.
var c03Memo = map[[2]int][][]zn.Stmt{}

func c03Stmts(m, d int) []zn.Stmt {
	var out []zn.Stmt
	if m == 1 {
		return c03Leaves()
	}
	if d == 0 {
		return nil
	}
	for _, b := range c03Bodies(m-1, d-1) {
		for w := 0; w < c03NOne; w++ {
			out = append(out, c03One(w, b))
		}
	}
	for a := 1; a < m-1; a++ {
		for _, x := range c03Bodies(a, d-1) {
			for _, y := range c03Bodies(m-1-a, d-1) {
				for w := 0; w < c03NTwo; w++ {
					out = append(out, c03Two(w, x, y))
				}
			}
		}
	}
	for a := 1; a < m-1; a++ {
		for b := 1; b < m-1-a; b++ {
			for _, x := range c03Bodies(a, d-1) {
				for _, y := range c03Bodies(b, d-1) {
					for _, z := range c03Bodies(m-1-a-b, d-1) {
						for w := 0; w < c03NThree; w++ {
							out = append(out, c03Three(w, x, y, z))
						}
					}
				}
			}
		}
	}
	return out
}

func c03Bodies(m, d int) [][]zn.Stmt {
	if m <= 0 {
		return nil
	}
	k := [2]int{m, d}
	if v, ok := c03Memo[k]; ok {
		return v
	}
	var out [][]zn.Stmt
	for _, s := range c03Stmts(m, d) {
		out = append(out, []zn.Stmt{s})
	}
	for s := 1; s < m; s++ {
		for _, first := range c03Stmts(s, d) {
			for _, rest := range c03Bodies(m-s, d) {
				out = append(out, append([]zn.Stmt{first}, rest...))
			}
		}
	}
	c03Memo[k] = out
	return out
}

// c03NestedBranches: outer chain shape x inner chain shape x which outer block holds the
// inner chain x inner wrapped in a loop or not x a statement after the inner / after the outer.
func c03NestedBranches() []*zn.Program {
	st := func(n string) zn.Stmt { return zn.ExprStmt{E: zn.Var{Name: n}} }
	mk := func(shape int, cond string, blocks [][]zn.Stmt) zn.If {
		f := zn.If{Cond: zn.Var{Name: cond}, Then: blocks[0]}
		k := 1
		if shape == 2 || shape == 3 {
			f.Elifs = []zn.Elif{{Cond: zn.Var{Name: cond + "二"}, Body: blocks[k]}}
			k++
		}
		if shape == 1 || shape == 3 {
			f.HasElse = true
			f.Else = blocks[k]
		}
		return f
	}
	nblocks := []int{1, 2, 2, 3}
	var out []*zn.Program
	for o := 0; o < 4; o++ {
		for i := 0; i < 4; i++ {
			for pos := 0; pos < nblocks[o]; pos++ {
				for wrap := 0; wrap < 2; wrap++ {
					for tail := 0; tail < 4; tail++ {
						var ib [][]zn.Stmt
						for k := 0; k < nblocks[i]; k++ {
							ib = append(ib, []zn.Stmt{st(fmt.Sprintf("I%d", k))})
						}
						var inner zn.Stmt = mk(i, "C", ib)
						if wrap == 1 {
							inner = zn.While{Cond: zn.Var{Name: "W"}, Body: []zn.Stmt{inner}}
						}
						var ob [][]zn.Stmt
						for k := 0; k < nblocks[o]; k++ {
							if k == pos {
								b := []zn.Stmt{st("P"), inner}
								if tail&1 == 1 {
									b = append(b, st("Q"))
								}
								ob = append(ob, b)
							} else {
								ob = append(ob, []zn.Stmt{st(fmt.Sprintf("O%d", k))})
							}
						}
						body := []zn.Stmt{mk(o, "A", ob)}
						if tail&2 == 2 {
							body = append(body, st("Z"))
						}
						out = append(out, &zn.Program{Body: body})
					}
				}
			}
		}
	}
	return out
}

// program sections
func c03Sections() []*zn.Program {
	imps := [][]zn.Import{
		nil,
		{{Name: "模块"}},
		{{Name: "@JSON", Lib: true}},
		{{Name: "子-丙", Items: []string{"F", "G"}}},
		{{Name: "@文件", Lib: true, Items: []string{"读取文件"}}, {Name: "模块"}},
	}
	inputs := [][]string{nil, {"X"}, {"X", "Y"}}
	catches := [][]zn.Catch{
		nil,
		{{Class: "异常", Body: c03Body1}},
		{{Class: "E", Body: []zn.Stmt{zn.Return{Val: zn.This{Name: "内容"}}}}, {Class: "异常", Body: c03Body1}},
	}
	bodies := [][]zn.Stmt{
		{zn.Return{Val: zn.Var{Name: "X"}}},
		{zn.Decl{Pairs: []zn.DeclPair{{Names: []string{"A"}, Val: zn.Num{Lit: "1"}}}}, zn.Func{Name: "F", Body: c03Body1}, zn.ExprStmt{E: zn.Call{Name: "F"}}},
	}
	var out []*zn.Program
	for _, im := range imps {
		for _, in := range inputs {
			for _, ca := range catches {
				for _, bo := range bodies {
					out = append(out, &zn.Program{Imports: im, Inputs: in, Body: bo, Catches: ca})
				}
			}
		}
	}
	return out
}

// ---------- the check

type c03Case struct {
	Part    string `json:"part"`
	Source  string `json:"source"`
	Want    string `json:"want_tree,omitempty"`
	Choices []int  `json:"layout_choices,omitempty"`
	Devs    string `json:"deviations,omitempty"`
}

func c03Parse(src string) (tree *syntax.Program, err error, pan string) {
	defer func() {
		if p := recover(); p != nil {
			pan = fmt.Sprint(p)
		}
	}()
	p := syntax.NewParser([]rune(src), zh.NewParserZH())
	tree, err = p.Parse()
	return
}

var c03CurIdx int64

func c03Devs(log []mc.Point) string {
	var parts []string
	for i, p := range log {
		if p.Chosen != 0 {
			parts = append(parts, fmt.Sprintf("%d:%s=%d", i, p.Kind, p.Chosen))
		}
	}
	return strings.Join(parts, ",")
}

// ---------- wide operands: the parser holds on to a token (an operator, an opening bracket, a
// method name) while it reads whatever follows; what follows may be arbitrarily long
type c03WideGen struct {
	name string
	mk   func(n int) zn.Expr
}

func c03WideLeaf(i int) zn.Expr {
	switch i % 3 {
	case 0:
		return zn.Num{Lit: fmt.Sprint(i%7 + 1)}
	case 1:
		return zn.Var{Name: "A"}
	}
	return zn.Str{Val: "s"}
}

func c03WideGens() []c03WideGen {
	items := func(n int) []zn.Expr {
		var out []zn.Expr
		for i := 0; i < n; i++ {
			out = append(out, c03WideLeaf(i))
		}
		return out
	}
	return []c03WideGen{
		{"list", func(n int) zn.Expr { return zn.List{Items: items(n)} }},
		{"call", func(n int) zn.Expr { return zn.Call{Name: "F", Args: items(n)} }},
		{"new", func(n int) zn.Expr { return zn.New{Class: "T", Args: items(n)} }},
		{"dict", func(n int) zn.Expr {
			d := zn.Dict{}
			for i := 0; i < n; i++ {
				d.Pairs = append(d.Pairs, zn.DictPair{Key: fmt.Sprintf("K%d", i), Val: c03WideLeaf(i)})
			}
			return d
		}},
		{"sum", func(n int) zn.Expr {
			var e zn.Expr = zn.Var{Name: "A"}
			for i := 0; i < n; i++ {
				e = zn.Bin{Op: []string{"+", "-"}[i%2], L: e, R: c03WideLeaf(i)}
			}
			return e
		}},
		{"product-right-nested", func(n int) zn.Expr {
			var e zn.Expr = zn.Var{Name: "A"}
			for i := 0; i < n; i++ {
				e = zn.Bin{Op: []string{"*", "-", "/"}[i%3], L: c03WideLeaf(i), R: e}
			}
			return e
		}},
		{"nested-list", func(n int) zn.Expr {
			var e zn.Expr = zn.Num{Lit: "1"}
			for i := 0; i < n; i++ {
				e = zn.List{Items: []zn.Expr{e}}
			}
			return e
		}},
		{"method-chain", func(n int) zn.Expr {
			m := zn.MCall{Root: zn.Var{Name: "A"}}
			for i := 0; i < n; i++ {
				m.Chain = append(m.Chain, zn.Call{Name: "m", Args: []zn.Expr{c03WideLeaf(i)}})
			}
			return m
		}},
		{"index-chain", func(n int) zn.Expr {
			var e zn.Expr = zn.Var{Name: "A"}
			for i := 0; i < n; i++ {
				if i%2 == 0 {
					e = zn.Index{Root: e, Idx: zn.Num{Lit: "1"}}
				} else {
					e = zn.Member{Root: e, Name: "P"}
				}
			}
			return e
		}},
	}
}

func c03WideWidths(tier string) []int {
	var ws []int
	top := 72
	extra := []int{96, 127, 128, 129, 255, 256, 257, 400}
	if tier == "thorough" {
		top = 300
		extra = []int{511, 512, 513, 1000, 1023, 1024, 1025, 2000}
	}
	for n := 1; n <= top; n++ {
		ws = append(ws, n)
	}
	return append(ws, extra...)
}

// c03WidePrograms: the wide expression in each slot of every form that has one, the other slot a
// leaf, as an expression statement, a declared value and a branch condition
func c03WidePrograms(w zn.Expr) []*zn.Program {
	var ps []*zn.Program
	body := []zn.Stmt{zn.ExprStmt{E: zn.Var{Name: "B"}}}
	for _, f := range c03Forms() {
		for s := 0; s < f.slots; s++ {
			ch := []zn.Expr{zn.Var{Name: "A"}, zn.Num{Lit: "1"}}
			ch[s] = w
			e := f.mk(ch)
			ps = append(ps, &zn.Program{Body: []zn.Stmt{zn.ExprStmt{E: e}, zn.ExprStmt{E: zn.Var{Name: "C"}}}})
			if !c03IsAssign(e) {
				ps = append(ps, &zn.Program{Body: []zn.Stmt{zn.Decl{Pairs: []zn.DeclPair{{Names: []string{"X"}, Val: e}}}}})
				ps = append(ps, &zn.Program{Body: []zn.Stmt{zn.If{Cond: e, Then: body}, zn.ExprStmt{E: zn.Var{Name: "C"}}}})
			}
		}
	}
	return ps
}

// c03WideStmtPrograms: statement-level constructs that hold n parts of one kind (the parser keeps
// the header of the construct while it reads them)
func c03WideStmtPrograms(n int) []*zn.Program {
	es := func(name string) zn.Stmt { return zn.ExprStmt{E: zn.Var{Name: name}} }
	stmts := func(k int) []zn.Stmt {
		var out []zn.Stmt
		for i := 0; i < k; i++ {
			switch i % 3 {
			case 0:
				out = append(out, zn.ExprStmt{E: zn.Call{Name: "F", Args: []zn.Expr{c03WideLeaf(i)}}})
			case 1:
				out = append(out, zn.Decl{Pairs: []zn.DeclPair{{Names: []string{fmt.Sprintf("V%d", i)}, Val: c03WideLeaf(i)}}})
			default:
				out = append(out, zn.ExprStmt{E: zn.Assign{Target: zn.Var{Name: "X"}, Val: c03WideLeaf(i)}})
			}
		}
		return out
	}
	names := func(pre string, k int) []string {
		var out []string
		for i := 0; i < k; i++ {
			out = append(out, fmt.Sprintf("%s%d", pre, i))
		}
		return out
	}
	var ps []*zn.Program
	add := func(p *zn.Program) { ps = append(ps, p) }
	// a long block closed by a dedent into 再如 / 否则 / the next statement
	add(&zn.Program{Body: []zn.Stmt{zn.If{Cond: zn.Var{Name: "A"}, Then: stmts(n), Elifs: []zn.Elif{{Cond: zn.Var{Name: "B"}, Body: stmts(n)}}, Else: stmts(n), HasElse: true}, es("C")}})
	add(&zn.Program{Body: []zn.Stmt{zn.While{Cond: zn.Var{Name: "A"}, Body: []zn.Stmt{zn.If{Cond: zn.Var{Name: "B"}, Then: stmts(n)}, es("D")}}, es("C")}})
	// many 再如 branches
	{
		f := zn.If{Cond: zn.Var{Name: "A"}, Then: []zn.Stmt{es("B")}, Else: []zn.Stmt{es("E")}, HasElse: true}
		for i := 0; i < n; i++ {
			f.Elifs = append(f.Elifs, zn.Elif{Cond: zn.Bin{Op: "==", L: zn.Var{Name: "A"}, R: zn.Num{Lit: fmt.Sprint(i)}}, Body: []zn.Stmt{es(fmt.Sprintf("B%d", i))}})
		}
		add(&zn.Program{Body: []zn.Stmt{f, es("C")}})
	}
	// many statements at top level, many names in one declaration, many pairs in one declaration
	add(&zn.Program{Body: stmts(n)})
	add(&zn.Program{Body: []zn.Stmt{zn.Decl{Pairs: []zn.DeclPair{{Names: names("N", n), Val: zn.Num{Lit: "1"}}}}, es("C")}})
	{
		d := zn.Decl{Block: true}
		for i := 0; i < n; i++ {
			d.Pairs = append(d.Pairs, zn.DeclPair{Names: []string{fmt.Sprintf("N%d", i)}, Val: c03WideLeaf(i)})
		}
		add(&zn.Program{Body: []zn.Stmt{d, es("C")}})
	}
	// many inputs of the program and of a method, a long method body with handlers, many handlers
	add(&zn.Program{Inputs: names("I", n), Body: []zn.Stmt{es("C")}})
	add(&zn.Program{Body: []zn.Stmt{zn.Func{Name: "M", Params: names("P", n), Body: stmts(n), Catches: []zn.Catch{{Class: "E", Body: stmts(n)}}}, es("C")}})
	{
		f := zn.Func{Name: "M", Body: []zn.Stmt{es("B")}}
		for i := 0; i < n; i++ {
			f.Catches = append(f.Catches, zn.Catch{Class: fmt.Sprintf("E%d", i), Body: []zn.Stmt{es(fmt.Sprintf("B%d", i))}})
		}
		add(&zn.Program{Body: []zn.Stmt{f, es("C")}})
	}
	// many imports, many items of one import
	{
		p := &zn.Program{Body: []zn.Stmt{es("C")}}
		for i := 0; i < n; i++ {
			p.Imports = append(p.Imports, zn.Import{Name: fmt.Sprintf("m%d", i), Items: names("f", i%3)})
		}
		add(p)
		add(&zn.Program{Imports: []zn.Import{{Name: "m", Items: names("f", n)}}, Body: []zn.Stmt{es("C")}})
	}
	// a type with many properties and many methods
	{
		cl := zn.Class{Name: "T"}
		for i := 0; i < n; i++ {
			cl.Props = append(cl.Props, zn.Prop{Name: fmt.Sprintf("P%d", i), Val: c03WideLeaf(i)})
			cl.Methods = append(cl.Methods, zn.Func{Name: fmt.Sprintf("M%d", i), Params: names("Q", i%3), Body: []zn.Stmt{es("B")}})
		}
		add(&zn.Program{Body: []zn.Stmt{cl, es("C")}})
	}
	// exception with many arguments, loop with a long target
	add(&zn.Program{Body: []zn.Stmt{zn.Throw{Class: "E", Args: func() []zn.Expr {
		var a []zn.Expr
		for i := 0; i < n; i++ {
			a = append(a, c03WideLeaf(i))
		}
		return a
	}()}}})
	// nesting: n levels of 如果 inside one another, each closed by a statement of its own level
	if n <= 40 {
		var inner []zn.Stmt = []zn.Stmt{es("Z")}
		for i := 0; i < n; i++ {
			inner = []zn.Stmt{zn.If{Cond: zn.Var{Name: "A"}, Then: inner}, es(fmt.Sprintf("L%d", i))}
		}
		add(&zn.Program{Body: inner})
	}
	return ps
}

// c03MultiLinePrograms: a text with a real line break inside (manual ch.1) in statements that
// stand INSIDE blocks: as the condition of a nested header, as a value followed by more statements
// of the block - the line on which the statement ends begins inside the text
func c03MultiLinePrograms() []*zn.Program {
	ml := zn.Str{Val: "u\nv"}
	es := func(n string) zn.Stmt { return zn.ExprStmt{E: zn.Var{Name: n}} }
	inner := [][]zn.Stmt{
		{zn.If{Cond: zn.Bin{Op: "==", L: zn.Var{Name: "A"}, R: ml}, Then: []zn.Stmt{es("B")}}, es("D")},
		{zn.If{Cond: zn.Bin{Op: "==", L: zn.Var{Name: "A"}, R: ml}, Then: []zn.Stmt{es("B")}, Else: []zn.Stmt{es("E")}, HasElse: true}, es("D")},
		{zn.If{Cond: zn.Var{Name: "A"}, Then: []zn.Stmt{es("B")}, Elifs: []zn.Elif{{Cond: zn.Bin{Op: "为", L: zn.Var{Name: "A"}, R: ml}, Body: []zn.Stmt{es("F")}}}}, es("D")},
		{zn.While{Cond: zn.Bin{Op: "/=", L: zn.Var{Name: "A"}, R: ml}, Body: []zn.Stmt{es("B")}}, es("D")},
		{zn.Iter{Vars: []string{"V"}, Target: zn.List{Items: []zn.Expr{ml}}, Body: []zn.Stmt{es("B")}}, es("D")},
		{zn.Decl{Pairs: []zn.DeclPair{{Names: []string{"X"}, Val: ml}}}, es("D")},
		{zn.ExprStmt{E: zn.Call{Name: "F", Args: []zn.Expr{ml}}}, es("D")},
		{zn.ExprStmt{E: zn.Assign{Target: zn.Var{Name: "X"}, Val: ml}}, zn.Return{Val: ml}},
		{zn.Return{Val: ml}},
		{zn.Throw{Class: "E", Args: []zn.Expr{ml}}},
		{zn.ExprStmt{E: zn.MCall{Root: ml, Chain: []zn.Call{{Name: "m", Args: []zn.Expr{ml}}}}}, es("D")},
	}
	var ps []*zn.Program
	for _, in := range inner {
		ps = append(ps, &zn.Program{Body: []zn.Stmt{zn.If{Cond: zn.Var{Name: "A"}, Then: in}, es("C")}})
		ps = append(ps, &zn.Program{Body: []zn.Stmt{zn.While{Cond: zn.Var{Name: "A"}, Body: []zn.Stmt{zn.If{Cond: zn.Var{Name: "B"}, Then: in, Else: []zn.Stmt{es("E")}, HasElse: true}}}, es("C")}})
		ps = append(ps, &zn.Program{Body: []zn.Stmt{zn.Func{Name: "M", Params: []string{"P"}, Body: in, Catches: []zn.Catch{{Class: "E", Body: in}}}, es("C")}})
		ps = append(ps, &zn.Program{Body: []zn.Stmt{zn.Class{Name: "T", Props: []zn.Prop{{Name: "P", Val: ml}, {Name: "Q", Val: zn.Num{Lit: "1"}}}, Methods: []zn.Func{{Name: "M", Body: in}}}, es("C")}})
	}
	return ps
}

// c03CommentBreaks: a /* */ comment that spans a line break in front of the first token of a
// line (the comment's second line indented like the statement, or not at all): the statement
// still begins on that line, at the indentation the first line had
func c03CommentBreaks(c *mc.Ctx, prog *zn.Program, part string) {
	want := zn.Show(prog)
	base := zn.Render(prog, nil)
	if strings.Contains(base, "u\nv") {
		return
	}
	lines := strings.Split(strings.TrimSuffix(base, "\n"), "\n")
	var n int64
	for b := 0; b < len(lines); b++ {
		body := strings.TrimLeft(lines[b], " ")
		ind := lines[b][:len(lines[b])-len(body)]
		for _, second := range []string{ind + "*/ ", ind + "   */ ", "*/ "} {
			if second == "*/ " && ind == "" {
				continue
			}
			all := append(append(append([]string{}, lines[:b]...), ind+"/* 注", second+body), lines[b+1:]...)
			src := strings.Join(all, "\n") + "\n"
			cs := func() json.RawMessage {
				return mc.J(c03Case{Part: part, Source: src, Want: want, Devs: fmt.Sprintf("two-line comment in front of line %d, closing line %q", b+1, second)})
			}
			c.Case(c03CurIdx, cs)
			n++
			tree, err, pan := c03Parse(src)
			if pan != "" {
				c.Fail(mc.Failure{Kind: "panic", Case: cs(), Observed: pan})
				continue
			}
			if err != nil {
				c.Fail(mc.Failure{Bucket: "reject:comment-break", Kind: "mismatch", Case: cs(), Expected: "tree " + want, Observed: "syntax error: " + err.Error()})
				continue
			}
			got, missing := zn.Dump(tree)
			if len(missing) > 0 {
				c.Fail(mc.Failure{Bucket: "incomplete:" + missing[0], Kind: "mismatch", Case: cs(), Expected: "complete tree", Observed: fmt.Sprintf("missing parts %v", missing)})
				continue
			}
			if sh := zn.Show(got); sh != want {
				c.Fail(mc.Failure{Bucket: "tree:comment-break", Kind: "mismatch", Case: cs(), Expected: want, Observed: sh})
			}
		}
	}
	c.EvalN(n, n)
	c.Stat("parses_"+part, n)
}

// c03Layouts explores every layout of prog with <= bound deviations.
func c03Layouts(c *mc.Ctx, prog *zn.Program, bound int, part string) {
	want := zn.Show(prog)
	n := mc.Explore(bound, func(rec *mc.Recorder) {
		src := zn.Render(prog, rec)
		cs := func() json.RawMessage {
			return mc.J(c03Case{Part: part, Source: src, Want: want, Choices: rec.Choices(), Devs: c03Devs(rec.Log)})
		}
		c.Case(c03CurIdx, cs)
		tree, err, pan := c03Parse(src)
		if pan != "" {
			c.Fail(mc.Failure{Sig: c03Sig(rec.Log, ""), Kind: "panic", Case: cs(), Observed: pan})
			return
		}
		if err != nil {
			c.Fail(mc.Failure{Sig: c03Sig(rec.Log, "reject"), Bucket: "reject:" + c03DevKinds(rec.Log), Kind: "mismatch", Case: cs(), Expected: "tree " + want, Observed: "syntax error: " + err.Error()})
			return
		}
		got, missing := zn.Dump(tree)
		if len(missing) > 0 {
			c.Fail(mc.Failure{Sig: c03Sig(rec.Log, "incomplete"), Bucket: "incomplete:" + missing[0], Kind: "mismatch", Case: cs(), Expected: "complete tree", Observed: fmt.Sprintf("missing parts %v", missing)})
			return
		}
		if s := zn.Show(got); s != want {
			c.Fail(mc.Failure{Sig: c03Sig(rec.Log, "tree"), Bucket: "tree:" + c03DevKinds(rec.Log), Kind: "mismatch", Case: cs(), Expected: want, Observed: s})
		}
	}, nil)
	c.EvalN(n, n)
	c.Stat("parses_"+part, n)
}

func c03Sig(log []mc.Point, what string) string { return "" }

func c03DevKinds(log []mc.Point) string {
	var parts []string
	for _, p := range log {
		if p.Chosen != 0 {
			parts = append(parts, fmt.Sprintf("%s=%d", p.Kind, p.Chosen))
		}
	}
	return strings.Join(parts, ",")
}

// token-level corruptions of the default rendering: accepted => complete tree
func c03Corrupt(c *mc.Ctx, prog *zn.Program) {
	toks := zn.Tokens(prog, nil)
	try := func(ts []zn.Tok, how string) {
		src := zn.Layout(ts, zn.Default{})
		c.Stat("corruptions", 1)
		c.Eval(true)
		cs := func() json.RawMessage { return mc.J(c03Case{Part: "corrupt:" + how, Source: src}) }
		c.Case(c03CurIdx, cs)
		tree, err, pan := c03Parse(src)
		if pan != "" {
			c.Fail(mc.Failure{Kind: "panic", Case: cs(), Observed: pan})
			return
		}
		if err != nil {
			c.Stat("corruptions_rejected", 1)
			return
		}
		c.Stat("corruptions_accepted", 1)
		if _, missing := zn.Dump(tree); len(missing) > 0 {
			c.Fail(mc.Failure{Sig: c03IncompleteSig(missing), Bucket: how + ":" + missing[0], Kind: "mismatch", Case: cs(), Expected: "syntax error or a complete tree", Observed: fmt.Sprintf("accepted with missing parts %v", missing)})
		}
	}
	for i := range toks {
		// delete token i
		try(append(append([]zn.Tok{}, toks[:i]...), toks[i+1:]...), "delete")
		// duplicate token i
		d := append(append([]zn.Tok{}, toks[:i+1]...), toks[i:]...)
		try(d, "duplicate")
		// swap with neighbour
		if i+1 < len(toks) {
			s := append([]zn.Tok{}, toks...)
			s[i], s[i+1] = s[i+1], s[i]
			try(s, "swap")
		}
		// truncate after token i
		if i+1 < len(toks) {
			try(append([]zn.Tok{}, toks[:i+1]...), "truncate")
		}
	}
}

func c03IncompleteSig(missing []string) string { return "" }

func init() {
	mc.Register(&mc.Check{
		ID:    "C03",
		Level: "exploration",
		Rule:  "E1 x E3: ASTs = every statement list with <= k nodes (nesting <= 2) over 13 leaf statement forms and 14 compound forms (all 14 statement kinds), 90 program-section combinations (导入/输入/statements/拦截), every expression form over {name, number, text} and every such expression in every slot of every form, each placed in 8 statement slots, 512 nested branch chains (outer 如果/再如/否则 shape x inner shape x position x loop wrapper x trailing statements); layouts = every vector of renderer choice points (synonym spellings, ASCII/full-width punctuation, quote family, optional space or /* */ comment between tokens, optional ， before 且/或/得到, end-of-line comments, blank lines, LF/CRLF/CR/LFCR globally and per line, TAB/4-space, line break after ， 、 { 【, 令： block form, ； instead of a line break) with <= d deviations from the default layout (deviation-bounded DFS). Oracle: dump(parser tree) == generator tree. Plus every single-token delete/duplicate/swap/truncate of every default rendering: accepted => completeness walker finds no missing part. Every (AST, layout) pair is distinct; all are non-trivial.",
		Assumptions: []string{
			"the harness renderer's layout alternatives are exactly those the manual allows (listed in DESIGN.md C03); commas are only inserted where the manual exemplifies them",
			"EmptyStmt nodes (from ；) are not part of the compared tree",
			"layouts with more than d simultaneous deviations and ASTs above k nodes are not covered",
		},
		Budget: func(tier string) time.Duration {
			if tier == "thorough" {
				return 25 * time.Minute
			}
			return 240 * time.Second
		},
		Run:    c03Run,
		Replay: c03Replay,
	})
}

// c03LineForms: whole lines that stand for nothing - comments of every spelling (also empty
// ones) and lines that hold only white space.  indent: the line takes the indentation of the
// line it is put in front of.
var c03LineForms = []struct {
	text   string
	indent bool
}{
	{"注：", true}, {"注12：", true}, {"注：说明", true}, {"注：「说明」", true}, {"注：“”", true},
	{"// 说明", true}, {"//", true}, {"/* 说明 */", true}, {"/**/", true},
	{"", false}, {"    ", false}, {"        ", false}, // (a TAB-only line in a space-indented file is a mixed-indentation error: not a form)
}

// c03LineInserts: the default rendering of prog with one such line put in front of every line
// (and behind the last one) yields the same tree.
func c03LineInserts(c *mc.Ctx, prog *zn.Program, part string) {
	want := zn.Show(prog)
	base := zn.Render(prog, nil)
	if strings.Contains(base, "u\nv") {
		return // a text with a line break of its own: a line put inside it would be part of the text
	}
	lines := strings.Split(strings.TrimSuffix(base, "\n"), "\n")
	var n int64
	for b := 0; b <= len(lines); b++ {
		ind := ""
		if b < len(lines) {
			ind = lines[b][:len(lines[b])-len(strings.TrimLeft(lines[b], " "))]
		}
		for _, lf := range c03LineForms {
			ins := lf.text
			if lf.indent {
				ins = ind + ins
			}
			all := append(append(append([]string{}, lines[:b]...), ins), lines[b:]...)
			src := strings.Join(all, "\n") + "\n"
			cs := func() json.RawMessage {
				return mc.J(c03Case{Part: part, Source: src, Want: want, Devs: fmt.Sprintf("line %q put in front of line %d", ins, b+1)})
			}
			c.Case(c03CurIdx, cs)
			n++
			tree, err, pan := c03Parse(src)
			if pan != "" {
				c.Fail(mc.Failure{Kind: "panic", Case: cs(), Observed: pan})
				continue
			}
			if err != nil {
				c.Fail(mc.Failure{Bucket: "reject:inserted-line", Kind: "mismatch", Case: cs(), Expected: "tree " + want, Observed: "syntax error: " + err.Error()})
				continue
			}
			got, missing := zn.Dump(tree)
			if len(missing) > 0 {
				c.Fail(mc.Failure{Bucket: "incomplete:" + missing[0], Kind: "mismatch", Case: cs(), Expected: "complete tree", Observed: fmt.Sprintf("missing parts %v", missing)})
				continue
			}
			if sh := zn.Show(got); sh != want {
				c.Fail(mc.Failure{Bucket: "tree:inserted-line", Kind: "mismatch", Case: cs(), Expected: want, Observed: sh})
			}
		}
	}
	c.EvalN(n, n)
	c.Stat("parses_"+part, n)
}

func c03Run(c *mc.Ctx) {
	K, D2 := 3, 1
	if c.Tier == "thorough" {
		K, D2 = 4, 2
	}
	idx := int64(0)
	next := func(descr func() json.RawMessage) bool {
		idx++
		if !c.Mine(idx) {
			return false
		}
		c.Case(idx, descr)
		c03CurIdx = idx
		return !c.Expired()
	}
	// (a) program sections, deviation bound 1 (2 in thorough for the small ones)
	for _, p := range c03Sections() {
		pp := p
		if next(func() json.RawMessage { return mc.J(c03Case{Part: "sections", Source: zn.Render(pp, nil)}) }) {
			c03Layouts(c, p, 1, "sections")
			c03Corrupt(c, p)
		}
	}
	// (b) expressions in slots
	e1, e2 := c03Exprs()
	for _, e := range e1 {
		for _, p := range c03Slots(e) {
			pp := p
			if next(func() json.RawMessage { return mc.J(c03Case{Part: "expr1", Source: zn.Render(pp, nil)}) }) {
				c03Layouts(c, p, 1, "expr1")
				c03Corrupt(c, p)
			}
		}
	}
	for _, e := range e2 {
		for si, p := range c03Slots(e) {
			pp := p
			if next(func() json.RawMessage { return mc.J(c03Case{Part: "expr2", Source: zn.Render(pp, nil)}) }) {
				b := 0
				if si < 2 || c.Tier == "thorough" {
					b = 1
				}
				c03Layouts(c, p, b, "expr2")
			}
		}
	}
	c.Bound("expression_corpus", fmt.Sprintf("complete: %d level-1 and %d level-2 expressions x statement slots", len(e1), len(e2)))
	// (c) statement trees
	for m := 1; m <= K; m++ {
		bodies := c03Bodies(m, 2)
		for _, b := range bodies {
			p := &zn.Program{Body: b}
			if next(func() json.RawMessage { return mc.J(c03Case{Part: "stmts", Source: zn.Render(p, nil)}) }) {
				bound := 1
				if D2 == 2 && (m <= 2 || (m == 3 && idx%4 == 0)) {
					bound = 2 // thorough: two simultaneous deviations on all trees <= 2 nodes and a quarter of the 3-node trees
				}
				c03Layouts(c, p, bound, fmt.Sprintf("stmts%d", m))
				if m <= 3 {
					c03Corrupt(c, p)
				}
				if c.WantSample() && m == 3 && idx%977 == 0 {
					c.Sample(zn.Render(p, nil))
				}
			}
		}
		c.Bound(fmt.Sprintf("statement_trees_%d_nodes", m), fmt.Sprintf("complete: %d trees", len(bodies)))
		if c.Expired() {
			c.Note(fmt.Sprintf("deadline hit at statement trees of %d nodes", m))
			return
		}
	}
	// (e) nested branch chains: an inner 如果/再如/否则 chain as the last (or not last) statement of
	// every block of an outer chain — the dedented 再如/否则 must attach to the right statement
	for _, p := range c03NestedBranches() {
		pp := p
		if next(func() json.RawMessage { return mc.J(c03Case{Part: "nested-branches", Source: zn.Render(pp, nil)}) }) {
			c03Layouts(c, p, 1, "nested_branches")
		}
	}
	// (f) a comment line (every spelling, also empty) or a white-space-only line in front of every
	// line of every section program, every statement tree of <= 2 nodes and every nested chain
	{
		var progs []*zn.Program
		progs = append(progs, c03Sections()...)
		for m := 1; m <= 2; m++ {
			for _, b := range c03Bodies(m, 2) {
				progs = append(progs, &zn.Program{Body: b})
			}
		}
		progs = append(progs, c03NestedBranches()...)
		for _, p := range progs {
			pp := p
			if next(func() json.RawMessage { return mc.J(c03Case{Part: "inserted-lines", Source: zn.Render(pp, nil)}) }) {
				c03LineInserts(c, p, "inserted_lines")
			}
		}
		c.Bound("inserted_lines", fmt.Sprintf("complete: %d line forms x every line boundary of %d programs", len(c03LineForms), len(progs)))
	}
	// (g) wide operands: every form with the wide expression in each of its slots
	{
		gens := c03WideGens()
		widths := c03WideWidths(c.Tier)
		for _, g := range gens {
			for _, n := range widths {
				gg, nn := g, n
				if next(func() json.RawMessage {
					return mc.J(c03Case{Part: "wide-operands", Source: fmt.Sprintf("%s of width %d in every slot of every form", gg.name, nn)})
				}) {
					for _, p := range c03WidePrograms(g.mk(n)) {
						c03Layouts(c, p, 0, "wide_operands")
					}
				}
			}
		}
		c.Bound("wide_operands", fmt.Sprintf("complete: %d kinds of wide expression x %d widths (1..%d) x every slot of every expression form x 3 statement slots", len(gens), len(widths), widths[len(widths)-1]))
	}
	// (h) wide statements: constructs holding n parts of one kind
	{
		widths := c03WideWidths(c.Tier)
		cnt := 0
		for _, n := range widths {
			nn := n
			if next(func() json.RawMessage {
				return mc.J(c03Case{Part: "wide-statements", Source: fmt.Sprintf("statement constructs with %d parts", nn)})
			}) {
				for _, p := range c03WideStmtPrograms(n) {
					c03Layouts(c, p, 0, "wide_statements")
					cnt++
				}
			}
		}
		c.Bound("wide_statements", fmt.Sprintf("complete: 14 statement constructs with n parts for %d values of n (1..%d)", len(widths), widths[len(widths)-1]))
	}
	// (i) a text with a real line break, and a comment that spans a line break, inside blocks
	{
		mls := c03MultiLinePrograms()
		for _, p := range mls {
			pp := p
			if next(func() json.RawMessage {
				return mc.J(c03Case{Part: "multi-line-text-in-blocks", Source: zn.Render(pp, nil)})
			}) {
				c03Layouts(c, p, 1, "multi_line_text_in_blocks")
			}
		}
		var progs []*zn.Program
		progs = append(progs, c03Sections()...)
		for m := 1; m <= 2; m++ {
			for _, b := range c03Bodies(m, 2) {
				progs = append(progs, &zn.Program{Body: b})
			}
		}
		progs = append(progs, c03NestedBranches()...)
		for _, p := range progs {
			pp := p
			if next(func() json.RawMessage { return mc.J(c03Case{Part: "comment-breaks", Source: zn.Render(pp, nil)}) }) {
				c03CommentBreaks(c, p, "comment_breaks")
			}
		}
		c.Bound("multi_line_tokens_in_blocks", fmt.Sprintf("complete: %d programs with a multi-line text in a block (layout deviations <= 1); a two-line comment (3 closing-line forms) in front of every line of %d programs", len(mls), len(progs)))
	}
	// (d) deviation bound 2 on a fixed subset (quick: sections with one import)
	if c.Tier != "thorough" {
		for i, p := range c03Sections() {
			if i%9 != 4 {
				continue
			}
			pp := p
			if next(func() json.RawMessage { return mc.J(c03Case{Part: "sections-d2", Source: zn.Render(pp, nil)}) }) {
				c03Layouts(c, p, 2, "sections_d2")
			}
		}
	}
	c.Idle()
}

func c03Replay(c *mc.Ctx, raw json.RawMessage) {
	var cs c03Case
	if err := json.Unmarshal(raw, &cs); err != nil {
		c.Fail(mc.Failure{Kind: "crash", Observed: err.Error()})
		return
	}
	tree, err, pan := c03Parse(cs.Source)
	if pan != "" {
		c.Fail(mc.Failure{Kind: "panic", Case: raw, Observed: pan})
		return
	}
	if strings.HasPrefix(cs.Part, "corrupt") {
		if err == nil {
			if _, missing := zn.Dump(tree); len(missing) > 0 {
				c.Fail(mc.Failure{Kind: "mismatch", Case: raw, Observed: fmt.Sprintf("accepted with missing parts %v", missing)})
			}
		}
		return
	}
	if err != nil {
		c.Fail(mc.Failure{Kind: "mismatch", Case: raw, Expected: cs.Want, Observed: "syntax error: " + err.Error()})
		return
	}
	got, missing := zn.Dump(tree)
	if len(missing) > 0 || (cs.Want != "" && zn.Show(got) != cs.Want) {
		c.Fail(mc.Failure{Kind: "mismatch", Case: raw, Expected: cs.Want, Observed: fmt.Sprintf("%s missing=%v", zn.Show(got), missing)})
	}
}
