package checks

// C16 — executions are isolated from one another.
//
// Sequential (E2-style history search): sequences P1;…;Pn of polluter programs
// followed by the full probe vector Q, in one process, once through one shared
// Interpreter and once through fresh ones; invariant: the probe vector equals
// the one obtained in a FRESH PROCESS that ran no polluter (differential oracle).
// Concurrent (E3): 2-3 requests pushed through the real playground / HTTP
// handlers sharing one interpreter under a cooperative scheduler that yields at
// Execute, at every statement and at every 显示; every interleaving (bounded by
// deviations for 3 requests) must give each request the response it gets alone.

import (
	"bytes"
	"encoding/json"
	"fmt"
	"net/http/httptest"
	"os"
	"path/filepath"
	"regexp"
	"sort"
	"strings"
	"sync"
	"time"

	"github.com/DemoHn/Zn/pkg/common"
	"github.com/DemoHn/Zn/pkg/exec"
	r "github.com/DemoHn/Zn/pkg/runtime"
	"github.com/DemoHn/Zn/pkg/server"
	"github.com/DemoHn/Zn/pkg/value"

	"verif/engine/mc"
	"verif/engine/zn"
)

// ---- probes: one per predefined / global / library value
var c16Probes = []string{
	"输出数值",
	"输出以数值（加：1）",
	"抛出异常：“m”！\n拦截异常：\n    输出其内容",
	"输出（新建异常：“x”）之内容",
	"输出【真，假，空】",
	"（显示：1、“a”）\n输出1",
	"导入《@JSON》\n输出（生成JSON：【a=1】）",
	"导入《@JSON》\n输出（解析JSON：“{\\\"k\\\":[1]}”）",
	"输出（新建数值：3）",
	"如何甲法？\n    输出1 / 0\n输出（甲法）\n拦截异常：\n    输出“caught”",
	"令探 = 1\n输出探",
	"输出探",
	// imports of different libraries / in a different order than an earlier program, then a
	// method of the program's own that reads a top-level variable
	"导入《@JSON》\n令税 = 25\n如何算？\n    输出税 * 2\n输出【（算），（生成JSON：【a=1】）】",
	"导入《@文件》\n导入《@JSON》\n令税 = 26\n如何算？\n    输出税 * 2\n输出【（算），（生成JSON：【a=1】）】",
	"令税 = 27\n如何算？\n    输出税 * 2\n如何再算？\n    输出（算） + 税\n输出（再算）",
	"导入《@JSON》之生成JSON\n如何算？\n    输出（生成JSON：【b=2】）\n输出（算）",
	// a type that a library exports
	"导入《@HTTP》\n令应 = （新建HTTP响应：201、“ok”、【“X-A”=“1”】）\n输出【应之状态码，应之内容】",
}

// ---- polluters
func c16Polluters() []string {
	ps := []string{
		"如何新建异常？\n    输入M\n    （显示：“hijacked”）\n输出1",
		"如何新建异常？\n    输入M\n    抛出异常：“again”！\n输出1",
		"如何新建数值？\n    输入M\n    （显示：“hijacked”）\n输出1",
		// the predefined type reached through another name: an input of a method, a variable
		"如何乙？\n    输入甲\n    如何新建甲？\n        输入M\n        （显示：“hijacked”）\n    输出1\n输出（乙：异常）",
		"令甲 = 异常\n如何新建甲？\n    输入M\n    （显示：“hijacked”）\n输出1",
		"如何乙？\n    输入甲\n    如何新建甲？\n        输入M\n        （显示：“hijacked”）\n    输出1\n输出（乙：数值）",
		"以数值（自增：1）\n输出数值",
		"以数值（自减：2）\n输出数值",
		"令甲 = 数值\n以甲（自增：5）\n输出甲",
		"数值 = 5",
		"令数值 = 5",
		"定义异常：\n    其内容 = “x”\n输出1",
		"以“12”（转换数值）",
		"令探 = 99\n如何探法？\n    输出探\n输出（探法）",
		"导入《@JSON》\n导入《@文件》\n输出1",
		"导入《@JSON》\n输出1",
		"导入《@文件》\n输出1",
		"导入《@文件》\n导入《@JSON》\n如何甲法？\n    输出1\n输出（甲法）",
		"导入《@文件》之读取文件\n如何甲法？\n    输出1\n如何乙法？\n    输出2\n输出（乙法）",
		"导入《@JSON》\n生成JSON = 1",
		// the constructor of a type that a LIBRARY exports (as 异常 and 数值 above: not the program's to replace)
		"导入《@HTTP》\n如何新建HTTP响应？\n    输入甲、乙、丙\n    （显示：“hijacked”）\n输出1",
		"导入《@HTTP》之HTTP响应\n如何新建HTTP响应？\n    输入甲、乙、丙\n    其状态码 = 500\n输出（新建HTTP响应：200、“ok”、【】）之状态码",
		// input-variable texts that reach a predefined value
		c16VarText + "甲 = 以数值（自增：4）",
		c16VarText + "甲 = 数值；乙 = 以甲（自减：3）",
		c16VarText + "甲 = 以数值（自增：1）+ 1 / 0",
		"如何一？\n    输出1 / 0\n如何二？\n    输出（一）\n如何三？\n    输出（二）\n输出（三）",
		"如何一？\n    抛出异常：“x”！\n如何二？\n    输出（一）\n    拦截异常：\n        输出0\n输出（二）",
		"定义型：\n    其P = 1\n如何新建型？\n    抛出异常：“ctor”！\n输出（新建型）",
		"输出未有此名",
		"输出“{#.1” % 【1】",
		"如果",
	}
	// every method name of every built-in type applied to every global value
	// (most are "method not found"; the mutating ones are what matters)
	names := c16MethodNames()
	for _, g := range []string{"数值", "真", "空", "异常", "显示"} {
		for _, m := range names {
			ps = append(ps, fmt.Sprintf("以%s（%s：1）", g, m))
		}
	}
	return ps
}

var c16NameRe = regexp.MustCompile(`^\s*"([^"]+)":\s*[a-zA-Z]+Exec[A-Za-z]*,`)

func c16MethodNames() []string {
	seen := map[string]bool{}
	files, _ := filepath.Glob(c04RepoDir() + "/pkg/value/*.go")
	for _, f := range files {
		b, err := os.ReadFile(f)
		if err != nil {
			continue
		}
		for _, ln := range strings.Split(string(b), "\n") {
			if m := c16NameRe.FindStringSubmatch(ln); m != nil {
				seen[m[1]] = true
			}
		}
	}
	var out []string
	for k := range seen {
		out = append(out, k)
	}
	sort.Strings(out)
	if len(out) == 0 {
		out = []string{"自增", "自减", "加", "后增"}
	}
	return out
}

func c16Outcome(o zn.Outcome) string {
	if o.Panic != "" {
		return "PANIC " + o.Panic
	}
	if o.Err != nil {
		return fmt.Sprintf("ERR %s %d %s | %v", o.Err.Kind, o.Err.Code, o.Err.Msg, o.Trace)
	}
	return fmt.Sprintf("OK %s | %v", o.Val, o.Trace)
}

// run one program through a given interpreter (shared) or a fresh one
func c16Exec(in *exec.Interpreter, src string) string {
	if text, isVar := strings.CutPrefix(src, c16VarText); isVar {
		// an input-variable text (what a request hands over next to the program): evaluated on
		// its own path, outside any interpreter object
		return c16VarOutcome(text)
	}
	if in == nil {
		in = c16NewInterp()
	}
	return c16Outcome(zn.RunRealWith(in, src, nil))
}

// c16VarText marks a polluter that is an input-variable text, not a program.
const c16VarText = "输入变量文本："

func c16VarOutcome(text string) (out string) {
	defer func() {
		if p := recover(); p != nil {
			out = fmt.Sprint("PANIC ", p)
		}
	}()
	m, err := exec.ExecVarInputText(text)
	if err != nil {
		return "ERR " + err.Error()
	}
	var ks []string
	for k, v := range m {
		ks = append(ks, k+"="+zn.CanonElem(v))
	}
	sort.Strings(ks)
	return "OK " + strings.Join(ks, ",")
}

func c16ProbeVector(in *exec.Interpreter) []string {
	out := make([]string, len(c16Probes))
	for i, p := range c16Probes {
		out[i] = c16Exec(in, p)
	}
	return out
}

// ---- concurrent requests
type c16Req struct {
	Name    string            `json:"name"`
	Handler string            `json:"handler"` // playground | http
	Source  string            `json:"source"`
	VarIn   string            `json:"var_input,omitempty"`
	Dir     string            `json:"dir,omitempty"`   // http: the entry file lives in this sub-directory ...
	Files   map[string]string `json:"files,omitempty"` // ... next to these module files
}

func c16R(name, handler, source, varIn string) c16Req {
	return c16Req{Name: name, Handler: handler, Source: source, VarIn: varIn}
}

var c16Reqs = []c16Req{
	c16R("a-local", "playground", "令甲 = 1\n（显示：甲）\n令乙 = 甲 + 1\n输出乙", ""),
	c16R("b-local", "playground", "令甲 = 10\n（显示：甲）\n令乙 = 甲 + 10\n输出乙", ""),
	c16R("c-mutate-global", "playground", "以数值（自增：1）\n输出数值", ""),
	c16R("d-read-global", "playground", "令甲 = 数值\n输出甲", ""),
	c16R("e-hijack-ctor", "playground", "如何新建异常？\n    输入M\n    （显示：“hijacked”）\n输出1", ""),
	c16R("f-throw", "playground", "抛出异常：“m”！\n拦截异常：\n    输出其内容", ""),
	c16R("g-json", "playground", "导入《@JSON》\n令甲 = （生成JSON：【a=1】）\n输出甲", ""),
	c16R("h-error", "playground", "令甲 = 1\n输出甲 / 0", ""),
	c16R("i-varinput", "playground", "输入甲\n输出甲 * 2", "甲 = 21"),
	// input texts that reach a predefined value: in place in the text itself / in the program
	c16R("q-varinput-changes-global", "playground", "输入甲\n输出甲", "甲 = 以数值（自增：4）"),
	c16R("r-varinput-hands-global-over", "playground", "输入甲\n以甲（自增：2）\n输出甲", "甲 = 数值"),
	// the predefined random source (the value is random by design: it is not part of the answer)
	c16R("n-random", "playground", "令甲 = （取随机数）\n令乙 = （取随机数）\n输出甲 >= 0 且 乙 < 1", ""),
	c16R("j-file-1", "http", "令甲 = “file-one”\n输出甲", ""),
	c16R("k-file-2", "http", "令甲 = “file-two”\n输出甲", ""),
	// the request object of a bare request (no headers, no query): mutated in place / read
	c16R("l-req-mutate", "http", "输入当前请求\n以当前请求之查询参数（写入：“k”、“v”）\n以当前请求之头部（写入：“h”、“v”）\n输出【当前请求之查询参数之长度，当前请求之头部之长度】", ""),
	// two applications in two directories, each with its own module of the SAME name
	{Name: "o-dir1-module", Handler: "http", Source: "导入“工具”\n输出（值）", Dir: "甲站", Files: map[string]string{"工具.zn": "如何值？\n    输出100"}},
	{Name: "p-dir2-module", Handler: "http", Source: "导入“工具”\n输出（值） + （另值）", Dir: "乙站", Files: map[string]string{"工具.zn": "如何值？\n    输出250\n如何另值？\n    输出1"}},
	// a path that is not absolute means the same file to every execution, whatever else is being served
	{Name: "s-dir1-relative-read", Handler: "http", Source: "导入《@文件》\n令甲 = 1\n令乙 = 2\n输出（读取文件：“相对数据.txt”）", Dir: "甲站", Files: map[string]string{"相对数据.txt": "甲站数据"}},
	{Name: "t-dir2-relative-read", Handler: "http", Source: "导入《@文件》\n令甲 = 1\n输出（读取文件：“相对数据.txt”）", Dir: "乙站", Files: map[string]string{"相对数据.txt": "乙站数据"}},
	c16R("m-req-read", "http", "输入当前请求\n输出【当前请求之查询参数之长度，当前请求之头部之长度，当前请求之方法，当前请求之路径】", ""),
}

var c16Dir string

func c16TempDir() string {
	if c16Dir == "" {
		d, err := os.MkdirTemp("", "c16-")
		if err != nil {
			panic(err)
		}
		c16Dir = d
	}
	return c16Dir
}

// c16Serve pushes one request through the real handler sharing `in`.
// c16Writer: writing the status line and writing the body are scheduling points too - a handler
// may be overtaken by another request between the end of its execution and the rendering of what
// it answers (an error report is rendered after the status line has been written)
type c16Writer struct{ *httptest.ResponseRecorder }

func (w c16Writer) WriteHeader(code int) {
	if exec.VerifYield != nil {
		exec.VerifYield("write-header")
	}
	w.ResponseRecorder.WriteHeader(code)
}

func (w c16Writer) Write(b []byte) (int, error) {
	if exec.VerifYield != nil {
		exec.VerifYield("write-body")
	}
	return w.ResponseRecorder.Write(b)
}

func c16Serve(in *exec.Interpreter, rq c16Req) string {
	w := c16Writer{httptest.NewRecorder()}
	switch rq.Handler {
	case "playground":
		body, _ := json.Marshal(map[string]string{"SourceCode": rq.Source, "VarInput": rq.VarIn})
		req := httptest.NewRequest("POST", "http://h/run", bytes.NewReader(body))
		server.NewZnPlaygroundHandler(in).ServeHTTP(w, req)
	default:
		dir := c16TempDir()
		if rq.Dir != "" {
			dir = filepath.Join(dir, rq.Dir)
		}
		p := filepath.Join(dir, rq.Name+".zn")
		if _, err := os.Stat(p); err != nil {
			os.MkdirAll(dir, 0o755)
			for n, src := range rq.Files {
				os.WriteFile(filepath.Join(dir, n), []byte(src), 0o644)
			}
			os.WriteFile(p, []byte(rq.Source), 0o644)
		}
		req := httptest.NewRequest("GET", "http://h/x", nil)
		server.NewZnHttpHandler(in, p).ServeHTTP(w, req)
	}
	return fmt.Sprintf("%d %s", w.Code, w.Body.String())
}

// c16Libs: the JSON and file libraries plus one that exports a TYPE (stdlib/http registers HTTP响应
// like this in the product; it does not compile at this commit): the type object is one per process
func c16Libs() []*r.Library {
	return append(zn.Libs(), r.NewLibrary("@HTTP").RegisterClass("HTTP响应", common.CLASS_HttpResponse))
}

func c16NewInterp() *exec.Interpreter {
	return exec.NewInterpreter("verif").SetExternalLibs(c16Libs())
}

type c16Case struct {
	Part      string   `json:"part"`
	Polluters []string `json:"polluters,omitempty"`
	Repeat    int      `json:"each_polluter_repeated,omitempty"` // > 1: every polluter is run this many times in a row
	Shared    bool     `json:"shared_interpreter,omitempty"`
	Requests  []string `json:"requests,omitempty"`
	Choices   []int    `json:"schedule,omitempty"`
}

// baselines are computed in fresh processes that ran nothing else
var c16BaseProbes []string
var c16BaseReqs map[string]string

func c16Baselines() error {
	if c16BaseProbes != nil {
		return nil
	}
	// every probe alone in its own fresh process: a probe's answer must not depend on what
	// ran before it, the other probes included (a baseline taken from one process running the
	// whole vector would hide pollution among the probes themselves)
	for i := range c16Probes {
		out, err := mc.RunAux("C16", fmt.Sprintf("probe:%d", i))
		if err != nil {
			c16BaseProbes = nil
			return err
		}
		c16BaseProbes = append(c16BaseProbes, out)
	}
	c16BaseReqs = map[string]string{}
	for _, rq := range c16Reqs {
		out, err := mc.RunAux("C16", "req:"+rq.Name)
		if err != nil {
			return err
		}
		c16BaseReqs[rq.Name] = out
	}
	return nil
}

func c16ReqByName(n string) c16Req {
	for _, rq := range c16Reqs {
		if rq.Name == n {
			return rq
		}
	}
	return c16Req{}
}

// canary: after EVERY case the process must still answer a few read-only requests as a
// fresh process does; a deviation is attributed to the case that just ran (so that its
// replay — the case followed by the canary in a fresh process — reproduces it).
var c16CanaryNames = []string{"m-req-read", "d-read-global", "f-throw", "g-json"}
var c16CanaryExpected []string

func c16Canary() []string {
	out := make([]string, len(c16CanaryNames))
	for i, n := range c16CanaryNames {
		out[i] = c16Serve(c16NewInterp(), c16ReqByName(n))
	}
	return out
}

// c16CheckCanary returns a failure if the canary deviates from what is expected.
func c16CheckCanary(cs c16Case) *mc.Failure {
	if c16CanaryExpected == nil {
		for _, n := range c16CanaryNames {
			c16CanaryExpected = append(c16CanaryExpected, c16BaseReqs[n])
		}
	}
	got := c16Canary()
	for i := range got {
		if got[i] != c16CanaryExpected[i] {
			f := &mc.Failure{Kind: "mismatch", Bucket: "left-behind-state:" + c16CanaryNames[i], Case: mc.J(cs),
				Expected: fmt.Sprintf("after the case, request %s is still answered %q (as in a fresh process)", c16CanaryNames[i], c16CanaryExpected[i]), Observed: fmt.Sprintf("%q", got[i])}
			c16CanaryExpected = got // re-baseline: only NEW deviations are reported from here on
			for _, rq := range c16Reqs {
				c16BaseReqs[rq.Name] = c16Serve(c16NewInterp(), rq)
			}
			return f
		}
	}
	return nil
}

// sequential case: run the polluters, then the probe vector
func c16CheckSeq(pol []string, shared bool, expected []string) (fail *mc.Failure, observed []string) {
	return c16CheckSeqRep(pol, 1, shared, expected)
}

func c16CheckSeqRep(pol []string, rep int, shared bool, expected []string) (fail *mc.Failure, observed []string) {
	var in *exec.Interpreter
	if shared {
		in = c16NewInterp()
	}
	for _, p := range pol {
		for i := 0; i < rep; i++ {
			c16Exec(in, p)
		}
	}
	observed = c16ProbeVector(in)
	for i := range observed {
		if observed[i] != expected[i] {
			sig := ""
			return &mc.Failure{Sig: sig, Kind: "mismatch", Bucket: fmt.Sprintf("seq-probe-%d", i), Case: mc.J(c16Case{Part: "sequential", Polluters: pol, Repeat: rep, Shared: shared}),
				Expected: fmt.Sprintf("probe %q -> %s (as in a fresh process)", c16Probes[i], expected[i]), Observed: observed[i]}, observed
		}
	}
	return nil, observed
}

// concurrent case under one schedule
func c16RunConc(reqs []c16Req, rec *mc.Recorder) []string {
	in := c16NewInterp()
	out := make([]string, len(reqs))
	var s *mc.Sched
	bodies := make([]func(int), len(reqs))
	for i := range reqs {
		rq := reqs[i]
		bodies[i] = func(id int) { out[id] = c16Serve(in, rq) }
	}
	// 显示 is a scheduling point as well
	oldShow := exec.GlobalValues["显示"]
	exec.GlobalValues["显示"] = value.NewFunction(func(recv r.Element, params []r.Element) (r.Element, error) {
		if exec.VerifYield != nil {
			exec.VerifYield("display")
		}
		return value.NewNull(), nil
	})
	defer func() { exec.GlobalValues["显示"] = oldShow }()
	s = mc.RunSched(rec, bodies, func(y func()) {
		if y == nil {
			exec.VerifYield = nil
		} else {
			exec.VerifYield = func(string) { y() }
		}
	})
	_ = s
	return out
}

func c16CheckConc(c *mc.Ctx, names []string, bound int) {
	var reqs []c16Req
	for _, n := range names {
		reqs = append(reqs, c16ReqByName(n))
	}
	outcomes := map[string]bool{}
	n := mc.Explore(bound, func(rec *mc.Recorder) {
		got := c16RunConc(reqs, rec)
		c.Stat("transitions", int64(len(rec.Log)))
		outcomes[strings.Join(got, "||")] = true
		for i, g := range got {
			if want := c16BaseReqs[names[i]]; g != want {
				c.Fail(mc.Failure{Kind: "mismatch", Bucket: "conc-" + names[i] + "-with-" + strings.Join(names, "+"), Case: mc.J(c16Case{Part: "concurrent", Requests: names, Choices: rec.Choices()}),
					Expected: fmt.Sprintf("request %s -> %q (its response alone)", names[i], want), Observed: fmt.Sprintf("%q", g)})
				break
			}
		}
		if f := c16CheckCanary(c16Case{Part: "concurrent", Requests: names, Choices: rec.Choices()}); f != nil {
			c.Fail(*f)
		}
	}, c.Expired)
	c.EvalN(n, n)
	c.Stat("states", n)
	c.Stat("traces_validated_against_impl", n)
	c.StatMax("max_distinct_joint_outcomes", int64(len(outcomes)))
	if c.WantSample() {
		c.Sample(map[string]any{"part": "concurrent", "requests": names, "schedules_explored": n, "deviation_bound": bound})
	}
}

func init() {
	mc.Register(&mc.Check{
		ID:    "C16",
		Level: "model_checking",
		Rule: "Sequential: every sequence P1..Pn (n <= 2 quick, <= 3 over a core subset thorough) of polluter programs — constructor redefinition of predefined types, every method name of every built-in type applied to every predefined value (extracted from the current source), mutation through aliases, assignments / redeclarations of predefined names, library imports and writes, errors at call depth 1-3, handled exceptions, failing constructors, syntax errors, name declarations — run in one process through one shared Interpreter and through fresh ones, followed by the probe vector (12 probes over every predefined / global / library value); invariant: vector == vector computed in a fresh process that ran no polluter; every ordered pair of the 13 requests served one after the other through the real handlers (second response == its response alone); after EVERY case (sequential or concurrent schedule) a canary of four read-only requests must still be answered as in a fresh process. " +
			"Concurrent (E3): every ordered pair (and triples of a core subset) of 13 requests (incl. two that mutate / read the request object of a bare HTTP request) pushed through the real ZnPlaygroundHandler / ZnHttpHandler sharing one interpreter, under a cooperative scheduler yielding at Execute entry, before every statement and at every 显示; all interleavings of a pair are explored (deviation bound 12), triples with deviation bound 2; invariant: each response == the response of that request alone in a fresh process. A state = one complete schedule.",
		Assumptions: []string{
			"interleavings are at statement granularity; finer-grained data races (e.g. inside the parser) are the subject of the auxiliary free-running -race pass that the check script runs after the exploration (8 goroutines x 200 requests on one shared interpreter); it observes one schedule per run and is not the deciding step, but a reported race is a violation of the property's last sentence",
			"the baseline vectors come from fresh processes of the same binary",
		},
		Budget: func(tier string) time.Duration {
			if tier == "thorough" {
				return 20 * time.Minute
			}
			return 100 * time.Second
		},
		Aux: func(arg string) string {
			if arg == "probes" {
				b, _ := json.Marshal(c16ProbeVector(nil))
				return string(b)
			}
			if strings.HasPrefix(arg, "probe:") {
				// ONE probe, alone, in this fresh process
				var i int
				fmt.Sscanf(strings.TrimPrefix(arg, "probe:"), "%d", &i)
				if i >= 0 && i < len(c16Probes) {
					return c16Exec(nil, c16Probes[i])
				}
				return ""
			}
			if strings.HasPrefix(arg, "req:") {
				defer func() {
					if c16Dir != "" {
						os.RemoveAll(c16Dir)
					}
				}()
				return c16Serve(c16NewInterp(), c16ReqByName(strings.TrimPrefix(arg, "req:")))
			}
			if arg == "race" {
				return c16Race()
			}
			return ""
		},
		Run: func(c *mc.Ctx) {
			defer func() {
				if c16Dir != "" {
					os.RemoveAll(c16Dir)
				}
			}()
			if err := c16Baselines(); err != nil {
				c.Fail(mc.Failure{Kind: "crash", Observed: "cannot compute baselines in a fresh process: " + err.Error()})
				return
			}
			// ---- sequential
			pol := c16Polluters()
			expected := append([]string{}, c16BaseProbes...)
			idx := int64(0)
			seq := func(ps []string, shared bool) {
				idx++
				if !c.Mine(idx) {
					return
				}
				c.Case(idx, func() json.RawMessage { return mc.J(c16Case{Part: "sequential", Polluters: ps, Shared: shared}) })
				f, obs := c16CheckSeq(ps, shared, expected)
				if c.WantSample() && len(ps) == 2 {
					c.Sample(map[string]any{"part": "sequential", "polluters": ps, "shared_interpreter": shared, "probe_vector": obs})
				}
				c.Eval(true)
				c.Stat("sequential_histories", 1)
				c.Stat("states", 1)
				c.Stat("transitions", int64(len(ps)+len(c16Probes)))
				c.Stat("traces_validated_against_impl", 1)
				if f != nil {
					c.Fail(*f)
					expected = obs // the process is polluted now: only report NEW deviations
					c.Stat("rebaselined_after_failure", 1)
				}
				if f := c16CheckCanary(c16Case{Part: "sequential", Polluters: ps, Shared: shared}); f != nil {
					c.Fail(*f)
				}
			}
			// sequential request pairs through the real handlers: r1 ; r2, r2 must answer as alone
			for _, a := range c16Reqs {
				for _, b := range c16Reqs {
					idx++
					if !c.Mine(idx) {
						continue
					}
					names := []string{a.Name, b.Name}
					c.Case(idx, func() json.RawMessage { return mc.J(c16Case{Part: "request-sequence", Requests: names}) })
					in := c16NewInterp()
					c16Serve(in, a)
					got := c16Serve(in, b)
					c.Eval(true)
					c.Stat("sequential_request_pairs", 1)
					if want := c16BaseReqs[b.Name]; got != want {
						c.Fail(mc.Failure{Kind: "mismatch", Bucket: "seq-req-" + b.Name + "-after-" + a.Name, Case: mc.J(c16Case{Part: "request-sequence", Requests: names}),
							Expected: fmt.Sprintf("%q (its response alone)", want), Observed: fmt.Sprintf("%q", got)})
					}
					if f := c16CheckCanary(c16Case{Part: "request-sequence", Requests: names}); f != nil {
						c.Fail(*f)
					}
				}
			}
			for _, sh := range []bool{true, false} {
				seq(nil, sh)
				for _, p := range pol {
					seq([]string{p}, sh)
				}
			}
			// repetition: every hand-written polluter 300 times in a row (a resource that leaks a
			// little on one path only shows after many executions), then the probes
			var hand []string
			for _, p := range pol {
				if !(strings.HasPrefix(p, "以") && strings.HasSuffix(p, "：1）") && !strings.Contains(p, "\n")) {
					hand = append(hand, p) // not one of the generated 以‹global›（‹method›：1）
				}
			}
			for _, sh := range []bool{true, false} {
				for _, p := range hand {
					idx++
					if !c.Mine(idx) {
						continue
					}
					pp, ssh := p, sh
					c.Case(idx, func() json.RawMessage {
						return mc.J(c16Case{Part: "sequential", Polluters: []string{pp}, Repeat: 300, Shared: ssh})
					})
					f, obs := c16CheckSeqRep([]string{p}, 300, sh, expected)
					c.Eval(true)
					c.Stat("repeated_polluter_histories", 1)
					c.Stat("transitions", int64(300+len(c16Probes)))
					if f != nil {
						c.Fail(*f)
						expected = obs
						c.Stat("rebaselined_after_failure", 1)
					}
					if f := c16CheckCanary(c16Case{Part: "sequential", Polluters: []string{p}, Repeat: 300, Shared: sh}); f != nil {
						c.Fail(*f)
					}
				}
			}
			core := pol
			if len(core) > 19 {
				core = pol[:19]
			}
			for _, sh := range []bool{true, false} {
				for _, p := range core {
					for _, q := range core {
						seq([]string{p, q}, sh)
					}
				}
			}
			if c.Tier == "thorough" {
				for _, p := range core[:8] {
					for _, q := range core[:8] {
						for _, t := range core[:8] {
							seq([]string{p, q, t}, true)
						}
					}
				}
			}
			c.Bound("sequential", fmt.Sprintf("%d polluters; all singles and all ordered pairs of the %d core polluters, shared and fresh interpreters", len(pol), len(core)))
			// ---- concurrent
			for i, a := range c16Reqs {
				for j, b := range c16Reqs {
					if i == j {
						continue
					}
					idx++
					if !c.Mine(idx) {
						continue
					}
					if c.Expired() {
						c.Note("deadline hit in concurrent pairs")
						return
					}
					names := []string{a.Name, b.Name}
					c.Case(idx, func() json.RawMessage { return mc.J(c16Case{Part: "concurrent", Requests: names}) })
					// (the first case of a worker also computes the answers of every request served
					// alone, each in a fresh process: seconds on an idle machine, more on a busy one)
					c.AllowSlow(150)
					c16CheckConc(c, names, 12)
				}
			}
			c.Bound("concurrent_pairs", "complete: every ordered pair, every interleaving")
			tri := []string{"a-local", "c-mutate-global", "d-read-global", "e-hijack-ctor", "f-throw", "j-file-1", "k-file-2"}
			for _, a := range tri {
				for _, b := range tri {
					for _, d := range tri {
						if a == b || b == d || a == d {
							continue
						}
						idx++
						if !c.Mine(idx) {
							continue
						}
						if c.Expired() {
							c.Note("deadline hit in concurrent triples")
							return
						}
						names := []string{a, b, d}
						c.Case(idx, func() json.RawMessage { return mc.J(c16Case{Part: "concurrent", Requests: names}) })
						bd := 2
						if c.Tier == "thorough" {
							bd = 3
						}
						c16CheckConc(c, names, bd)
					}
				}
			}
			c.Bound("concurrent_triples", "complete over the core subset below the deviation bound")
		},
		Replay: func(c *mc.Ctx, raw json.RawMessage) {
			var cs c16Case
			if err := json.Unmarshal(raw, &cs); err != nil {
				c.Fail(mc.Failure{Kind: "crash", Observed: err.Error()})
				return
			}
			defer func() {
				if c16Dir != "" {
					os.RemoveAll(c16Dir)
				}
			}()
			if err := c16Baselines(); err != nil {
				c.Fail(mc.Failure{Kind: "crash", Observed: err.Error()})
				return
			}
			defer func() {
				if f := c16CheckCanary(cs); f != nil {
					c.Fail(*f)
				}
			}()
			if cs.Part == "sequential" {
				rep := cs.Repeat
				if rep < 1 {
					rep = 1
				}
				if f, _ := c16CheckSeqRep(cs.Polluters, rep, cs.Shared, c16BaseProbes); f != nil {
					c.Fail(*f)
				}
				return
			}
			if cs.Part == "request-sequence" {
				in := c16NewInterp()
				c16Serve(in, c16ReqByName(cs.Requests[0]))
				got := c16Serve(in, c16ReqByName(cs.Requests[1]))
				if want := c16BaseReqs[cs.Requests[1]]; got != want {
					c.Fail(mc.Failure{Kind: "mismatch", Case: raw, Expected: want, Observed: got})
				}
				return
			}
			var reqs []c16Req
			for _, n := range cs.Requests {
				reqs = append(reqs, c16ReqByName(n))
			}
			got := c16RunConc(reqs, &mc.Recorder{Prefix: cs.Choices})
			got2 := c16RunConc(reqs, &mc.Recorder{Prefix: cs.Choices})
			if strings.Join(got, "|") != strings.Join(got2, "|") {
				c.Fail(mc.Failure{Kind: "crash", Observed: "the same schedule replayed twice gave different observations"})
				return
			}
			for i, g := range got {
				if want := c16BaseReqs[cs.Requests[i]]; g != want {
					c.Fail(mc.Failure{Kind: "mismatch", Case: raw, Expected: want, Observed: g})
				}
			}
		},
	})
}

// c16Race is the body of the auxiliary free-running pass (built with -race by
// the check script in the thorough tier): 8 goroutines x 200 requests.
func c16Race() string {
	in := c16NewInterp()
	// everything the harness itself shares is set up before the goroutines start
	// (one sequential pass creates the files and gives every request's answer when served alone)
	alone := map[string]string{}
	for _, rq := range c16Reqs {
		alone[rq.Name] = c16Serve(c16NewInterp(), rq)
	}
	defer os.RemoveAll(c16TempDir())
	var mm sync.Mutex
	mismatches := map[string]string{}
	serve := func(rq c16Req) {
		if got := c16Serve(in, rq); got != alone[rq.Name] && rq.Name != "n-random" {
			mm.Lock()
			if _, seen := mismatches[rq.Name]; !seen {
				mismatches[rq.Name] = fmt.Sprintf("CONCURRENT-MISMATCH request %s answered %q while other requests were being served; alone it is answered %q", rq.Name, clipS(got, 200), clipS(alone[rq.Name], 200))
			}
			mm.Unlock()
		}
	}
	done := make(chan bool)
	for g := 0; g < 8; g++ {
		go func(g int) {
			for i := 0; i < 200; i++ {
				rq := c16Reqs[(g+i)%len(c16Reqs)]
				serve(rq)
			}
			done <- true
		}(g)
	}
	for g := 0; g < 8; g++ {
		<-done
	}
	// second phase: every request kind on its own, served by all goroutines at once, so that
	// two executions of the SAME code path overlap for certain (a shared unsynchronised
	// helper used by one kind of request only)
	for _, rq := range c16Reqs {
		rq := rq
		for g := 0; g < 8; g++ {
			go func() {
				for i := 0; i < 40; i++ {
					serve(rq)
				}
				done <- true
			}()
		}
		for g := 0; g < 8; g++ {
			<-done
		}
	}
	out := "race pass finished"
	for _, m := range mismatches {
		out += "\n" + m
	}
	return out
}
