package checks

// C08 — method calls and objects bind arguments, receivers and results correctly.
// E1: every program of <= m statements over a statement alphabet whose
// expressions are all call / object expressions up to a depth bound (methods of
// arity 0-2 with traced arguments, arity mismatches, recursion, 得到, chained
// 以…（…）、（…） calls, two instances of a type with scalar and list defaults
// and a constructor, 其 reads/writes, methods calling methods of another object
// and then reading 其, unknown methods / properties / functions).
// Oracle: reference interpreter (result, ordered trace, error-ness).

import (
	"encoding/json"
	"fmt"
	"strings"
	"time"

	"verif/engine/mc"
	"verif/engine/zn"
)

func c08Prelude() []zn.Stmt {
	v := func(n string) zn.Expr { return zn.Var{Name: n} }
	num := func(n int) zn.Expr { return zn.Num{Lit: fmt.Sprint(n)} }
	show := func(args ...zn.Expr) zn.Stmt { return zn.ExprStmt{E: zn.Call{Name: "显示", Args: args}} }
	str := func(s string) zn.Expr { return zn.Str{Val: s} }
	ret := func(e zn.Expr) zn.Stmt { return zn.Return{Val: e} }
	bin := func(op string, l, r zn.Expr) zn.Expr { return zn.Bin{Op: op, L: l, R: r} }
	this := func(n string) zn.Expr { return zn.This{Name: n} }
	return []zn.Stmt{
		zn.Func{Name: "记", Params: []string{"K", "V"}, Body: []zn.Stmt{show(v("K")), ret(v("V"))}},
		zn.Func{Name: "零", Body: []zn.Stmt{show(str("零")), ret(num(10))}},
		zn.Func{Name: "一", Params: []string{"X"}, Body: []zn.Stmt{show(str("一"), v("X")), ret(bin("+", v("X"), num(1)))}},
		zn.Func{Name: "二", Params: []string{"X", "Y"}, Body: []zn.Stmt{show(str("二"), v("X"), v("Y")), ret(bin("+", bin("*", v("X"), num(10)), v("Y")))}},
		zn.Func{Name: "递", Params: []string{"N"}, Body: []zn.Stmt{
			zn.If{Cond: bin("<=", v("N"), num(0)), Then: []zn.Stmt{ret(num(0))}},
			ret(bin("+", v("N"), zn.Call{Name: "递", Args: []zn.Expr{bin("-", v("N"), num(1))}}))}},
		zn.Class{Name: "型",
			Props: []zn.Prop{{Name: "数", Val: num(1)}, {Name: "表", Val: zn.List{Items: []zn.Expr{num(1)}}}},
			Methods: []zn.Func{
				{Name: "取", Body: []zn.Stmt{ret(this("数"))}},
				{Name: "加", Params: []string{"V"}, Body: []zn.Stmt{zn.ExprStmt{E: zn.Assign{Target: this("数"), Val: bin("+", this("数"), v("V"))}}, ret(this("数"))}},
				{Name: "推", Params: []string{"V"}, Body: []zn.Stmt{zn.ExprStmt{E: zn.MCall{Root: this("表"), Chain: []zn.Call{{Name: "后增", Args: []zn.Expr{v("V")}}}}}, ret(zn.Member{Root: this("表"), Name: "长度"})}},
				{Name: "访", Params: []string{"别"}, Body: []zn.Stmt{zn.ExprStmt{E: zn.MCall{Root: v("别"), Chain: []zn.Call{{Name: "加", Args: []zn.Expr{num(100)}}}}}, ret(this("数"))}},
				{Name: "坏", Body: []zn.Stmt{zn.Throw{Class: "异常", Args: []zn.Expr{str("坏")}}}},
				{Name: "试", Params: []string{"别"}, Body: []zn.Stmt{zn.ExprStmt{E: zn.MCall{Root: v("别"), Chain: []zn.Call{{Name: "坏"}}}}, ret(num(-1))},
					Catches: []zn.Catch{{Class: "异常", Body: []zn.Stmt{ret(this("数"))}}}},
				{Name: "自", Body: []zn.Stmt{ret(zn.MCall{Root: this("自身"), Chain: []zn.Call{{Name: "取"}}})}},
			}},
		zn.Func{Name: "型", Ctor: true, Params: []string{"初"}, Body: []zn.Stmt{zn.ExprStmt{E: zn.Assign{Target: this("数"), Val: v("初")}}, show(str("建"), v("初"))}},
		// a type whose default number is never re-assigned: only changed in place (自增)
		zn.Class{Name: "点", Props: []zn.Prop{{Name: "X", Val: num(0)}},
			Methods: []zn.Func{
				{Name: "升", Body: []zn.Stmt{zn.ExprStmt{E: zn.MCall{Root: this("X"), Chain: []zn.Call{{Name: "自增", Args: []zn.Expr{num(1)}}}}}, ret(this("X"))}},
			}},
		// recursion that re-enters ONE call expression with two or more arguments while
		// its later arguments are still being evaluated
		zn.Func{Name: "合", Params: []string{"X", "Y"}, Body: []zn.Stmt{ret(bin("+", v("X"), v("Y")))}},
		zn.Func{Name: "斐", Params: []string{"N"}, Body: []zn.Stmt{
			zn.If{Cond: bin("<", v("N"), num(2)), Then: []zn.Stmt{ret(v("N"))}},
			ret(zn.Call{Name: "合", Args: []zn.Expr{zn.Call{Name: "斐", Args: []zn.Expr{bin("-", v("N"), num(1))}}, zn.Call{Name: "斐", Args: []zn.Expr{bin("-", v("N"), num(2))}}}})}},
		zn.Func{Name: "阿", Params: []string{"M", "N"}, Body: []zn.Stmt{
			zn.If{Cond: bin("==", v("M"), num(0)), Then: []zn.Stmt{ret(bin("+", v("N"), num(1)))}},
			zn.If{Cond: bin("==", v("N"), num(0)), Then: []zn.Stmt{ret(zn.Call{Name: "阿", Args: []zn.Expr{bin("-", v("M"), num(1)), num(1)}})}},
			ret(zn.Call{Name: "阿", Args: []zn.Expr{bin("-", v("M"), num(1)), zn.Call{Name: "阿", Args: []zn.Expr{v("M"), bin("-", v("N"), num(1))}}}})}},
		// tree recursion whose two results are bound with 得到 under the same two names in every call
		zn.Func{Name: "斐得", Params: []string{"N"}, Body: []zn.Stmt{
			zn.If{Cond: bin("<", v("N"), num(2)), Then: []zn.Stmt{ret(v("N"))}},
			zn.ExprStmt{E: zn.Call{Name: "斐得", Args: []zn.Expr{bin("-", v("N"), num(1))}, Yield: "左"}},
			zn.ExprStmt{E: zn.Call{Name: "斐得", Args: []zn.Expr{bin("-", v("N"), num(2))}, Yield: "右"}},
			ret(bin("+", v("左"), v("右")))}},
		zn.Func{Name: "探", Params: []string{"深"}, Body: []zn.Stmt{
			zn.If{Cond: bin("<=", v("深"), num(0)), Then: []zn.Stmt{ret(num(0))}},
			ret(bin("+", zn.Call{Name: "记", Args: []zn.Expr{v("深"), zn.Call{Name: "探", Args: []zn.Expr{bin("-", v("深"), num(1))}}}}, v("深")))}},
		zn.Decl{Pairs: []zn.DeclPair{{Names: []string{"O"}, Val: zn.New{Class: "型", Args: []zn.Expr{num(5)}}}}},
		zn.Decl{Pairs: []zn.DeclPair{{Names: []string{"P"}, Val: zn.New{Class: "型", Args: []zn.Expr{num(7)}}}}},
		// a method that calls whatever method it is given; a second one-argument method to give it
		zn.Func{Name: "应用", Params: []string{"回调", "值"}, Body: []zn.Stmt{ret(zn.Call{Name: "回调", Args: []zn.Expr{v("值")}})}},
		zn.Func{Name: "倍", Params: []string{"X"}, Body: []zn.Stmt{show(str("倍"), v("X")), ret(bin("*", v("X"), num(2)))}},
		// a top-level variable named like the input of a method whose nested call fails on its
		// argument count and is handled inside that method
		zn.Decl{Pairs: []zn.DeclPair{{Names: []string{"参"}, Val: num(77)}}},
		zn.Func{Name: "试错", Params: []string{"参"}, Body: []zn.Stmt{zn.ExprStmt{E: zn.Call{Name: "二", Args: []zn.Expr{v("参")}}}, ret(num(-2))},
			Catches: []zn.Catch{{Class: "异常", Body: []zn.Stmt{ret(bin("+", v("参"), num(500)))}}}},
		zn.Decl{Pairs: []zn.DeclPair{{Names: []string{"Q1"}, Val: zn.New{Class: "点"}}}},
		zn.Decl{Pairs: []zn.DeclPair{{Names: []string{"Q2"}, Val: zn.New{Class: "点"}}}},
		// 输出 of the value 空 ends the method like any other 输出
		zn.Func{Name: "早返", Params: []string{"X"}, Body: []zn.Stmt{
			zn.If{Cond: bin("<=", v("X"), num(1)), Then: []zn.Stmt{ret(v("空"))}},
			show(str("过"), v("X")), ret(v("X"))}},
		// a type with a constructor, written before a type whose default property value creates
		// an object of it with arguments: the constructor is attached by then
		// an object that its own constructor hands to another holder is THE object 新建 yields
		zn.Decl{Pairs: []zn.DeclPair{{Names: []string{"最近"}, Val: v("空")}}},
		zn.Class{Name: "录", Props: []zn.Prop{{Name: "名", Val: num(0)}}},
		zn.Func{Name: "录", Ctor: true, Params: []string{"甲"}, Body: []zn.Stmt{
			zn.ExprStmt{E: zn.Assign{Target: this("名"), Val: v("甲")}}, zn.ExprStmt{E: zn.Assign{Target: v("最近"), Val: this("自身")}}}},
		zn.Func{Name: "试记", Params: []string{"甲"}, Body: []zn.Stmt{
			zn.Decl{Pairs: []zn.DeclPair{{Names: []string{"物"}, Val: zn.New{Class: "录", Args: []zn.Expr{v("甲")}}}}},
			zn.ExprStmt{E: zn.Assign{Target: zn.Member{Root: v("物"), Name: "名"}, Val: bin("+", v("甲"), num(100))}},
			ret(zn.Member{Root: v("最近"), Name: "名"})}},
		zn.Class{Name: "角", Props: []zn.Prop{{Name: "横", Val: num(0)}, {Name: "纵", Val: num(0)}}},
		zn.Func{Name: "角", Ctor: true, Params: []string{"甲", "乙"}, Body: []zn.Stmt{
			zn.ExprStmt{E: zn.Assign{Target: this("横"), Val: v("甲")}}, zn.ExprStmt{E: zn.Assign{Target: this("纵"), Val: v("乙")}}}},
		zn.Class{Name: "框", Props: []zn.Prop{{Name: "角", Val: zn.New{Class: "角", Args: []zn.Expr{num(3), num(4)}}}}},
	}
}

// expression builder with a running tracer index
type c08Gen struct{ next int }

func (g *c08Gen) leaf(which int) zn.Expr {
	g.next++
	return zn.Call{Name: "记", Args: []zn.Expr{zn.Num{Lit: fmt.Sprint(g.next)}, zn.Num{Lit: fmt.Sprint(which + 1)}}}
}

const c08Leaves = 2

// forms of depth d built from sub-expressions chosen by index; n1 = number of
// expressions of depth d-1 available for each argument slot.
type c08Form struct {
	name  string
	slots int
	mk    func(a []zn.Expr) zn.Expr
}

func c08Forms() []c08Form {
	O, P := zn.Var{Name: "O"}, zn.Var{Name: "P"}
	call := func(n string, a ...zn.Expr) zn.Expr { return zn.Call{Name: n, Args: a} }
	mc1 := func(r zn.Expr, m string, a ...zn.Expr) zn.Expr {
		return zn.MCall{Root: r, Chain: []zn.Call{{Name: m, Args: a}}}
	}
	return []c08Form{
		{"零", 0, func(a []zn.Expr) zn.Expr { return call("零") }},
		{"一", 1, func(a []zn.Expr) zn.Expr { return call("一", a[0]) }},
		{"二", 2, func(a []zn.Expr) zn.Expr { return call("二", a[0], a[1]) }},
		{"递3", 0, func(a []zn.Expr) zn.Expr { return call("递", zn.Num{Lit: "3"}) }},
		{"一-1", 0, func(a []zn.Expr) zn.Expr { return call("一") }},
		{"一+1", 2, func(a []zn.Expr) zn.Expr { return call("一", a[0], a[1]) }},
		{"二-1", 1, func(a []zn.Expr) zn.Expr { return call("二", a[0]) }},
		{"O取", 0, func(a []zn.Expr) zn.Expr { return mc1(O, "取") }},
		{"O加", 1, func(a []zn.Expr) zn.Expr { return mc1(O, "加", a[0]) }},
		{"O推", 1, func(a []zn.Expr) zn.Expr { return mc1(O, "推", a[0]) }},
		{"O访P", 0, func(a []zn.Expr) zn.Expr { return mc1(O, "访", P) }},
		{"P访O", 0, func(a []zn.Expr) zn.Expr { return mc1(P, "访", O) }},
		{"O试P", 0, func(a []zn.Expr) zn.Expr { return mc1(O, "试", P) }},
		{"O自", 0, func(a []zn.Expr) zn.Expr { return mc1(O, "自") }},
		{"O无", 0, func(a []zn.Expr) zn.Expr { return mc1(O, "无") }},
		{"O取+1", 1, func(a []zn.Expr) zn.Expr { return mc1(O, "取", a[0]) }},
		{"O之数", 0, func(a []zn.Expr) zn.Expr { return zn.Member{Root: O, Name: "数"} }},
		{"P之数", 0, func(a []zn.Expr) zn.Expr { return zn.Member{Root: P, Name: "数"} }},
		{"P之表", 0, func(a []zn.Expr) zn.Expr { return zn.Member{Root: P, Name: "表"} }},
		{"O之无", 0, func(a []zn.Expr) zn.Expr { return zn.Member{Root: O, Name: "无"} }},
		{"O加加", 2, func(a []zn.Expr) zn.Expr {
			return zn.MCall{Root: O, Chain: []zn.Call{{Name: "加", Args: []zn.Expr{a[0]}}, {Name: "加", Args: []zn.Expr{a[1]}}}}
		}},
		{"数加", 2, func(a []zn.Expr) zn.Expr { return mc1(a[0], "加", a[1]) }},
		{"缺函", 1, func(a []zn.Expr) zn.Expr { return call("缺函", a[0]) }},
		{"新建型", 1, func(a []zn.Expr) zn.Expr {
			return zn.Member{Root: zn.New{Class: "型", Args: []zn.Expr{a[0]}}, Name: "数"}
		}},
		{"新建型-1", 0, func(a []zn.Expr) zn.Expr { return zn.Member{Root: zn.New{Class: "型"}, Name: "数"} }},
		{"新建点", 0, func(a []zn.Expr) zn.Expr { return zn.Member{Root: zn.New{Class: "点"}, Name: "X"} }},
		{"应用一", 1, func(a []zn.Expr) zn.Expr { return call("应用", zn.Var{Name: "一"}, a[0]) }},
		{"应用倍", 1, func(a []zn.Expr) zn.Expr { return call("应用", zn.Var{Name: "倍"}, a[0]) }},
		{"试错", 1, func(a []zn.Expr) zn.Expr { return call("试错", a[0]) }},
		{"O试错", 0, func(a []zn.Expr) zn.Expr { return mc1(O, "加", call("试错", zn.Num{Lit: "3"})) }},
		{"斐得6", 0, func(a []zn.Expr) zn.Expr { return call("斐得", zn.Num{Lit: "6"}) }},
		{"三链", 1, func(a []zn.Expr) zn.Expr {
			return zn.MCall{Root: a[0], Chain: []zn.Call{{Name: "加", Args: []zn.Expr{zn.Num{Lit: "3"}}}, {Name: "乘", Args: []zn.Expr{zn.Num{Lit: "4"}}}, {Name: "减", Args: []zn.Expr{zn.Num{Lit: "1"}}}}}
		}},
		{"O四链", 1, func(a []zn.Expr) zn.Expr {
			return zn.MCall{Root: O, Chain: []zn.Call{{Name: "加", Args: []zn.Expr{a[0]}}, {Name: "加", Args: []zn.Expr{zn.Num{Lit: "2"}}}, {Name: "乘", Args: []zn.Expr{zn.Num{Lit: "10"}}}, {Name: "减", Args: []zn.Expr{zn.Num{Lit: "5"}}}}}
		}},
		{"斐6", 0, func(a []zn.Expr) zn.Expr { return call("斐", zn.Num{Lit: "6"}) }},
		{"阿22", 0, func(a []zn.Expr) zn.Expr { return call("阿", zn.Num{Lit: "2"}, zn.Num{Lit: "2"}) }},
		{"探3", 0, func(a []zn.Expr) zn.Expr { return call("探", zn.Num{Lit: "3"}) }},
		{"Q1之X自增", 1, func(a []zn.Expr) zn.Expr { return mc1(zn.Member{Root: zn.Var{Name: "Q1"}, Name: "X"}, "自增", a[0]) }},
		{"Q1升", 0, func(a []zn.Expr) zn.Expr { return mc1(zn.Var{Name: "Q1"}, "升") }},
		{"Q2之X", 0, func(a []zn.Expr) zn.Expr { return zn.Member{Root: zn.Var{Name: "Q2"}, Name: "X"} }},
		{"O之数自减", 1, func(a []zn.Expr) zn.Expr { return mc1(zn.Member{Root: O, Name: "数"}, "自减", a[0]) }},
		{"早返", 1, func(a []zn.Expr) zn.Expr { return call("早返", a[0]) }},
		{"试记", 1, func(a []zn.Expr) zn.Expr { return call("试记", a[0]) }},
		{"新建框", 0, func(a []zn.Expr) zn.Expr {
			return zn.Member{Root: zn.Member{Root: zn.New{Class: "框"}, Name: "角"}, Name: "纵"}
		}},
		{"新建点+2", 2, func(a []zn.Expr) zn.Expr {
			return zn.Member{Root: zn.New{Class: "点", Args: []zn.Expr{a[0], a[1]}}, Name: "X"}
		}},
	}
}

// count of expressions of exactly depth d (depth 0 = leaves), and unrank
func c08Count(d int, forms []c08Form) int64 {
	if d == 0 {
		return c08Leaves
	}
	sub := c08CountUpTo(d-1, forms)
	var n int64
	for _, f := range forms {
		n += pow64(int(sub), f.slots)
	}
	return n
}

func c08CountUpTo(d int, forms []c08Form) int64 {
	var n int64
	for i := 0; i <= d; i++ {
		n += c08Count(i, forms)
	}
	return n
}

// c08ExprUpTo unranks over all expressions of depth <= d
func (g *c08Gen) exprUpTo(d int, forms []c08Form, idx int64) zn.Expr {
	for i := 0; i <= d; i++ {
		n := c08Count(i, forms)
		if idx < n {
			return g.expr(i, forms, idx)
		}
		idx -= n
	}
	panic("c08 exprUpTo")
}

func (g *c08Gen) expr(d int, forms []c08Form, idx int64) zn.Expr {
	if d == 0 {
		return g.leaf(int(idx))
	}
	sub := c08CountUpTo(d-1, forms)
	for _, f := range forms {
		n := pow64(int(sub), f.slots)
		if idx < n {
			args := make([]zn.Expr, f.slots)
			for s := 0; s < f.slots; s++ {
				args[s] = g.exprUpTo(d-1, forms, idx%sub)
				idx /= sub
			}
			return f.mk(args)
		}
		idx -= n
	}
	panic("c08 expr")
}

const c08NStmt = 5

func (g *c08Gen) stmt(kind int, e zn.Expr, pos int) []zn.Stmt {
	show := func(args ...zn.Expr) zn.Stmt { return zn.ExprStmt{E: zn.Call{Name: "显示", Args: args}} }
	switch kind {
	case 0:
		return []zn.Stmt{show(zn.Str{Val: "值"}, e)}
	case 1:
		return []zn.Stmt{zn.ExprStmt{E: zn.Assign{Target: zn.Member{Root: zn.Var{Name: "O"}, Name: "数"}, Val: e}}}
	case 2:
		n := fmt.Sprintf("N%d", pos)
		return []zn.Stmt{zn.Decl{Pairs: []zn.DeclPair{{Names: []string{n}, Val: e}}}, show(zn.Str{Val: n}, zn.Var{Name: n})}
	case 3:
		n := fmt.Sprintf("R%d", pos)
		return []zn.Stmt{zn.ExprStmt{E: zn.Call{Name: "一", Args: []zn.Expr{e}, Yield: n}}, show(zn.Str{Val: n}, zn.Var{Name: n})}
	default:
		return []zn.Stmt{zn.ExprStmt{E: zn.Group{E: e}}}
	}
}

type c08Family struct {
	name  string
	m     int // statements
	depth int // expression depth bound
	forms []c08Form
}

func (f c08Family) size() int64 { return pow64(int(c08CountUpTo(f.depth, f.forms))*c08NStmt, f.m) }

func (f c08Family) build(k int64) *zn.Program {
	g := &c08Gen{}
	per := c08CountUpTo(f.depth, f.forms) * c08NStmt
	body := c08Prelude()
	for i := 0; i < f.m; i++ {
		x := k % per
		k /= per
		e := g.exprUpTo(f.depth, f.forms, x/c08NStmt)
		body = append(body, g.stmt(int(x%c08NStmt), e, i)...)
	}
	O, P := zn.Var{Name: "O"}, zn.Var{Name: "P"}
	body = append(body, zn.ExprStmt{E: zn.Call{Name: "显示", Args: []zn.Expr{zn.Str{Val: "终"}, zn.Member{Root: O, Name: "数"}, zn.Member{Root: O, Name: "表"}, zn.Member{Root: P, Name: "数"}, zn.Member{Root: P, Name: "表"},
		zn.Member{Root: zn.Var{Name: "Q1"}, Name: "X"}, zn.Member{Root: zn.Var{Name: "Q2"}, Name: "X"}, zn.Member{Root: zn.New{Class: "点"}, Name: "X"}, zn.Var{Name: "参"}}}})
	return &zn.Program{Body: body}
}

func c08Families(tier string) []c08Family {
	all := c08Forms()
	var key []c08Form
	for _, f := range all {
		switch f.name {
		case "一", "二", "二-1", "O加", "O推", "O访P", "O试P", "O无", "O之数", "P之表", "O加加", "新建型", "Q1升", "新建点", "斐6", "应用一", "应用倍", "试错", "三链", "斐得6", "早返", "新建框", "试记":
			key = append(key, f)
		}
	}
	fs := []c08Family{
		{"m1-d2", 1, 2, all},
		{"m2-d1", 2, 1, all},
	}
	if tier == "thorough" {
		// sizes: m3-d1 over 12 key forms 2.0 M, m2-d2 over 6 forms 2.3 M, m1-d3 over 6 forms 0.5 M,
		// m3-d1 over the first 9 added forms 0.4 M (the full key list at depth 2 / 3 would be 10^8)
		fs = append(fs, c08Family{"m3-d1-key12", 3, 1, key[:12]}, c08Family{"m2-d2-key6", 2, 2, key[:6]}, c08Family{"m1-d3-key6", 1, 3, key[:6]})
		if len(key) > 12 {
			fs = append(fs, c08Family{"m3-d1-added", 3, 1, key[12:]})
		}
	}
	return fs
}

type c08Case struct {
	Family string `json:"family"`
	K      int64  `json:"k"`
	Source string `json:"source"`
}

func c08Check(fam c08Family, k int64) *mc.Failure {
	prog := fam.build(k)
	src := zn.Render(prog, nil)
	cs := func() json.RawMessage { return mc.J(c08Case{Family: fam.name, K: k, Source: src}) }
	rf := zn.NewRef()
	_, werr, aborted := rf.RunProgram(prog, nil)
	if aborted {
		return &mc.Failure{Kind: "crash", Case: cs(), Observed: "reference step limit"}
	}
	if rf.Open {
		return nil
	}
	zn.ObjPropNames = []string{"数", "表", "X"}
	got := zn.RunReal(src, nil)
	if got.Panic != "" {
		return &mc.Failure{Kind: "panic", Bucket: "panic", Case: cs(), Observed: got.Panic, Detail: got.Stack}
	}
	wt, gt := strings.Join(rf.Trace, " | "), strings.Join(got.Trace, " | ")
	if werr != nil {
		if got.Err == nil {
			return &mc.Failure{Kind: "mismatch", Bucket: fmt.Sprintf("accepted-%d", werr.Code), Case: cs(), Expected: fmt.Sprintf("error %d (%s) after trace %s", werr.Code, werr.Note, wt), Observed: "completed, trace " + gt}
		}
		if wt != gt {
			return &mc.Failure{Kind: "mismatch", Bucket: "trace-before-error", Case: cs(), Expected: "trace " + wt, Observed: "trace " + gt}
		}
		return nil
	}
	if got.Err != nil {
		return &mc.Failure{Kind: "mismatch", Bucket: fmt.Sprintf("rejected-%s-%d", got.Err.Kind, got.Err.Code), Case: cs(), Expected: "completes, trace " + wt, Observed: fmt.Sprintf("%s error %d %s after trace %s", got.Err.Kind, got.Err.Code, got.Err.Msg, gt)}
	}
	if wt != gt {
		return &mc.Failure{Kind: "mismatch", Bucket: "trace", Case: cs(), Expected: "trace " + wt, Observed: "trace " + gt}
	}
	return nil
}

func init() {
	mc.Register(&mc.Check{
		ID:    "C08",
		Level: "exploration",
		Rule:  "E1 exhaustive by rank/unrank: every program of m statements (显示 e | O之数 = e | 令N = e | （一：e）得到R | {e}) whose expressions e range over ALL call/object expressions up to the depth bound built from 41 forms (method chains of three and four links whose links return new values; tree recursion binding its two results with 得到 under the same names in every call; a method that calls the method it is given, called with two different methods; a method whose nested call fails on its argument count and is handled inside it while a top-level variable has the name of its input; methods of arity 0/1/2, recursion that re-enters one two-argument call expression while its later arguments are being evaluated (Fibonacci, Ackermann, a traced descent), a type whose default number is only ever changed in place (自增 through 其 and from outside, two instances plus fresh ones), in-place 自减 on a property, arity -1/+1 mismatches, recursion, methods of two instances of a type with scalar + list defaults and a constructor, 其 reads/writes, a method calling another object's method and then reading 其, a method whose nested call fails and is handled, 其自身, unknown method / property / function, chained 以…（…）、（…）, a built-in number method, 新建 with matching / missing / surplus arguments) with every leaf wrapped in a tracing call; final observation of both instances. Oracle: reference interpreter (ordered trace incl. argument evaluation order, error-ness). Distinct by construction; all non-trivial.",
		Assumptions: []string{
			"reference interpreter (manual ch.8) is the oracle; a method ending without 输出 is not asserted (none generated)",
			"error codes are not compared across the call boundary",
			"depth above the bound and more than m statements are not covered",
		},
		Budget: func(tier string) time.Duration {
			if tier == "thorough" {
				return 20 * time.Minute
			}
			return 240 * time.Second
		},
		Run: func(c *mc.Ctx) {
			base := int64(0)
			for _, fam := range c08Families(c.Tier) {
				sz := fam.size()
				f, b0 := fam, base
				c.Describe = func(idx int64) json.RawMessage { return mc.J(c08Case{Family: f.name, K: idx - b0}) }
				for k := int64(0); k < sz; k++ {
					idx := base + k
					if !c.Mine(idx) {
						continue
					}
					if c.Due(0x3FF) {
						c.Note("deadline hit in family " + fam.name)
						return
					}
					c.CaseIdx(idx)
					fl := c08Check(fam, k)
					c.Eval(true)
					c.Stat("programs_"+fam.name, 1)
					if fl != nil {
						c.Fail(*fl)
					}
					if c.WantSample() && k%7919 == 11 {
						c.Sample(zn.Render(fam.build(k), nil))
					}
				}
				base += sz
				c.Bound("family_"+fam.name, fmt.Sprintf("complete: %d programs", sz))
			}
			// deep recursion once
			if c.Shard == 0 {
				src := "如何阶？\n    输入N\n    如果N <= 0：\n        输出0\n    输出1 + （阶：N - 1）\n输出（阶：1000）"
				got := zn.RunReal(src, nil)
				c.Eval(true)
				if got.Panic != "" || got.Err != nil || got.Val != zn.Canon(float64(1000)) {
					c.Fail(mc.Failure{Kind: "mismatch", Bucket: "deep-recursion", Case: mc.J(c08Case{Family: "deep", Source: src}), Expected: "1000", Observed: fmt.Sprintf("%s %v %s", got.Val, got.Err, got.Panic)})
				}
			}
		},
		Replay: func(c *mc.Ctx, raw json.RawMessage) {
			var cs c08Case
			if err := json.Unmarshal(raw, &cs); err != nil {
				c.Fail(mc.Failure{Kind: "crash", Observed: err.Error()})
				return
			}
			for _, tier := range []string{"quick", "thorough"} {
				for _, fam := range c08Families(tier) {
					if fam.name == cs.Family {
						if f := c08Check(fam, cs.K); f != nil {
							c.Fail(*f)
						}
						return
					}
				}
			}
			if cs.Family == "deep" {
				got := zn.RunReal(cs.Source, nil)
				if got.Panic != "" || got.Err != nil {
					c.Fail(mc.Failure{Kind: "mismatch", Observed: fmt.Sprint(got.Err, got.Panic)})
				}
			}
		},
	})
}
