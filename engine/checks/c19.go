package checks

// C19 — JSON generation and parsing are faithful inverses.
//
// E1, bounded exhaustive (rank/unrank over dictionaries counted by nodes; no
// sampling).  For every dictionary d of the space:
//
//	(a) text = 生成JSON(d) is valid UTF-8 and a strict RFC 8259 reader (Python
//	    json.loads, NaN/Infinity rejected, object members kept as ordered
//	    pairs) reads it back as d: same member order, list <-> array, numbers
//	    equal as doubles, 真/假/空 <-> true/false/null;
//	(b) 解析JSON(text) equals d under zn.CanonElem (key order included), the
//	    parse repeated (>= 64 parses per dictionary together with (d)) because
//	    the order used to be a Go map's iteration order;
//	(c) 输出（解析JSON：（生成JSON：D）） 为 D is 真 end to end;
//	(d) every document Python json.dumps writes for d (7-8 variants) parses to d
//	    with keys in document order;
//	(e) every single-character corruption of Python's compact document (delete
//	    each character; replace it by each of " \ { } [ ] , : 0 x; append each
//	    of them; the document twice): valid per Python -> same value, invalid
//	    -> an exception that a program-level 拦截异常 handler catches;
//	(f) every dictionary of a second space that contains NaN / +Inf / -Inf makes
//	    生成JSON raise an exception that 拦截异常 catches.
//
// Python is only the oracle (one long-lived batch process per worker).

import (
	"bufio"
	"encoding/json"
	"fmt"
	"math"
	"os"
	osexec "os/exec"
	"runtime/debug"
	"sort"
	"strconv"
	"strings"
	"time"
	"unicode/utf8"

	r "github.com/DemoHn/Zn/pkg/runtime"
	"github.com/DemoHn/Zn/pkg/value"
	libJson "github.com/DemoHn/Zn/stdlib/json"

	"verif/engine/mc"
	"verif/engine/zn"
)

const (
	c19SigOrder     = "parse-key-order"
	c19SigEmptyList = "empty-list-as-null"

	// a 2-key object parsed into a Go map comes back reversed with probability
	// 1/8 (go1.23 small-map iteration); 64 parses miss it with probability 2e-4.
	// Per dictionary: 43 parses of 生成JSON's text + 3 of each of Python's 7-8
	// documents (same member order) >= 64 parses.
	c19Repeats       = 43
	c19DocRepeats    = 3
	c19ReplayRepeats = 256
)

// ------------------------------------------------------------------ values

// c19N is a JSON-representable value (plus non-finite numbers for (f)).
type c19N struct {
	K     byte // 'd' dict, 'l' list, 't' text, 'n' number, 'b' bool, 'z' 空
	S     string
	F     float64
	B     bool
	Lit   string // python integer literal for this number (e.g. 2^53+1), optional
	Keys  []string
	Items []*c19N
	shown string // cache of show()
}

func c19Text(s string) *c19N { return &c19N{K: 't', S: s} }
func c19Num(f float64) *c19N { return &c19N{K: 'n', F: f} }

var c19Keys = []string{"b", "a", "", "\""}

// full scalar alphabet (level A)
var c19LeavesFull = func() []*c19N {
	var out []*c19N
	out = append(out, c19Text(""))
	for _, ch := range []rune{'"', '\\', '/', 0x00, 0x1F, 0x7F, 'é', '你', 0x1F600, 0x2028} {
		out = append(out, c19Text(string(ch)))
	}
	for _, s := range []string{"\\\"", "\"\\", "\\\\", "\\/", "\x00\x1f", "😀 ", "<>&",
		// a backslash followed by what an escape looks like: texts that ARE the spelling of an
		// escape, as in a JSON document stored as a text inside another one
		`\u003c`, `\u0026\u003e`, `\n`} {
		out = append(out, c19Text(s))
	}
	for _, f := range []float64{0, math.Copysign(0, -1), 1, -1, 0.1, 1e21, 1e-7, 5e-324, 1.7976931348623157e308} {
		out = append(out, c19Num(f))
	}
	out = append(out, &c19N{K: 'n', F: 9007199254740993, Lit: "9007199254740993"}) // 2^53+1: the nearest double is 2^53
	out = append(out, &c19N{K: 'b', B: true}, &c19N{K: 'b', B: false}, &c19N{K: 'z'})
	return out
}()

// reduced scalar alphabet (level B: structure exhaustively; 真/假 stay in level A)
var c19LeavesSmall = []*c19N{c19Text("\""), c19Num(1e21), {K: 'z'}}

// level F: non-finite numbers next to one finite number and one text
var c19LeavesNonFinite = []*c19N{c19Num(math.NaN()), c19Num(math.Inf(1)), c19Num(math.Inf(-1)), c19Num(1), c19Text("é")}

func (n *c19N) toV() zn.V {
	switch n.K {
	case 'd':
		d := zn.NewDV()
		for i, k := range n.Keys {
			d.Set(k, n.Items[i].toV())
		}
		return d
	case 'l':
		l := &zn.LV{Items: []zn.V{}}
		for _, it := range n.Items {
			l.Items = append(l.Items, it.toV())
		}
		return l
	case 't':
		return n.S
	case 'n':
		return n.F
	case 'b':
		return n.B
	}
	return zn.Null{}
}

// desc: the replayable JSON-ish description with explicit types.
func (n *c19N) desc() any {
	switch n.K {
	case 'd':
		ps := make([]any, len(n.Keys))
		for i, k := range n.Keys {
			ps[i] = []any{k, n.Items[i].desc()}
		}
		return map[string]any{"dict": ps}
	case 'l':
		ps := make([]any, len(n.Items))
		for i, it := range n.Items {
			ps[i] = it.desc()
		}
		return map[string]any{"list": ps}
	case 't':
		return map[string]any{"text": toInts([]rune(n.S))}
	case 'n':
		m := map[string]any{"num": strconv.FormatFloat(n.F, 'g', -1, 64)}
		if n.Lit != "" {
			m["lit"] = n.Lit
		}
		return m
	case 'b':
		return n.B
	}
	return nil
}

func c19FromDesc(x any) (*c19N, error) {
	switch v := x.(type) {
	case nil:
		return &c19N{K: 'z'}, nil
	case bool:
		return &c19N{K: 'b', B: v}, nil
	case map[string]any:
		if t, ok := v["text"]; ok {
			arr, _ := t.([]any)
			rs := make([]rune, 0, len(arr))
			for _, c := range arr {
				f, ok := c.(float64)
				if !ok {
					return nil, fmt.Errorf("bad code point %v", c)
				}
				rs = append(rs, rune(f))
			}
			return c19Text(string(rs)), nil
		}
		if t, ok := v["num"]; ok {
			s, _ := t.(string)
			f, err := strconv.ParseFloat(s, 64)
			if err != nil {
				return nil, fmt.Errorf("bad number %q", s)
			}
			n := c19Num(f)
			if l, ok := v["lit"].(string); ok {
				n.Lit = l
			}
			return n, nil
		}
		if t, ok := v["list"]; ok {
			arr, _ := t.([]any)
			n := &c19N{K: 'l'}
			for _, it := range arr {
				c, err := c19FromDesc(it)
				if err != nil {
					return nil, err
				}
				n.Items = append(n.Items, c)
			}
			return n, nil
		}
		if t, ok := v["dict"]; ok {
			arr, _ := t.([]any)
			n := &c19N{K: 'd'}
			for _, it := range arr {
				p, ok := it.([]any)
				if !ok || len(p) != 2 {
					return nil, fmt.Errorf("bad member %v", it)
				}
				k, ok := p[0].(string)
				if !ok {
					return nil, fmt.Errorf("bad key %v", p[0])
				}
				c, err := c19FromDesc(p[1])
				if err != nil {
					return nil, err
				}
				n.Keys = append(n.Keys, k)
				n.Items = append(n.Items, c)
			}
			return n, nil
		}
	}
	return nil, fmt.Errorf("bad value description %v", x)
}

// c19FromPy converts the oracle's tree: {"d":[[k,v]..]} {"l":[..]} {"n":"repr"} "text" true false null.
func c19FromPy(x any) *c19N {
	switch v := x.(type) {
	case nil:
		return &c19N{K: 'z'}
	case bool:
		return &c19N{K: 'b', B: v}
	case string:
		return c19Text(v)
	case map[string]any:
		if t, ok := v["n"].(string); ok {
			f, err := strconv.ParseFloat(t, 64)
			if err != nil {
				f = math.NaN()
			}
			return c19Num(f)
		}
		if t, ok := v["l"].([]any); ok {
			n := &c19N{K: 'l'}
			for _, it := range t {
				n.Items = append(n.Items, c19FromPy(it))
			}
			return n
		}
		if t, ok := v["d"].([]any); ok {
			n := &c19N{K: 'd'}
			for _, it := range t {
				p, _ := it.([]any)
				if len(p) != 2 {
					continue
				}
				k, _ := p[0].(string)
				n.Keys = append(n.Keys, k)
				n.Items = append(n.Items, c19FromPy(p[1]))
			}
			return n
		}
	}
	return &c19N{K: '?'}
}

// c19ReadOrdered is the harness's own reading of a document with members in
// document order (Go's token stream; trusted base, not the code under test).
// It only serves to attribute an order difference of (b) to the parser (the
// document is in d's order) or to the generator (it is not).
func c19ReadOrdered(text string) (*c19N, error) {
	dec := json.NewDecoder(strings.NewReader(text))
	return c19ReadTok(dec)
}

func c19ReadTok(dec *json.Decoder) (*c19N, error) {
	tok, err := dec.Token()
	if err != nil {
		return nil, err
	}
	switch t := tok.(type) {
	case json.Delim:
		n := &c19N{K: 'l'}
		if t == '{' {
			n.K = 'd'
		}
		for dec.More() {
			if n.K == 'd' {
				kt, err := dec.Token()
				if err != nil {
					return nil, err
				}
				k, _ := kt.(string)
				n.Keys = append(n.Keys, k)
			}
			v, err := c19ReadTok(dec)
			if err != nil {
				return nil, err
			}
			n.Items = append(n.Items, v)
		}
		_, err := dec.Token()
		return n, err
	case string:
		return c19Text(t), nil
	case float64:
		return c19Num(t), nil
	case bool:
		return &c19N{K: 'b', B: t}, nil
	}
	return &c19N{K: 'z'}, nil
}

// c19FromElem converts a real value (nil-safe; anything else becomes kind '?').
func c19FromElem(e r.Element) *c19N {
	switch x := e.(type) {
	case *value.Number:
		if x != nil {
			return c19Num(x.GetValue())
		}
	case *value.String:
		if x != nil {
			return c19Text(x.GetValue())
		}
	case *value.Bool:
		if x != nil {
			return &c19N{K: 'b', B: x.GetValue()}
		}
	case *value.Null:
		if x != nil {
			return &c19N{K: 'z'}
		}
	case *value.Array:
		if x != nil {
			n := &c19N{K: 'l'}
			for _, it := range x.GetValue() {
				n.Items = append(n.Items, c19FromElem(it))
			}
			return n
		}
	case *value.HashMap:
		if x != nil {
			n := &c19N{K: 'd'}
			m := x.GetValue()
			for _, k := range x.GetKeyOrder() {
				n.Keys = append(n.Keys, k)
				n.Items = append(n.Items, c19FromElem(m[k]))
			}
			return n
		}
	}
	return &c19N{K: '?'}
}

// canon: structural string; sorted = object members by key; listNull = an
// empty list written as 空 (the shape of the empty-list-as-null defect).
func (n *c19N) canon(b *strings.Builder, sorted, listNull bool) {
	switch n.K {
	case 'd':
		idx := make([]int, len(n.Keys))
		for i := range idx {
			idx[i] = i
		}
		if sorted {
			sort.SliceStable(idx, func(i, j int) bool { return n.Keys[idx[i]] < n.Keys[idx[j]] })
		}
		b.WriteByte('{')
		for _, i := range idx {
			b.WriteString(strconv.Quote(n.Keys[i]))
			b.WriteByte(':')
			n.Items[i].canon(b, sorted, listNull)
			b.WriteByte(',')
		}
		b.WriteByte('}')
	case 'l':
		if listNull && len(n.Items) == 0 {
			b.WriteString("空")
			return
		}
		b.WriteByte('[')
		for _, it := range n.Items {
			it.canon(b, sorted, listNull)
			b.WriteByte(',')
		}
		b.WriteByte(']')
	case 't':
		b.WriteString(strconv.Quote(n.S))
	case 'n':
		f := n.F
		if f == 0 {
			f = 0 // -0 and 0 are the same double value under ==
		}
		if math.IsNaN(f) {
			b.WriteString("n:NaN")
		} else {
			fmt.Fprintf(b, "n:%016x", math.Float64bits(f))
		}
	case 'b':
		if n.B {
			b.WriteString("真")
		} else {
			b.WriteString("假")
		}
	case 'z':
		b.WriteString("空")
	default:
		b.WriteString("<?>")
	}
}

func (n *c19N) canonS(sorted, listNull bool) string {
	var b strings.Builder
	n.canon(&b, sorted, listNull)
	return b.String()
}

func c19NormZero(s string) string {
	return strings.ReplaceAll(s, "n:8000000000000000", "n:0000000000000000")
}

// c19Show: the harness's canonical form of the expected value (what zn.CanonElem
// of the real value is compared with; -0 counts as 0).
func (n *c19N) show() string {
	if n.shown == "" {
		n.shown = c19NormZero(zn.Canon(n.toV()))
	}
	return n.shown
}

// c19Cmp compares a real value with the expected one under zn.CanonElem /
// zn.Canon (key order included, -0 == 0):
// "" equal | "order" equal up to member order | "emptylist" equal once every
// empty list of the expected value is read as 空 | "emptylist+order" both |
// "value" anything else.
func c19Cmp(exp *c19N, got r.Element) string {
	if c19NormZero(zn.CanonElem(got)) == exp.show() {
		return ""
	}
	g := c19FromElem(got)
	gs := g.canonS(true, false)
	if gs == exp.canonS(true, false) {
		if g.canonS(false, false) == exp.canonS(false, false) {
			return "value" // the harness canon disagrees for another reason (broken key table)
		}
		return "order"
	}
	if gs == exp.canonS(true, true) {
		if g.canonS(false, false) == exp.canonS(false, true) {
			return "emptylist"
		}
		return "emptylist+order"
	}
	return "value"
}

func (n *c19N) multiKey() bool {
	if n.K == 'd' && len(n.Keys) >= 2 {
		return true
	}
	for _, it := range n.Items {
		if it.multiKey() {
			return true
		}
	}
	return false
}

func (n *c19N) nonFinite() bool {
	if n.K == 'n' && (math.IsNaN(n.F) || math.IsInf(n.F, 0)) {
		return true
	}
	for _, it := range n.Items {
		if it.nonFinite() {
			return true
		}
	}
	return false
}

// nontrivial: more than a one-member object holding a plain ASCII text / small
// integer / 真 / 假 / 空.
func (n *c19N) nontrivial(top bool) bool {
	switch n.K {
	case 'd', 'l':
		if !top {
			return true
		}
		if len(n.Keys) != 1 {
			return len(n.Keys) > 1
		}
		return n.Keys[0] == "\"" || n.Items[0].nontrivial(false)
	case 't':
		for _, ch := range n.S {
			if ch < 0x20 || ch == '"' || ch == '\\' || ch >= 0x7F {
				return true
			}
		}
		return false
	case 'n':
		return n.F != math.Trunc(n.F) || math.Abs(n.F) > 1e15 || (n.F == 0 && math.Signbit(n.F))
	}
	return false
}

// ------------------------------------------------------------------ enumeration

// c19Gen enumerates dictionaries by node count (every value, the root included,
// is one node): root depth 1, containers nested to depth <= 3, <= maxKeys
// ordered distinct keys per object.  Counts are memoised; unrank is injective.
type c19Gen struct {
	name    string
	leaves  []*c19N
	keys    []string
	maxKeys int
	memoS   map[[3]int]int64
	memoL   map[[2]int]int64
}

func c19NewGen(name string, leaves []*c19N) *c19Gen {
	return &c19Gen{name: name, leaves: leaves, keys: c19Keys, maxKeys: 3, memoS: map[[3]int]int64{}, memoL: map[[2]int]int64{}}
}

func c19Perm(k, m int) int64 {
	p := int64(1)
	for i := 0; i < m; i++ {
		p *= int64(k - i)
	}
	return p
}

// val: values of exactly n nodes whose containers may nest d more levels.
func (g *c19Gen) val(n, d int) int64 {
	if n == 1 {
		if d >= 1 {
			return int64(len(g.leaves) + 2)
		}
		return int64(len(g.leaves))
	}
	if d < 1 {
		return 0
	}
	return g.lseq(n-1, d-1) + g.dict(n-1, d-1)
}

func (g *c19Gen) dict(t, d int) int64 {
	var s int64
	for m := 1; m <= g.maxKeys && m <= len(g.keys); m++ {
		s += c19Perm(len(g.keys), m) * g.seq(m, t, d)
	}
	return s
}

// seq: sequences of exactly m values totalling t nodes.
func (g *c19Gen) seq(m, t, d int) int64 {
	if m == 0 {
		if t == 0 {
			return 1
		}
		return 0
	}
	k := [3]int{m, t, d}
	if v, ok := g.memoS[k]; ok {
		return v
	}
	var s int64
	for f := 1; f <= t-(m-1); f++ {
		s += g.val(f, d) * g.seq(m-1, t-f, d)
	}
	g.memoS[k] = s
	return s
}

// lseq: non-empty sequences of any length totalling t nodes.
func (g *c19Gen) lseq(t, d int) int64 {
	if t == 0 {
		return 1
	}
	k := [2]int{t, d}
	if v, ok := g.memoL[k]; ok {
		return v
	}
	var s int64
	for f := 1; f <= t; f++ {
		s += g.val(f, d) * g.lseq(t-f, d)
	}
	g.memoL[k] = s
	return s
}

// root: dictionaries of exactly n nodes.
func (g *c19Gen) root(n int) int64 {
	if n == 1 {
		return 1
	}
	return g.dict(n-1, 2)
}

func (g *c19Gen) unrankRoot(n int, k int64) *c19N {
	if n == 1 {
		return &c19N{K: 'd'}
	}
	return g.unrankDict(n-1, 2, k)
}

func (g *c19Gen) unrankVal(n, d int, k int64) *c19N {
	if n == 1 {
		switch {
		case k < int64(len(g.leaves)):
			c := *g.leaves[k]
			return &c
		case k == int64(len(g.leaves)):
			return &c19N{K: 'l'}
		}
		return &c19N{K: 'd'}
	}
	if ls := g.lseq(n-1, d-1); k < ls {
		out := &c19N{K: 'l'}
		t := n - 1
		for t > 0 {
			for f := 1; f <= t; f++ {
				blk := g.val(f, d-1) * g.lseq(t-f, d-1)
				if k < blk {
					rest := g.lseq(t-f, d-1)
					out.Items = append(out.Items, g.unrankVal(f, d-1, k/rest))
					k %= rest
					t -= f
					break
				}
				k -= blk
			}
		}
		return out
	} else {
		k -= ls
	}
	return g.unrankDict(n-1, d-1, k)
}

// unrankDict: an object whose member values total t nodes, nested budget d.
func (g *c19Gen) unrankDict(t, d int, k int64) *c19N {
	out := &c19N{K: 'd'}
	for m := 1; m <= g.maxKeys && m <= len(g.keys); m++ {
		blk := c19Perm(len(g.keys), m) * g.seq(m, t, d)
		if k >= blk {
			k -= blk
			continue
		}
		sq := g.seq(m, t, d)
		kp := k / sq
		k %= sq
		// ordered selection of m distinct keys
		pool := append([]string{}, g.keys...)
		for i := 0; i < m; i++ {
			div := c19Perm(len(pool)-1, m-i-1)
			j := int(kp / div)
			kp %= div
			out.Keys = append(out.Keys, pool[j])
			pool = append(pool[:j], pool[j+1:]...)
		}
		for i := m; i >= 1; i-- {
			for f := 1; f <= t-(i-1); f++ {
				rest := g.seq(i-1, t-f, d)
				blk := g.val(f, d) * rest
				if k < blk {
					out.Items = append(out.Items, g.unrankVal(f, d, k/rest))
					k %= rest
					t -= f
					break
				}
				k -= blk
			}
		}
		return out
	}
	panic("c19: rank out of range")
}

// ------------------------------------------------------------------ Python oracle

const c19OracleSrc = `import sys, json, math

class Pairs(list):
    pass

def bad_const(s):
    raise ValueError("non-finite constant " + s)

def has_surrogate(s):
    for ch in s:
        if 0xD800 <= ord(ch) <= 0xDFFF:
            return True
    return False

def enc(v, fl):
    if v is None or v is True or v is False:
        return v
    if isinstance(v, str):
        if has_surrogate(v):
            fl.add("surrogate")
        return v
    if isinstance(v, int):
        try:
            f = float(v)
        except OverflowError:
            fl.add("nonfinite")
            return {"n": "inf"}
        return {"n": repr(f)}
    if isinstance(v, float):
        if math.isinf(v) or math.isnan(v):
            fl.add("nonfinite")
            return {"n": "inf"}
        return {"n": repr(v)}
    if isinstance(v, Pairs):
        seen = set()
        out = []
        for k, x in v:
            if k in seen:
                fl.add("dupkeys")
            seen.add(k)
            if has_surrogate(k):
                fl.add("surrogate")
            out.append([k, enc(x, fl)])
        return {"d": out}
    if isinstance(v, list):
        return {"l": [enc(x, fl) for x in v]}
    raise TypeError(type(v))

def read(doc):
    try:
        v = json.loads(doc, parse_constant=bad_const, object_pairs_hook=Pairs)
    except (ValueError, RecursionError) as e:
        return {"ok": False, "err": str(e)[:120]}
    fl = set()
    t = enc(v, fl)
    top = "object" if isinstance(v, Pairs) else ("array" if isinstance(v, list) else "scalar")
    return {"ok": True, "top": top, "flags": sorted(fl), "v": t}

def build(t, floats):
    if t is None or t is True or t is False:
        return t
    if "text" in t:
        return "".join(map(chr, t["text"]))
    if "num" in t:
        f = float(t["num"])
        if floats:
            return f
        if "lit" in t:
            return int(t["lit"])
        if math.isfinite(f) and f == math.floor(f) and abs(f) < 1e16 and not (f == 0 and math.copysign(1.0, f) < 0):
            return int(f)
        return f
    if "list" in t:
        return [build(x, floats) for x in t["list"]]
    if "dict" in t:
        return {k: build(x, floats) for k, x in t["dict"]}
    raise TypeError(str(t))

def docs(t):
    di = build(t, False)
    df = build(t, True)
    utf8 = json.dumps(di, separators=(",", ":"), ensure_ascii=False)
    asc = json.dumps(di, separators=(",", ":"), ensure_ascii=True)
    out = [["compact-ascii", asc],
           ["compact-utf8", utf8],
           ["indent2-ascii", json.dumps(di, indent=2, ensure_ascii=True)],
           ["indent2-utf8", json.dumps(di, indent=2, ensure_ascii=False)],
           ["default-separators", json.dumps(di)],
           ["numbers-as-floats", json.dumps(df, separators=(",", ":"))],
           ["padded", " \t\r\n" + asc + "\n\r\t "]]
    if "/" in utf8:
        esc = utf8.replace("/", "\\/")
        json.loads(esc)
        out.append(["escaped-solidus", esc])
    return out

def main():
    for line in sys.stdin:
        q = json.loads(line)
        if q["op"] == "cases":
            res = []
            for it in q["items"]:
                a = {"docs": docs(it["d"])}
                if it.get("t") is not None:
                    a["read"] = read(it["t"])
                res.append(a)
        elif q["op"] == "loads":
            res = [read(d) for d in q["docs"]]
        else:
            res = None
        sys.stdout.write(json.dumps(res))
        sys.stdout.write("\n")
        sys.stdout.flush()

main()
`

type c19Read struct {
	OK    bool     `json:"ok"`
	Err   string   `json:"err"`
	Top   string   `json:"top"`
	Flags []string `json:"flags"`
	V     any      `json:"v"`
}

type c19PyCase struct {
	Read *c19Read    `json:"read"`
	Docs [][2]string `json:"docs"`
}

type c19Py struct {
	cmd    *osexec.Cmd
	in     *bufio.Writer
	out    *bufio.Reader
	script string
	dead   error
}

func c19StartPy() (*c19Py, error) {
	f, err := os.CreateTemp("", "c19-oracle-*.py")
	if err != nil {
		return nil, err
	}
	if _, err := f.WriteString(c19OracleSrc); err != nil {
		return nil, err
	}
	f.Close()
	cmd := osexec.Command(c14FindPython(), "-S", "-E", f.Name())
	wp, err := cmd.StdinPipe()
	if err != nil {
		return nil, err
	}
	rp, err := cmd.StdoutPipe()
	if err != nil {
		return nil, err
	}
	cmd.Stderr = os.Stderr
	if err := cmd.Start(); err != nil {
		os.Remove(f.Name())
		return nil, err
	}
	p := &c19Py{cmd: cmd, in: bufio.NewWriterSize(wp, 1<<16), out: bufio.NewReaderSize(rp, 1<<16), script: f.Name()}
	// self-test: the reader must be strict
	rs, err := p.loads([]string{`{"a":NaN}`, `{"a":1,}`, `{"b":1,"a":[]}`})
	if err != nil {
		p.close()
		return nil, err
	}
	if rs[0].OK || rs[1].OK || !rs[2].OK || rs[2].Top != "object" || c19FromPy(rs[2].V).canonS(false, false) != `{"b":n:3ff0000000000000,"a":[],}` {
		p.close()
		return nil, fmt.Errorf("python3 oracle failed its self-test")
	}
	return p, nil
}

func (p *c19Py) close() {
	if p == nil {
		return
	}
	if p.cmd != nil && p.cmd.Process != nil {
		_ = p.cmd.Process.Kill()
		_ = p.cmd.Wait()
	}
	os.Remove(p.script)
}

func (p *c19Py) call(req any, resp any) error {
	if p.dead != nil {
		return p.dead
	}
	fail := func(err error) error {
		p.dead = fmt.Errorf("python3 oracle: %v", err)
		return p.dead
	}
	b, err := json.Marshal(req)
	if err != nil {
		return fail(err)
	}
	if _, err := p.in.Write(b); err != nil {
		return fail(err)
	}
	if err := p.in.WriteByte('\n'); err != nil {
		return fail(err)
	}
	if err := p.in.Flush(); err != nil {
		return fail(err)
	}
	line, err := p.out.ReadBytes('\n')
	if err != nil {
		return fail(err)
	}
	if err := json.Unmarshal(line, resp); err != nil {
		return fail(err)
	}
	return nil
}

func (p *c19Py) loads(docs []string) ([]c19Read, error) {
	var out []c19Read
	if err := p.call(map[string]any{"op": "loads", "docs": docs}, &out); err != nil {
		return nil, err
	}
	if len(out) != len(docs) {
		p.dead = fmt.Errorf("python3 oracle: %d answers for %d documents", len(out), len(docs))
		return nil, p.dead
	}
	return out, nil
}

func (p *c19Py) cases(items []map[string]any) ([]c19PyCase, error) {
	var out []c19PyCase
	if err := p.call(map[string]any{"op": "cases", "items": items}, &out); err != nil {
		return nil, err
	}
	if len(out) != len(items) {
		p.dead = fmt.Errorf("python3 oracle: %d answers for %d cases", len(out), len(items))
		return nil, p.dead
	}
	return out, nil
}

func (rd *c19Read) dontCare() string {
	if len(rd.Flags) > 0 {
		return strings.Join(rd.Flags, "+")
	}
	if rd.Top != "object" {
		return "top-level " + rd.Top
	}
	return ""
}

// ------------------------------------------------------------------ real calls

type c19Got struct {
	elem  r.Element
	err   error
	cls   *zn.RealErr
	panic string
}

func c19Call(fn func(r.Element, []r.Element) (r.Element, error), arg r.Element) (g c19Got) {
	defer func() {
		if p := recover(); p != nil {
			g = c19Got{panic: fmt.Sprint(p)}
		}
	}()
	e, err := fn(nil, []r.Element{arg})
	if err != nil {
		return c19Got{err: err, cls: zn.Classify(err)}
	}
	return c19Got{elem: e}
}

func c19Parse(doc string) c19Got { return c19Call(libJson.FN_parseJson, value.NewString(doc)) }
func c19Generate(d *c19N) c19Got { return c19Call(libJson.FN_generateJson, zn.ToElem(d.toV())) }

func (g c19Got) text() (string, bool) {
	s, ok := g.elem.(*value.String)
	if !ok || s == nil {
		return "", false
	}
	return s.GetValue(), true
}

func (g c19Got) show() string {
	switch {
	case g.panic != "":
		return "Go panic: " + g.panic
	case g.err != nil:
		return fmt.Sprintf("%s error %d %s", g.cls.Kind, g.cls.Code, c14Clip(g.cls.Msg))
	}
	return "value " + c14Clip(zn.CanonElem(g.elem))
}

// c19ParseStable parses up to reps times; it stops at the first parse that
// fails, differs in value or is out of document order, and returns that result
// with the difference (see c19Cmp) and the number of parses made.
func c19ParseStable(doc string, exp *c19N, reps int) (c19Got, string, int) {
	var g, keep c19Got
	diff := ""
	n := 0
	for i := 0; i < reps; i++ {
		g = c19Parse(doc)
		n++
		if g.panic != "" || g.err != nil {
			return g, "error", n
		}
		switch d := c19Cmp(exp, g.elem); d {
		case "":
		case "emptylist": // deterministic; keep looking for an order difference
			if diff == "" {
				diff, keep = d, g
			}
		default:
			return g, d, n
		}
	}
	if diff != "" {
		return keep, diff, n
	}
	return g, diff, n
}

const (
	c19ProgEq    = "导入《@JSON》\n输入D\n输出（解析JSON：（生成JSON：D）） 为 D"
	c19ProgParse = "导入《@JSON》\n输入T\n输出（解析JSON：T）\n拦截异常：\n    输出“caught”"
	c19ProgGen   = "导入《@JSON》\n输入D\n输出（生成JSON：D）\n拦截异常：\n    输出“caught”"
	c19Caught    = `"caught"`
)

func c19ShowOutcome(o zn.Outcome) string {
	switch {
	case o.Panic != "":
		return "Go panic: " + o.Panic
	case o.Err != nil:
		return fmt.Sprintf("uncaught %s error %d %s", o.Err.Kind, o.Err.Code, c14Clip(o.Err.Msg))
	}
	return "value " + c14Clip(o.Val)
}

// ------------------------------------------------------------------ case descriptor

type c19Case struct {
	Check   string `json:"check"` // all | a | b | c | d | e | f | top
	Level   string `json:"level,omitempty"`
	Nodes   int    `json:"nodes,omitempty"`
	Rank    int64  `json:"rank"`
	Dict    any    `json:"dict,omitempty"`
	Shown   string `json:"dict_shown,omitempty"`
	Doc     []int  `json:"doc,omitempty"` // (d)/(e): the document as code points
	DocText string `json:"doc_shown,omitempty"`
	Variant string `json:"variant,omitempty"` // (d): python writer variant, (e): the mutation
	E2E     bool   `json:"end_to_end,omitempty"`
}

type c19Item struct {
	level string
	nodes int
	rank  int64
	idx   int64
	d     *c19N
	text  string // 生成JSON(d), if it succeeded
	gen   bool
	seen  map[string]bool
	corr  bool // (e) in scope
	e2e   bool // (e) through programs too
}

func (it *c19Item) cs(check string) c19Case {
	return c19Case{Check: check, Level: it.level, Nodes: it.nodes, Rank: it.rank, Dict: it.d.desc(), Shown: zn.Display(it.d.toV())}
}

func (cs c19Case) withDoc(doc, variant string, e2e bool) c19Case {
	cs.Doc, cs.DocText, cs.Variant, cs.E2E = toInts([]rune(doc)), doc, variant, e2e
	return cs
}

type c19W struct {
	c  *mc.Ctx
	py *c19Py
	// one sample per kind and worker
	sampledD, sampledE, sampledF bool
}

// fail records at most one failure per dictionary and signature (per bucket
// for unclassified ones).
func (w *c19W) fail(it *c19Item, f mc.Failure) {
	k := f.Sig
	if k == "" {
		k = "/" + f.Bucket
	}
	if it.seen == nil {
		it.seen = map[string]bool{}
	}
	if it.seen[k] {
		return
	}
	it.seen[k] = true
	w.c.Fail(f)
}

// failDiff records the failure(s) behind one difference reported by c19Cmp.
func (w *c19W) failDiff(it *c19Item, diff, prefix string, f mc.Failure) {
	if rest, ok := strings.CutPrefix(diff, "emptylist+"); ok {
		w.failDiff(it, "emptylist", prefix, f)
		w.failDiff(it, rest, prefix, f)
		return
	}
	switch diff {
	case "order":
		f.Sig = c19SigOrder
	case "emptylist":
		f.Sig = c19SigEmptyList
	default:
		f.Sig = ""
	}
	f.Bucket = prefix + diff
	w.fail(it, f)
}

// ------------------------------------------------------------------ (k) hostile member names, (i) parsed numbers changed in place

// c19HostileKeys: every hostile text of the value alphabet, and more control / private-use /
// tag characters, as a member NAME (alone, beside another member, one level down).
func c19HostileKeys() []*c19N {
	var keys []string
	for _, l := range c19LeavesFull {
		if l.K == 't' {
			keys = append(keys, l.S)
		}
	}
	for _, ch := range []rune{0x01, 0x07, 0x08, 0x0B, 0x0C, 0x0E, 0x1B, 0x80, 0x9F, 0xAD, 0xFFFD, 0xFFFE, 0xE000, 0xE0001, 0x10FFFD, 0x10FFFF} {
		keys = append(keys, string(ch), "a"+string(ch)+"b")
	}
	var out []*c19N
	for _, k := range keys {
		out = append(out, &c19N{K: 'd', Keys: []string{k}, Items: []*c19N{c19Num(1)}})
		if k != "z" {
			out = append(out, &c19N{K: 'd', Keys: []string{"z", k}, Items: []*c19N{c19Num(1), c19Text(k)}})
		}
		out = append(out, &c19N{K: 'd', Keys: []string{"o"}, Items: []*c19N{{K: 'l', Items: []*c19N{{K: 'd', Keys: []string{k}, Items: []*c19N{{K: 'z'}}}}}}})
	}
	return out
}

// (i): a number of a parsed document is changed in place WITHOUT being bound first
// (以（解析JSON：T）#“n”（自增：5）); parsing the same text again still gives the document.
func (w *c19W) checkParsedInPlace(k int) {
	c := w.c
	doc := fmt.Sprintf(`{"n":%d,"l":[%d,%d]}`, k, k, k+1)
	src := "导入《@JSON》\n输入T\n以（解析JSON：T）#“n”（自增：5）\n以（解析JSON：T）#“l”#1（自减：3）\n输出（生成JSON：（解析JSON：T））"
	o := zn.RunReal(src, map[string]r.Element{"T": value.NewString(doc)})
	c.Eval(true)
	c.Stat("i_parsed_numbers_changed_in_place", 1)
	os, isText := o.Elem.(*value.String)
	if o.Panic != "" || o.Err != nil || !isText || os == nil || os.GetValue() != doc {
		kind := "mismatch"
		if o.Panic != "" {
			kind = "panic"
		}
		c.Fail(mc.Failure{Kind: kind, Bucket: "i:parsed-in-place", Case: mc.J(c19Case{Check: "i", Rank: int64(k), Variant: src}.withDoc(doc, "in-place", true)),
			Expected: "解析JSON of the same text gives the document again: " + doc, Observed: c19ShowOutcome(o)})
	}
}

// ------------------------------------------------------------------ (h) dictionaries that were copied and changed

// (h): A is copied to B, B loses its first key and gains a new one; 生成JSON of A
// is the text of the untouched dictionary and 生成JSON of B the text of the changed one.
func (w *c19W) checkCopied(it *c19Item) {
	c := w.c
	d := it.d
	if len(d.Keys) == 0 || !it.gen {
		return
	}
	for _, k := range d.Keys {
		if k == "新" {
			return
		}
	}
	changed := &c19N{K: 'd', Keys: append(append([]string{}, d.Keys[1:]...), "新"), Items: append(append([]*c19N{}, d.Items[1:]...), c19Num(1))}
	gb := c19Generate(changed)
	wantB, ok := gb.text()
	if !ok {
		return
	}
	src := "导入《@JSON》\n输入A\n令B = A\n以B（移除：“" + zn.EncodeStr(d.Keys[0]) + "”）\n以B（写入：“新”、1）\n输出【（生成JSON：A），（生成JSON：B）】"
	o := zn.RunReal(src, map[string]r.Element{"A": zn.ToElem(d.toV())})
	c.Eval(len(d.Keys) >= 2)
	c.Stat("h_copied_and_changed_dictionaries", 1)
	cs := it.cs("h")
	cs.Variant = src
	var got []string
	if arr, isArr := o.Elem.(*value.Array); isArr && arr != nil {
		got, _ = c14Strings(arr)
	}
	if o.Panic != "" || o.Err != nil || len(got) != 2 || got[0] != it.text || got[1] != wantB {
		kind := "mismatch"
		if o.Panic != "" {
			kind = "panic"
		}
		w.fail(it, mc.Failure{Kind: kind, Bucket: "h:copied", Case: mc.J(cs), Expected: "【" + c14Clip(it.text) + "，" + c14Clip(wantB) + "】 (the copy's changes do not show in the original's JSON, and the copy's JSON follows its own key order)", Observed: c19ShowOutcome(o)})
	}
}

// ------------------------------------------------------------------ (g) shared sub-values

// A dictionary may hold the SAME list / dictionary object twice (a literal that
// names one variable twice, or two 写入 of one value): it is not cyclic and is
// JSON-representable, so 生成JSON must serialise it like the unshared copy.
const c19ShareShapes = 4

func c19ShareCount(g *c19Gen) int64 {
	t := int64(0)
	for n := 1; n <= 3; n++ {
		t += g.val(n, 2)
	}
	return t * c19ShareShapes
}

func c19ShareCase(g *c19Gen, k int64) (x *c19N, shape int) {
	shape = int(k % c19ShareShapes)
	k /= c19ShareShapes
	for n := 1; n <= 3; n++ {
		if k < g.val(n, 2) {
			return g.unrankVal(n, 2, k), shape
		}
		k -= g.val(n, 2)
	}
	return &c19N{K: 'l'}, shape
}

// c19ShareBuild: the dictionary of the given shape around x, as an unshared tree
// and as a real value in which both occurrences of x are one object.
func c19ShareBuild(x *c19N, shape int) (*c19N, r.Element, string) {
	xe := zn.ToElem(x.toV())
	kv := func(k string, v r.Element) value.KVPair { return value.KVPair{Key: k, Value: v} }
	dict := func(keys []string, vals []*c19N) *c19N { return &c19N{K: 'd', Keys: keys, Items: vals} }
	switch shape {
	case 0:
		return dict([]string{"a", "b"}, []*c19N{x, x}), value.NewHashMap([]value.KVPair{kv("a", xe), kv("b", xe)}), "【“a” = X，“b” = X】"
	case 1:
		return dict([]string{"a"}, []*c19N{{K: 'l', Items: []*c19N{x, x}}}), value.NewHashMap([]value.KVPair{kv("a", value.NewArray([]r.Element{xe, xe}))}), "【“a” = 【X，X】】"
	case 2:
		return dict([]string{"a", "b"}, []*c19N{x, dict([]string{"a"}, []*c19N{x})}),
			value.NewHashMap([]value.KVPair{kv("a", xe), kv("b", value.NewHashMap([]value.KVPair{kv("a", xe)}))}), "【“a” = X，“b” = 【“a” = X】】"
	}
	return dict([]string{"a", "b"}, []*c19N{{K: 'l', Items: []*c19N{x}}, x}),
		value.NewHashMap([]value.KVPair{kv("a", value.NewArray([]r.Element{xe})), kv("b", xe)}), "【“a” = 【X】，“b” = X】"
}

func (w *c19W) checkShared(g *c19Gen, k int64) {
	c := w.c
	x, shape := c19ShareCase(g, k)
	d, shared, lit := c19ShareBuild(x, shape)
	cs := mc.J(c19Case{Check: "g", Level: g.name, Rank: k, Dict: d.desc(), Shown: zn.Display(d.toV()), Variant: lit})
	container := x.K == 'l' || x.K == 'd'
	c.Eval(container)
	c.Stat("g_shared_subvalue_dictionaries", 1)
	plain := c19Generate(d)
	want, ok := plain.text()
	if !ok {
		return // the unshared dictionary itself is not serialised: sub-check (b) reports that
	}
	got := c19Call(libJson.FN_generateJson, shared)
	if txt, ok := got.text(); !ok || txt != want {
		kind := "mismatch"
		if got.panic != "" {
			kind = "panic"
		}
		c.Fail(mc.Failure{Kind: kind, Bucket: "g:shared", Case: cs, Expected: "生成JSON of " + lit + " where X is ONE value " + x.show() + " = " + c14Clip(want) + " (the same text as for two separate copies)", Observed: got.show()})
		return
	}
	// through a program: a literal naming the input variable twice
	o := zn.RunReal("导入《@JSON》\n输入X\n输出（生成JSON："+lit+"）", map[string]r.Element{"X": zn.ToElem(x.toV())})
	c.Stat("g_end_to_end_runs", 1)
	os, isText := o.Elem.(*value.String)
	if o.Panic != "" || o.Err != nil || !isText || os == nil || os.GetValue() != want {
		kind := "mismatch"
		if o.Panic != "" {
			kind = "panic"
		}
		c.Fail(mc.Failure{Kind: kind, Bucket: "g:shared-e2e", Case: cs, Expected: "输出（生成JSON：" + lit + "） gives " + c14Clip(want), Observed: c19ShowOutcome(o)})
	}
}

// ------------------------------------------------------------------ sub-checks

// (b) + (c): needs no oracle.
func (w *c19W) checkGo(it *c19Item, reps int, replayOnly string) {
	c := w.c
	g := c19Generate(it.d)
	txt, ok := g.text()
	if g.panic != "" || g.err != nil || !ok {
		if replayOnly == "" || replayOnly == "a" || replayOnly == "b" {
			kind := "mismatch"
			if g.panic != "" {
				kind = "panic"
			}
			w.fail(it, mc.Failure{Kind: kind, Bucket: "generate:failed", Case: mc.J(it.cs("b")), Expected: "a JSON text for the JSON-representable dictionary " + it.d.show(), Observed: g.show()})
		}
		return
	}
	it.text, it.gen = txt, true
	if replayOnly == "" || replayOnly == "b" {
		if !it.d.multiKey() && reps > 2 {
			reps = 2
		}
		pg, diff, n := c19ParseStable(txt, it.d, reps)
		c.Eval(it.d.nontrivial(true))
		c.Stat("b_roundtrip_dictionaries", 1)
		c.Stat("b_parses", int64(n))
		if strings.HasSuffix(diff, "order") {
			// the parser is only to blame if the text lists the members in d's order
			doc, err := c19ReadOrdered(txt)
			if ds := ""; err == nil {
				ds = doc.canonS(false, false)
				if ds != it.d.canonS(false, false) && ds != it.d.canonS(false, true) {
					diff = strings.TrimSuffix(diff, "order") + "generated-order"
				}
			}
		}
		if diff != "" {
			kind := "mismatch"
			if pg.panic != "" {
				kind = "panic"
			}
			w.failDiff(it, diff, "b:", mc.Failure{Kind: kind, Case: mc.J(it.cs("b")),
				Expected: "解析JSON(" + c14Clip(txt) + ") == " + it.d.show() + " (keys in document order)", Observed: pg.show(), Detail: fmt.Sprintf("on parse %d of the same text", n)})
		}
	}
	if replayOnly == "" || replayOnly == "c" {
		runs := 1
		if replayOnly == "c" {
			runs = 64
		}
		for i := 0; i < runs; i++ {
			o := zn.RunReal(c19ProgEq, map[string]r.Element{"D": zn.ToElem(it.d.toV())})
			if i == 0 {
				c.Eval(it.d.nontrivial(true))
				c.Stat("c_in_language_equality_runs", 1)
			}
			if o.Panic != "" || o.Err != nil || o.Val != "真" {
				kind := "mismatch"
				if o.Panic != "" {
					kind = "panic"
				}
				// same root cause as (b) if the direct round trip differs in value
				sig := ""
				if pg := c19Parse(txt); pg.err == nil && pg.panic == "" {
					if d := c19Cmp(it.d, pg.elem); strings.HasPrefix(d, "emptylist") {
						sig = c19SigEmptyList
					}
				}
				w.fail(it, mc.Failure{Sig: sig, Kind: kind, Bucket: "c:in-language", Case: mc.J(it.cs("c")), Expected: "真 from: 输出（解析JSON：（生成JSON：D）） 为 D", Observed: c19ShowOutcome(o)})
				break
			}
		}
	}
}

// (a): the oracle's reading of 生成JSON(d).
func (w *c19W) checkRead(it *c19Item, rd *c19Read) {
	c := w.c
	c.Eval(it.d.nontrivial(true))
	c.Stat("a_generated_texts_read_by_python", 1)
	if !rd.OK {
		w.fail(it, mc.Failure{Kind: "mismatch", Bucket: "a:invalid-json", Case: mc.J(it.cs("a")), Expected: "RFC 8259-valid text for " + it.d.show(), Observed: fmt.Sprintf("text %q rejected by Python json.loads: %s", c14Clip(it.text), rd.Err)})
		return
	}
	got := c19FromPy(rd.V)
	if got.canonS(false, false) == it.d.canonS(false, false) {
		return
	}
	diff, sig := "value", ""
	switch got.canonS(true, false) {
	case it.d.canonS(true, false):
		diff = "order"
	case it.d.canonS(true, true):
		diff, sig = "emptylist", c19SigEmptyList
	}
	w.fail(it, mc.Failure{Sig: sig, Kind: "mismatch", Bucket: "a:" + diff, Case: mc.J(it.cs("a")),
		Expected: "a standard parser reads the text back as " + it.d.canonS(false, false), Observed: fmt.Sprintf("text %q read by Python as %s", c14Clip(it.text), got.canonS(false, false))})
}

// (d): one document written by Python for d.
func (w *c19W) checkDoc(it *c19Item, variant, doc string, reps int) {
	c := w.c
	pg, diff, n := c19ParseStable(doc, it.d, reps)
	c.Eval(it.d.nontrivial(true))
	c.Stat("d_python_documents_parsed", 1)
	c.Stat("d_parses", int64(n))
	if diff == "" {
		return
	}
	kind := "mismatch"
	if pg.panic != "" {
		kind = "panic"
	}
	w.failDiff(it, diff, "d:", mc.Failure{Kind: kind, Case: mc.J(it.cs("d").withDoc(doc, variant, false)),
		Expected: "解析JSON(" + c14Clip(doc) + ") == " + it.d.show() + " (keys in document order)", Observed: pg.show()})
}

var c19MutAlpha = []rune{'"', '\\', '{', '}', '[', ']', ',', ':', '0', 'x'}

type c19Mut struct {
	doc  string
	what string
}

func c19Mutants(doc string) []c19Mut {
	rs := []rune(doc)
	var out []c19Mut
	for i := range rs {
		m := append(append([]rune{}, rs[:i]...), rs[i+1:]...)
		out = append(out, c19Mut{string(m), fmt.Sprintf("delete@%d", i)})
		for _, ch := range c19MutAlpha {
			if rs[i] == ch {
				continue
			}
			m := append([]rune{}, rs...)
			m[i] = ch
			out = append(out, c19Mut{string(m), fmt.Sprintf("replace@%d:%c", i, ch)})
		}
	}
	for _, ch := range c19MutAlpha {
		out = append(out, c19Mut{doc + string(ch), fmt.Sprintf("append:%c", ch)})
	}
	out = append(out, c19Mut{doc + doc, "append:document"})
	// nothing at all, and nothing but white space
	out = append(out, c19Mut{"", "empty"}, c19Mut{" ", "blank"}, c19Mut{" \t\r\n", "blanks"})
	return out
}

// (e): one (possibly corrupted) document against the oracle's verdict.
// Returns the class it was judged in: invalid | valid | dont_care.
func (w *c19W) checkCorrupt(it *c19Item, m c19Mut, rd *c19Read, e2e bool, reps int) string {
	cs := func() json.RawMessage { return mc.J(it.cs("e").withDoc(m.doc, m.what, e2e)) }
	g := c19Parse(m.doc)
	if g.panic != "" {
		w.fail(it, mc.Failure{Kind: "panic", Bucket: "e:panic", Case: cs(), Expected: "a value or a catchable exception", Observed: g.show()})
		return "panic"
	}
	var o zn.Outcome
	ran := false
	run := func() zn.Outcome {
		if !ran {
			o = zn.RunReal(c19ProgParse, map[string]r.Element{"T": value.NewString(m.doc)})
			ran = true
			w.c.Stat("e_documents_through_program_with_handler", 1)
		}
		return o
	}
	// catchable: the error is the exception class a 拦截异常 handler takes; any
	// other error class is decided by running the program with the handler.
	catchable := func() (bool, string) {
		if g.cls != nil && g.cls.Kind == "exception" && !e2e {
			return true, ""
		}
		o := run()
		if o.Panic == "" && o.Err == nil && o.Val == c19Caught {
			return true, ""
		}
		return false, c19ShowOutcome(o)
	}
	switch {
	case !rd.OK:
		if g.err == nil {
			w.fail(it, mc.Failure{Kind: "mismatch", Bucket: "e:malformed-accepted", Case: cs(), Expected: "an exception (malformed JSON; Python: " + rd.Err + ")", Observed: g.show()})
			return "invalid"
		}
		if ok, obs := catchable(); !ok {
			w.fail(it, mc.Failure{Kind: "mismatch", Bucket: "e:not-catchable", Case: cs(), Expected: "“caught” from the program-level 拦截异常 handler", Observed: obs})
		}
		return "invalid"
	case rd.dontCare() != "":
		if g.err != nil {
			if ok, obs := catchable(); !ok {
				w.fail(it, mc.Failure{Kind: "mismatch", Bucket: "e:not-catchable", Case: cs(), Expected: "a value or “caught” from the 拦截异常 handler (dont_care: " + rd.dontCare() + ")", Observed: obs})
			}
		} else if e2e {
			if o := run(); o.Panic != "" || o.Err != nil {
				w.fail(it, mc.Failure{Kind: "mismatch", Bucket: "e:not-catchable", Case: cs(), Expected: "a value or “caught” (dont_care: " + rd.dontCare() + ")", Observed: c19ShowOutcome(o)})
			}
		}
		return "dont_care"
	}
	exp := c19FromPy(rd.V)
	if g.err != nil {
		w.fail(it, mc.Failure{Kind: "mismatch", Bucket: "e:valid-rejected", Case: cs(), Expected: "value " + exp.show() + " (valid JSON per Python)", Observed: g.show()})
		return "valid"
	}
	diff := c19Cmp(exp, g.elem)
	for i := 1; i < reps && diff == ""; i++ {
		if g = c19Parse(m.doc); g.err != nil || g.panic != "" {
			diff = "value"
		} else {
			diff = c19Cmp(exp, g.elem)
		}
	}
	if diff != "" {
		w.failDiff(it, diff, "e:valid:", mc.Failure{Kind: "mismatch", Case: cs(), Expected: "value " + exp.show() + " (Python's reading, keys in document order)", Observed: g.show()})
		return "valid"
	}
	if e2e {
		o := run()
		if o.Panic != "" || o.Err != nil || o.Val == c19Caught || c19Cmp(exp, o.Elem) == "value" {
			w.fail(it, mc.Failure{Kind: "mismatch", Bucket: "e:valid:program", Case: cs(), Expected: "value " + exp.show() + " from the program", Observed: c19ShowOutcome(o)})
		}
	}
	return "valid"
}

// (f): a dictionary containing a non-finite number.
func (w *c19W) checkNonFinite(it *c19Item) {
	c := w.c
	c.Eval(true)
	c.Stat("f_nonfinite_dictionaries", 1)
	g := c19Generate(it.d)
	cs := func() json.RawMessage { return mc.J(it.cs("f")) }
	exp := "an exception from 生成JSON that 拦截异常 catches (" + it.d.show() + " is not JSON-representable)"
	if g.panic != "" {
		w.fail(it, mc.Failure{Kind: "panic", Bucket: "f:panic", Case: cs(), Expected: exp, Observed: g.show()})
		return
	}
	if g.err == nil {
		w.fail(it, mc.Failure{Kind: "mismatch", Bucket: "f:accepted", Case: cs(), Expected: exp, Observed: g.show()})
		return
	}
	o := zn.RunReal(c19ProgGen, map[string]r.Element{"D": zn.ToElem(it.d.toV())})
	if o.Panic != "" || o.Err != nil || o.Val != c19Caught {
		w.fail(it, mc.Failure{Kind: "mismatch", Bucket: "f:not-catchable", Case: cs(), Expected: "“caught” from the program-level 拦截异常 handler", Observed: c19ShowOutcome(o)})
	}
}

// top-level documents that are not objects: dont_care, only "no crash, and an
// error is catchable".
var c19TopDocs = []string{"null", "[]", "[1]", "1", "\"x\"", "true", "-0", "[{\"a\":1}]"}

// ------------------------------------------------------------------ chunk processing

// process runs every sub-check on a chunk of dictionaries (one oracle round trip
// for (a)+(d), one per dictionary for (e)).
func (w *c19W) process(items []*c19Item) {
	c := w.c
	for _, it := range items {
		c.CaseIdx(it.idx)
		c.Stat("dictionaries", 1)
		if it.d.multiKey() {
			c.Stat("dictionaries_with_2_or_more_keys_at_some_level", 1)
		}
		w.checkGo(it, c19Repeats, "")
		if it.nodes <= 4 {
			w.checkCopied(it)
		}
	}
	if w.py == nil || w.py.dead != nil {
		return
	}
	req := make([]map[string]any, len(items))
	for i, it := range items {
		q := map[string]any{"d": it.d.desc()}
		if it.gen {
			if utf8.ValidString(it.text) {
				q["t"] = it.text
			} else {
				w.fail(it, mc.Failure{Kind: "mismatch", Bucket: "a:not-utf8", Case: mc.J(it.cs("a")), Expected: "UTF-8 text (RFC 8259 section 8.1)", Observed: fmt.Sprintf("%q", it.text)})
			}
		}
		req[i] = q
	}
	c.CaseIdx(items[0].idx)
	res, err := w.py.cases(req)
	if err != nil {
		c.Inexhaustive("oracle lost, Python-dependent sub-checks (a)(d)(e) stopped: " + err.Error())
		return
	}
	for i, it := range items {
		c.CaseIdx(it.idx)
		if res[i].Read != nil {
			w.checkRead(it, res[i].Read)
		}
		for _, d := range res[i].Docs {
			w.checkDoc(it, d[0], d[1], c19DocRepeats)
		}
		if !w.sampledD && c.WantSample() && it.gen && it.nodes >= 3 && it.d.multiKey() && it.rank%7 == 3 {
			w.sampledD = true
			c.Sample(map[string]any{"dictionary": zn.Display(it.d.toV()), "description": it.d.desc(), "生成JSON": it.text, "python_documents": res[i].Docs})
		}
		if !it.corr || len(res[i].Docs) == 0 {
			continue
		}
		muts := c19Mutants(res[i].Docs[0][1])
		docs := make([]string, len(muts))
		for k, m := range muts {
			docs[k] = m.doc
		}
		rds, err := w.py.loads(docs)
		if err != nil {
			c.Inexhaustive("oracle lost, Python-dependent sub-checks (a)(d)(e) stopped: " + err.Error())
			return
		}
		c.Stat("e_dictionaries_corrupted", 1)
		for k, m := range muts {
			if k&63 == 0 {
				c.CaseIdx(it.idx)
			}
			cl := w.checkCorrupt(it, m, &rds[k], it.e2e, 1)
			c.Eval(true)
			c.Stat("e_corrupted_documents", 1)
			c.Stat("e_corrupted_"+cl, 1)
			if cl == "dont_care" {
				c.Stat("e_dont_care_"+strings.ReplaceAll(rds[k].dontCare(), " ", "_"), 1)
			}
			if cl == "valid" && !w.sampledE && c.WantSample() && it.rank%13 == 6 {
				w.sampledE = true
				c.Sample(map[string]any{"sub_check": "e", "dictionary": zn.Display(it.d.toV()), "document": res[i].Docs[0][1], "corruptions": len(muts),
					"a_still_valid_corruption": m.what + " -> " + m.doc, "python_reads_it_as": c19FromPy(rds[k].V).canonS(false, false)})
			}
		}
	}
}

// ------------------------------------------------------------------ plan

type c19Plan struct {
	gen        *c19Gen
	minN, maxN int
	corrN      int // (e) for dictionaries of <= corrN nodes
	e2eN       int // (e) through programs for dictionaries of <= e2eN nodes
	nonFinite  bool
}

func c19Plans(tier string) []c19Plan {
	a := c19NewGen("A:full-leaf-alphabet", c19LeavesFull)
	b := c19NewGen("B:three-leaves", c19LeavesSmall)
	f := c19NewGen("F:non-finite", c19LeavesNonFinite)
	if tier == "thorough" {
		return []c19Plan{
			{gen: a, minN: 1, maxN: 4, corrN: 3, e2eN: 3},
			{gen: b, minN: 5, maxN: 6, corrN: 5, e2eN: 0},
			{gen: f, minN: 2, maxN: 5, nonFinite: true},
		}
	}
	return []c19Plan{
		{gen: a, minN: 1, maxN: 3, corrN: 3, e2eN: 2},
		{gen: b, minN: 4, maxN: 5, corrN: 4, e2eN: 0},
		{gen: f, minN: 2, maxN: 4, nonFinite: true},
	}
}

func init() {
	mc.Register(&mc.Check{
		ID:    "C19",
		Level: "exploration",
		Rule: "E1 exhaustive by rank/unrank over dictionaries counted in nodes (every value, the root included, is one node; root depth 1, containers nested to depth <= 3, <= 3 ordered distinct keys per object from {b, a, empty, one double quote}; lists hold any value). " +
			"Level A: full leaf alphabet (18 texts over \" \\ / U+0000 U+001F U+007F é 你 😀 U+2028 incl. 6 two-character ones and <>&, the empty text; numbers 0 -0 1 -1 0.1 1e21 1e-7 5e-324 max-double 2^53+1; 真 假 空; empty list; empty dictionary), all dictionaries of <= 3 nodes (quick) / <= 4 nodes (thorough). " +
			"Level B: structure with three scalar leaves (text \", 1e21, 空) plus empty list and empty dictionary, the node counts above level A's up to 5 (quick) / 6 (thorough). " +
			"Per dictionary: (a) Python's strict reading of 生成JSON(d), (b) 解析JSON(生成JSON(d)) == d under zn.CanonElem with key order, parsed 43 times (+3 per document of (d): >= 64 parses of the same member order per dictionary), (c) the same through in-language 为, (d) 7-8 documents written by Python json.dumps (compact/indent=2 x ensure_ascii on/off, default separators, numbers as floats, whitespace-padded, \\/ escapes) parsed back, " +
			"(e) for dictionaries of <= 3 nodes (level A) and <= 4 / <= 5 nodes (level B): every single-character deletion, every replacement by one of \" \\ { } [ ] , : 0 x, every one-character suffix and the doubled document, judged by Python (valid -> same value, invalid -> exception catchable by 拦截异常; through a program with a handler for level A <= 2 nodes quick / <= 3 nodes thorough, by the error class otherwise). " +
			"(k) every hostile text (control, private-use, tag, non-characters, quotes, backslashes) as a member NAME - alone, beside another member, inside a list in a member - through (a)-(d). (i) for every integer -2..300: a number of a parsed document is changed in place without being bound, parsing the same text again gives the document. (h) every dictionary of <= 4 nodes copied to a second name, the copy losing its first key and gaining a new one: 生成JSON of the original is unchanged and 生成JSON of the copy follows the copy. (g) every value of <= 3 nodes (level B) held twice AS ONE OBJECT by a dictionary of 4 shapes (two keys, twice in a list, once nested, list and key): 生成JSON gives the text of the unshared copy, directly and through a literal naming one input variable twice. " +
			"Level F: every dictionary of <= 4 (quick) / <= 5 (thorough) nodes over leaves {NaN, +Inf, -Inf, 1, é} that contains a non-finite number: 生成JSON must raise catchably. Non-trivial: more than a one-member object of a plain ASCII text / small integer / 真 假 空.",
		Assumptions: []string{
			"numbers are compared as doubles under ==: -0 and 0 are equal (Python reads -0 as the integer 0), 2^53+1 is compared after rounding to the nearest double; how a number is spelled (1e+21, 1.0, \\u escapes, HTML-safe \\u003c) is free as long as the document is RFC 8259-valid",
			"key order: before the repair of 解析JSON the order came from Go's randomised map iteration (signature parse-key-order), so a single parse proves nothing; a dictionary with two or more keys at some level is parsed at least 64 times per run (43 x the text of 生成JSON, 3 x each of Python's 7-8 documents; 256 x on replay) and fails if any parse is out of document order (a 2-key object comes back reversed with probability 1/8 per parse, so a case escapes with probability < 2e-4); the order under every possible map iteration order is covered properly by C11, which controls map iteration",
			"at most one failure per dictionary and signature is recorded (the same defect shows in (a)-(e))",
			"documents whose top level is not an object, that repeat a key within an object, that contain an unpaired surrogate escape or a number beyond the double range are dont_care (the manual only defines objects <-> 列表; RFC 8259 calls the others unpredictable): only 'a value, or an exception the handler catches; no crash' is required",
			"corruptions: where the corrupted document is run through a program, “caught” from the program-level 拦截异常 handler is required; for the larger dictionaries the error returned by the library function must be of the exception class (the class 拦截异常 takes), any other class is decided by running the program",
			"in-language 为 on dictionaries is taken as implemented (C07/C12 cover its strength); (c) only requires 真",
			"Python 3's json module (parse_constant rejecting NaN/Infinity, object_pairs_hook keeping member order and duplicates) is the RFC 8259 reader and the independent writer; without python3 only (b), (c), (f) run and the run is reported inexhaustive",
			"keys and leaves outside the listed alphabets, deeper nesting, more than 3 keys per object, insertions other than at the end and multi-character corruptions are not covered",
		},
		Budget: func(tier string) time.Duration {
			if tier == "thorough" {
				return 14 * time.Minute
			}
			return 100 * time.Second
		},
		Run:    c19Run,
		Replay: c19Replay,
	})
}

func c19Run(c *mc.Ctx) {
	defer debug.SetGCPercent(debug.SetGCPercent(800))
	w := &c19W{c: c}
	py, err := c19StartPy()
	if err != nil {
		c.Inexhaustive("python3 oracle unavailable, sub-checks (a) (d) (e) skipped: " + err.Error())
	} else {
		w.py = py
		defer py.close()
	}
	base := int64(0)
	for _, pl := range c19Plans(c.Tier) {
		for n := pl.minN; n <= pl.maxN; n++ {
			total := pl.gen.root(n)
			lbase, nn, g := base, n, pl.gen
			c.Describe = func(idx int64) json.RawMessage {
				d := g.unrankRoot(nn, idx-lbase)
				check := "all"
				if pl.nonFinite {
					check = "f"
				}
				return mc.J(c19Case{Check: check, Level: g.name, Nodes: nn, Rank: idx - lbase, Dict: d.desc(), Shown: zn.Display(d.toV())})
			}
			var chunk []*c19Item
			flush := func() {
				if len(chunk) > 0 {
					w.process(chunk)
					chunk = chunk[:0]
				}
			}
			for k := int64(0); k < total; k++ {
				idx := base + k
				if !c.Mine(idx) {
					continue
				}
				if (k/int64(c.NShards))&0xFF == 0 && c.Expired() {
					flush()
					c.Note(fmt.Sprintf("deadline hit in level %s at %d nodes", g.name, n))
					return
				}
				it := &c19Item{level: g.name, nodes: n, rank: k, idx: idx, d: g.unrankRoot(n, k), corr: n <= pl.corrN, e2e: n <= pl.e2eN}
				if pl.nonFinite {
					c.CaseIdx(idx)
					if !it.d.nonFinite() {
						c.Stat("f_skipped_finite_only", 1)
						continue
					}
					w.checkNonFinite(it)
					if !w.sampledF && c.WantSample() && n == 3 && k%97 == 5 {
						w.sampledF = true
						c.Sample(map[string]any{"sub_check": "f", "dictionary": zn.Display(it.d.toV()), "asserted": "（生成JSON：D） inside a program with 拦截异常 gives “caught”"})
					}
					continue
				}
				chunk = append(chunk, it)
				if len(chunk) >= 32 || (it.corr && len(chunk) >= 8) {
					flush()
				}
			}
			flush()
			base += total
			what := "(a)(b)(c)(d)"
			switch {
			case pl.nonFinite:
				what = "(f), those containing NaN/+Inf/-Inf"
			case n <= pl.e2eN:
				what += " and (e) every corruption, also through a program with a 拦截异常 handler"
			case n <= pl.corrN:
				what += " and (e) every corruption"
			}
			c.Bound(fmt.Sprintf("level_%s_dictionaries_of_%d_nodes", strings.SplitN(g.name, ":", 2)[0], n), fmt.Sprintf("complete: %d dictionaries, %s", total, what))
		}
	}
	// (k) hostile member names through the whole pipeline; (i) parsed numbers changed in place
	{
		hk := c19HostileKeys()
		kb := base
		c.Describe = func(idx int64) json.RawMessage {
			d := hk[idx-kb]
			return mc.J(c19Case{Check: "all", Level: "K:hostile-member-names", Nodes: 2, Rank: idx - kb, Dict: d.desc(), Shown: zn.Display(d.toV())})
		}
		var chunk []*c19Item
		for k, d := range hk {
			if !c.Mine(base + int64(k)) {
				continue
			}
			chunk = append(chunk, &c19Item{level: "K:hostile-member-names", nodes: 2, rank: int64(k), idx: base + int64(k), d: d, corr: false, e2e: false})
			if len(chunk) >= 16 {
				w.process(chunk)
				chunk = chunk[:0]
			}
		}
		if len(chunk) > 0 {
			w.process(chunk)
		}
		base += int64(len(hk))
		c.Bound("k_hostile_member_names", fmt.Sprintf("complete: %d dictionaries", len(hk)))
		ib := base
		c.Describe = func(idx int64) json.RawMessage { return mc.J(c19Case{Check: "i", Rank: idx - ib}) }
		for k := -2; k <= 300; k++ {
			if !c.Mine(base + int64(k+2)) {
				continue
			}
			c.CaseIdx(base + int64(k+2))
			w.checkParsedInPlace(k)
		}
		base += 303
		c.Bound("i_parsed_numbers_changed_in_place", "complete: every integer -2..300")
	}
	// (g) shared sub-values
	{
		g := c19NewGen("B:three-leaves", c19LeavesSmall)
		total := c19ShareCount(g)
		gb := base
		c.Describe = func(idx int64) json.RawMessage {
			x, shape := c19ShareCase(g, idx-gb)
			d, _, lit := c19ShareBuild(x, shape)
			return mc.J(c19Case{Check: "g", Level: g.name, Rank: idx - gb, Dict: d.desc(), Shown: zn.Display(d.toV()), Variant: lit})
		}
		for k := int64(0); k < total; k++ {
			if !c.Mine(base + k) {
				continue
			}
			c.CaseIdx(base + k)
			w.checkShared(g, k)
		}
		base += total
		c.Bound("g_shared_subvalues", fmt.Sprintf("complete: every value of <= 3 nodes x %d shapes holding it twice as one object: %d dictionaries", c19ShareShapes, total))
	}
	// top-level non-objects: dont_care
	for k, doc := range c19TopDocs {
		idx := base + int64(k)
		if !c.Mine(idx) {
			continue
		}
		dd := doc
		c.Case(idx, func() json.RawMessage {
			return mc.J(c19Case{Check: "top", Rank: int64(k)}.withDoc(dd, "top-level", true))
		})
		it := &c19Item{idx: idx, d: &c19N{K: 'd'}}
		w.checkCorrupt(it, c19Mut{doc, "top-level"}, &c19Read{OK: true, Top: "scalar"}, true, 1)
		c.Eval(false)
		c.Stat("top_level_non_object_documents_dont_care", 1)
	}
}

func c19Replay(c *mc.Ctx, raw json.RawMessage) {
	var cs c19Case
	if err := json.Unmarshal(raw, &cs); err != nil {
		c.Fail(mc.Failure{Kind: "crash", Observed: "bad replay case: " + err.Error()})
		return
	}
	d := &c19N{K: 'd'}
	if cs.Dict != nil {
		var err error
		if d, err = c19FromDesc(cs.Dict); err != nil || d.K != 'd' {
			c.Fail(mc.Failure{Kind: "crash", Observed: fmt.Sprintf("bad dictionary description: %v", err)})
			return
		}
	}
	w := &c19W{c: c}
	it := &c19Item{level: cs.Level, nodes: cs.Nodes, rank: cs.Rank, d: d}
	doc := string(toRunes(cs.Doc))
	needPy := cs.Check == "a" || cs.Check == "e" || cs.Check == "all"
	if needPy {
		py, err := c19StartPy()
		if err != nil {
			c.Fail(mc.Failure{Kind: "crash", Case: raw, Observed: "oracle: " + err.Error()})
			return
		}
		w.py = py
		defer py.close()
	}
	switch cs.Check {
	case "b", "c":
		w.checkGo(it, c19ReplayRepeats, cs.Check)
	case "a":
		w.checkGo(it, 1, "a")
		if !it.gen {
			return
		}
		rds, err := w.py.loads([]string{it.text})
		if err != nil {
			c.Fail(mc.Failure{Kind: "crash", Case: raw, Observed: err.Error()})
			return
		}
		w.checkRead(it, &rds[0])
	case "d":
		w.checkDoc(it, cs.Variant, doc, c19ReplayRepeats)
	case "e":
		rds, err := w.py.loads([]string{doc})
		if err != nil {
			c.Fail(mc.Failure{Kind: "crash", Case: raw, Observed: err.Error()})
			return
		}
		w.checkCorrupt(it, c19Mut{doc, cs.Variant}, &rds[0], cs.E2E, c19ReplayRepeats)
	case "top":
		w.checkCorrupt(it, c19Mut{doc, cs.Variant}, &c19Read{OK: true, Top: "scalar"}, true, 1)
	case "i":
		w.checkParsedInPlace(int(cs.Rank))
	case "h":
		w.checkGo(it, 1, "a")
		w.checkCopied(it)
	case "g":
		w.checkShared(c19NewGen("B:three-leaves", c19LeavesSmall), cs.Rank)
	case "f":
		if d.nonFinite() {
			w.checkNonFinite(it)
		}
	case "all":
		it.corr, it.e2e = true, true
		w.process([]*c19Item{it})
	default:
		c.Fail(mc.Failure{Kind: "crash", Observed: "unknown check " + cs.Check})
	}
}
