package checks

// C13 — every text value round-trips through a string literal.
//
// E1: all literal bodies of length <= L over a 31-symbol critical alphabet inside
// each of the five opening quotes, lexed by the real lexer (zh.NextToken) and
// compared with a reference decoder written from manual chapters 1 and 6; plus
// the round trip text -> canonical literal -> lexer for every text <= L.

import (
	"encoding/json"
	"fmt"
	"time"

	zerr "github.com/DemoHn/Zn/pkg/error"
	"github.com/DemoHn/Zn/pkg/exec"
	r "github.com/DemoHn/Zn/pkg/runtime"
	"github.com/DemoHn/Zn/pkg/syntax"
	"github.com/DemoHn/Zn/pkg/syntax/zh"
	"github.com/DemoHn/Zn/pkg/value"

	"verif/engine/mc"
)

var c13Open = []rune{'“', '「', '‘', '『', '《'}
var c13Close = map[rune]rune{'“': '”', '「': '」', '‘': '’', '『': '』', '《': '》'}
var c13Quotes = []rune{'“', '”', '「', '」', '‘', '’', '『', '』', '《', '》'}

// critical alphabet: ten quote characters, backtick, CR, LF, letters of the
// escape names, '+', hex digits, a non-hex letter, a CJK char, space.
var c13Alpha = []rune{
	'“', '”', '「', '」', '‘', '’', '『', '』', '《', '》',
	'`', '\r', '\n',
	'C', 'R', 'L', 'F', 'T', 'A', 'B', 'S', 'P', 'K', 'U',
	'+', '0', '9', 'D', 'x', '你', ' ',
}

// letters of the escape names (part 1c: every backtick text of <= 5 of them)
var c13Esc = []rune{'C', 'R', 'L', 'F', 'T', 'A', 'B', 'S', 'P', 'K', 'U', '+', '0', 'D'}

// 16-symbol sub-alphabet for the deepest level.
var c13Sub = []rune{'“', '”', '「', '》', '`', '\r', '\n', 'C', 'R', 'L', 'F', 'U', '+', '0', 'D', 'x'}

// word-level alphabet: escape names as units, so that every documented escape
// (and its near misses) appears in short sequences.
var c13Words = []string{"`", "CRLF", "CR", "LF", "TAB", "SP", "BK", "U+", "0", "1F005", "D", "x", "“", "”", "「", "》", "\r", "\n", "10FFFF", "110000", "0000041", "00000041", "000000041"}

func c13IsQuote(ch rune) bool {
	for _, q := range c13Quotes {
		if q == ch {
			return true
		}
	}
	return false
}

type c13Out struct {
	ok  bool   // terminated
	val string // decoded value
	end int    // index just after the closing quote
	bad bool   // a U+hex escape denoted something that is not a Unicode scalar value
}

// c13Ref decodes the literal starting at src[0] (an opening quote) under one of
// three readings of "any other backtick text is kept literally":
//
//	reading 0: after a failed escape the text consumed so far is literal and
//	           scanning resumes right after it (a quote character is never
//	           consumed by a failed escape);
//	reading 1: backticks pair up left to right; a pair that is not an escape is
//	           literal text including both backticks, scanning resumes after the
//	           closing backtick;
//	reading 2: after a failed escape only the opening backtick is literal and
//	           scanning resumes at the next character.
//
// The check asserts only where all three readings agree.
func c13Ref(src []rune, reading int) c13Out {
	outs := c13RefSet(src, reading)
	return outs[0]
}

// c13RefSet returns every outcome obtainable by choosing, independently at each
// failed escape, one of the three readings (reading >= 0 pins the choice).
func c13RefSet(src []rune, reading int) []c13Out {
	seen := map[c13Out]bool{}
	var outs []c13Out
	add := func(o c13Out) {
		if !seen[o] {
			seen[o] = true
			outs = append(outs, o)
		}
	}
	open := src[0]
	closeQ := c13Close[open]
	n := len(src)
	var walk func(i, depth int, val []rune)
	isBad := func(val []rune) bool {
		for _, rr := range val {
			if rr < 0 || rr > 0x10FFFF || (rr >= 0xD800 && rr <= 0xDFFF) {
				return true
			}
		}
		return false
	}
	walk = func(i, depth int, val []rune) {
		for i < n {
			ch := src[i]
			switch {
			case ch == 0:
				add(c13Out{})
				return
			case ch == '`':
				v, adv, ok := c13Escape(src, i)
				if ok {
					val = append(val, v...)
					i += adv
					continue
				}
				for rd := 0; rd < 3; rd++ {
					if reading >= 0 && rd != reading {
						continue
					}
					nv := append([]rune{}, val...)
					ni := i
					switch rd {
					case 0:
						nv = append(nv, src[i:i+adv]...)
						ni = i + adv
					case 1:
						j := i + 1
						for j < n && src[j] != '`' && src[j] != 0 {
							j++
						}
						if j < n && src[j] == '`' {
							nv = append(nv, src[i:j+1]...)
							ni = j + 1
						} else {
							nv = append(nv, '`')
							ni = i + 1
						}
					default:
						nv = append(nv, '`')
						ni = i + 1
					}
					walk(ni, depth, nv)
				}
				return
			case ch == open:
				depth++
				val = append(val, ch)
				i++
			case ch == closeQ:
				depth--
				if depth == 0 {
					add(c13Out{ok: true, val: string(val), end: i + 1, bad: isBad(val)})
					return
				}
				val = append(val, ch)
				i++
			default:
				val = append(val, ch)
				i++
			}
		}
		add(c13Out{})
	}
	walk(1, 1, nil)
	return outs
}

// c13Escape tries to read an escape at src[i]=='`'.  On success it returns the
// denoted characters and the number of source characters consumed.  On failure
// adv is the number of characters a left-to-right matcher has looked at and
// rejected or accepted as literal: everything up to and including the first
// character that cannot continue any escape name — except that a quote
// character is never included.
func c13Escape(src []rune, i int) (v []rune, adv int, ok bool) {
	n := len(src)
	at := func(k int) rune {
		if k < n {
			return src[k]
		}
		return 0
	}
	// `q` — one quote character between backticks
	if c13IsQuote(at(i+1)) && at(i+2) == '`' {
		return []rune{at(i + 1)}, 3, true
	}
	names := []struct {
		name string
		val  []rune
	}{
		{"CRLF", []rune{'\r', '\n'}}, {"CR", []rune{'\r'}}, {"LF", []rune{'\n'}},
		{"TAB", []rune{'\t'}}, {"SP", []rune{' '}}, {"BK", []rune{'`'}},
	}
	for _, nm := range names {
		rs := []rune(nm.name)
		match := true
		for k, rr := range rs {
			if at(i+1+k) != rr {
				match = false
				break
			}
		}
		if match && at(i+1+len(rs)) == '`' {
			return nm.val, len(rs) + 2, true
		}
	}
	// U+h{1,8}
	if at(i+1) == 'U' && at(i+2) == '+' {
		k := i + 3
		var num int64
		cnt := 0
		for (at(k) >= '0' && at(k) <= '9') || (at(k) >= 'A' && at(k) <= 'F') {
			d := int64(at(k) - '0')
			if at(k) >= 'A' {
				d = int64(at(k)-'A') + 10
			}
			num = num*16 + d
			cnt++
			k++
			if cnt > 9 {
				break
			}
		}
		if cnt >= 1 && cnt <= 8 && at(k) == '`' {
			if num > 0x10FFFF {
				num = 0x7FFFFFFF
			}
			return []rune{rune(num)}, k - i + 1, true
		}
	}
	// failed: how far does a left-to-right prefix matcher get?
	all := []string{"CRLF", "CR", "LF", "TAB", "SP", "BK"}
	k := i + 1
	pref := ""
	for {
		ch := at(k)
		if ch == 0 && k >= n {
			return nil, k - i, false
		}
		if c13IsQuote(ch) {
			return nil, k - i, false
		}
		cand := pref + string(ch)
		okp := false
		for _, a := range all {
			if len(cand) <= len(a) && a[:len(cand)] == cand {
				okp = true
			}
		}
		if !okp {
			// "U+hex…" prefixes
			rs := []rune(cand)
			if rs[0] == 'U' {
				okp = true
				for idx, rr := range rs {
					switch {
					case idx == 0:
					case idx == 1:
						okp = okp && rr == '+'
					default:
						okp = okp && ((rr >= '0' && rr <= '9') || (rr >= 'A' && rr <= 'F'))
					}
				}
			}
		}
		if !okp {
			return nil, k - i + 1, false // includes the rejecting character
		}
		pref = cand
		k++
	}
}

// c13ValidScalars: does the escape-denoted value stay within Unicode scalar values?
func c13AllScalars(s string) bool {
	for _, rr := range []rune(s) {
		if rr < 0 || rr > 0x10FFFF || (rr >= 0xD800 && rr <= 0xDFFF) {
			return false
		}
	}
	return true
}

type c13Case struct {
	Mode   string `json:"mode"` // lex | e2e | roundtrip
	Source string `json:"source,omitempty"`
	Runes  []int  `json:"runes,omitempty"` // source as code points (lossless)
	Text   []int  `json:"text,omitempty"`  // roundtrip: the text value
	Enc    int    `json:"enc,omitempty"`   // roundtrip: encoder variant
	Open   int    `json:"open,omitempty"`
}

func toInts(rs []rune) []int {
	out := make([]int, len(rs))
	for i, x := range rs {
		out[i] = int(x)
	}
	return out
}
func toRunes(is []int) []rune {
	out := make([]rune, len(is))
	for i, x := range is {
		out[i] = rune(x)
	}
	return out
}

type c13Lexed struct {
	err  int // syntax error code, 0 = token
	typ  uint8
	lit  []rune
	end  int
	perr string
}

func c13Lex(src []rune) (o c13Lexed) {
	defer func() {
		if p := recover(); p != nil {
			o = c13Lexed{perr: fmt.Sprint(p)}
		}
	}()
	l := syntax.NewLexer(src)
	tk, err := zh.NextToken(l)
	if err != nil {
		if se, ok := err.(*zerr.SyntaxError); ok {
			return c13Lexed{err: se.Code}
		}
		return c13Lexed{err: -1, perr: err.Error()}
	}
	return c13Lexed{typ: tk.Type, lit: tk.Literal, end: tk.EndIdx}
}

func c13TokType(open rune) uint8 {
	switch open {
	case '‘', '『':
		return zh.TypeEnumString
	case '《':
		return zh.TypeLibString
	}
	return zh.TypeString
}

// c13CheckLex compares the real lexer with the reference on one source.
// returns (asserted, failure)
func c13CheckLex(src []rune) (bool, *mc.Failure) {
	set := c13RefSet(src, -1)
	r0 := set[0]
	var keep [96]rune
	nk := copy(keep[:], src)
	got := c13Lex(src)
	// the lexer reads its input: the same rune slice is lexed again by the next
	// Execute of a loaded script, so it must come back unchanged
	for i := 0; i < nk; i++ {
		if src[i] != keep[i] {
			orig := append([]rune{}, keep[:nk]...)
			changed := string(src)
			copy(src, orig)
			return true, &mc.Failure{Kind: "mismatch", Bucket: "source-modified", Case: mc.J(c13Case{Mode: "lex", Source: string(orig), Runes: toInts(orig)}),
				Expected: "the source text is unchanged after lexing", Observed: fmt.Sprintf("source is now %q", changed)}
		}
	}
	cs := func() json.RawMessage { return mc.J(c13Case{Mode: "lex", Source: string(src), Runes: toInts(src)}) }
	if got.perr != "" && got.err == 0 {
		return true, &mc.Failure{Kind: "panic", Case: cs(), Observed: got.perr}
	}
	for _, o := range set {
		if o.bad {
			return false, nil // U+hex outside the scalar range: only "no crash"
		}
	}
	if len(set) > 1 {
		// readings differ: only "lexes without crash, value is some reading"
		g := c13Out{}
		if got.err == 0 {
			g = c13Out{ok: true, val: string(got.lit), end: got.end}
		} else if got.err != zerr.ErrIncomleteString {
			return false, &mc.Failure{Kind: "mismatch", Case: cs(), Expected: "a string token or error 27", Observed: fmt.Sprintf("err=%d %s", got.err, got.perr)}
		}
		for _, o := range set {
			if o == g {
				return false, nil
			}
		}
		var alts []string
		for _, o := range set {
			alts = append(alts, fmt.Sprintf("%v:%q@%d", o.ok, o.val, o.end))
		}
		return false, &mc.Failure{Kind: "mismatch", Case: cs(), Expected: fmt.Sprintf("one of %v", alts),
			Observed: fmt.Sprintf("err=%d %q end=%d", got.err, string(got.lit), got.end)}
	}
	if !r0.ok {
		if got.err != zerr.ErrIncomleteString {
			return true, &mc.Failure{Kind: "mismatch", Case: cs(), Expected: "syntax error 27 (unterminated literal)",
				Observed: fmt.Sprintf("err=%d type=%d lit=%q end=%d %s", got.err, got.typ, string(got.lit), got.end, got.perr)}
		}
		return true, nil
	}
	if r0.bad {
		// U+hex beyond the code space / surrogates: the statement restricts
		// U+hex to valid code points; only "no crash" is required.
		return false, nil
	}
	if got.err != 0 || string(got.lit) != r0.val || got.end != r0.end || got.typ != c13TokType(src[0]) {
		return true, &mc.Failure{Kind: "mismatch", Case: cs(),
			Expected: fmt.Sprintf("type=%d value=%q end=%d", c13TokType(src[0]), r0.val, r0.end),
			Observed: fmt.Sprintf("err=%d type=%d value=%q end=%d %s", got.err, got.typ, string(got.lit), got.end, got.perr)}
	}
	return true, nil
}

// contexts of an end-to-end literal (the value of the program must be the literal's text)
var c13Contexts = []struct{ name, pre, post string }{
	{"first-of-two-items", "输出【", "，1】#1"},
	{"before-a-longer-text", "输出【", " “尾巴很长很长很长”】#1"},
	{"before-a-shorter-text", "输出【", " “尾”】#1"},
	{"behind-a-longer-text", "输出【“开头很长很长很长” ", "】#2"},
	{"behind-a-shorter-text", "输出【“头” ", "，2】#2"},
	{"between-two-texts", "输出【“头” ", " “尾巴”】#2"},
	{"last-token-before-a-line-that-begins-with-a-text", "令甲 = ", "\n“下一行的文本”\n输出甲"},
	{"dictionary-value-before-a-text-key", "输出【“键” = ", "，“另一个键” = “值”】#“键”"},
	{"argument-before-a-text-argument", "如何取？\n    输入甲、乙\n    输出甲\n输出（取：", "、“第二个参数”）"},
}

// c13E2E runs 输出‹literal› through the interpreter.
func c13E2E(src []rune, want string) *mc.Failure {
	prog := append([]rune("输出"), src...)
	cs := func() json.RawMessage { return mc.J(c13Case{Mode: "e2e", Source: string(src), Runes: toInts(src)}) }
	var f *mc.Failure
	func() {
		defer func() {
			if p := recover(); p != nil {
				f = &mc.Failure{Kind: "panic", Case: cs(), Observed: fmt.Sprint(p)}
			}
		}()
		in := exec.NewInterpreter("verif").LoadScript(prog)
		v, err := in.Execute(r.ElementMap{})
		if err != nil {
			f = &mc.Failure{Kind: "mismatch", Case: cs(), Expected: fmt.Sprintf("text %q", want), Observed: "error: " + err.Error()}
			return
		}
		s, ok := v.(*value.String)
		if !ok || s.GetValue() != want {
			f = &mc.Failure{Kind: "mismatch", Case: cs(), Expected: fmt.Sprintf("text %q", want), Observed: fmt.Sprintf("%T %v", v, v)}
			return
		}
		// the literal with more of the program around it: followed by more of the statement on its own
		// line, with another text literal directly behind or in front of it (items of a list may be
		// separated by blanks alone, manual ch.3), as the last token of a statement whose next line
		// begins with a literal, as a dictionary value
		for _, cx := range c13Contexts {
			full := append(append([]rune(cx.pre), src...), []rune(cx.post)...)
			v3, err3 := exec.NewInterpreter("verif").LoadScript(full).Execute(r.ElementMap{})
			if s3, ok3 := v3.(*value.String); err3 != nil || !ok3 || s3.GetValue() != want {
				f = &mc.Failure{Kind: "mismatch", Bucket: "in-context:" + cx.name, Case: cs(), Expected: fmt.Sprintf("text %q also from %s<literal>%s", want, cx.pre, cx.post), Observed: fmt.Sprintf("%T %v err=%v", v3, v3, err3)}
				return
			}
		}
		// the same loaded script executed again (what a server worker does per request)
		v2, err := in.Execute(r.ElementMap{})
		s2, ok := v2.(*value.String)
		if err != nil || !ok || s2.GetValue() != want {
			f = &mc.Failure{Kind: "mismatch", Bucket: "second-execute", Case: cs(), Expected: fmt.Sprintf("text %q again on the second Execute of the same loaded script", want), Observed: fmt.Sprintf("%T %v err=%v", v2, v2, err)}
		}
	}()
	return f
}

// c13Encode writes text t as a literal body under encoder variant enc:
//
//	0: every quote character wrapped in backticks, BK for a backtick, U+0 for NUL
//	1: as 0 but quote pairs that are balanced within their own family are left bare
//	2: as 0 and CR/LF/TAB/space spelled as escapes
func c13Encode(t []rune, enc int, open rune) []rune {
	bare := make([]bool, len(t))
	if enc == 1 {
		// leave balanced pairs bare, per family (any of the five pairs)
		for o, cl := range c13Close {
			var st []int
			for i, ch := range t {
				if ch == o {
					st = append(st, i)
				} else if ch == cl && len(st) > 0 {
					j := st[len(st)-1]
					st = st[:len(st)-1]
					bare[i], bare[j] = true, true
				}
			}
		}
	}
	var out []rune
	for i, ch := range t {
		switch {
		case ch == 0:
			out = append(out, []rune("`U+0`")...)
		case ch == '`':
			out = append(out, []rune("`BK`")...)
		case c13IsQuote(ch):
			if bare[i] {
				out = append(out, ch)
			} else {
				out = append(out, '`', ch, '`')
			}
		case enc == 2 && ch == '\r':
			out = append(out, []rune("`CR`")...)
		case enc == 2 && ch == '\n':
			out = append(out, []rune("`LF`")...)
		case enc == 2 && ch == '\t':
			out = append(out, []rune("`TAB`")...)
		case enc == 2 && ch == ' ':
			out = append(out, []rune("`SP`")...)
		case ch > 0xFFFF && enc == 2:
			out = append(out, []rune(fmt.Sprintf("`U+%X`", ch))...)
		default:
			out = append(out, ch)
		}
	}
	return out
}

func c13RoundTrip(t []rune, enc int, oi int) *mc.Failure {
	open := c13Open[oi]
	src := append([]rune{open}, c13Encode(t, enc, open)...)
	src = append(src, c13Close[open])
	got := c13Lex(src)
	if got.err != 0 || got.perr != "" || string(got.lit) != string(t) || got.end != len(src) {
		return &mc.Failure{Kind: "mismatch", Case: mc.J(c13Case{Mode: "roundtrip", Text: toInts(t), Enc: enc, Open: oi, Source: string(src)}),
			Expected: fmt.Sprintf("value %q consuming the whole literal", string(t)),
			Observed: fmt.Sprintf("err=%d value=%q end=%d/%d %s", got.err, string(got.lit), got.end, len(src), got.perr)}
	}
	// short texts also through the whole pipeline (the token is not yet the value a program sees):
	// 输出<literal> evaluates to the text, as written and with every character spelled `U+hex`
	if len(t) <= 2 && oi <= 1 {
		if f := c13E2E(src, string(t)); f != nil {
			f.Bucket = "roundtrip-evaluated"
			return f
		}
		if enc == 0 {
			hex := []rune{open}
			for _, ch := range t {
				hex = append(hex, []rune(fmt.Sprintf("`U+%X`", ch))...)
			}
			hex = append(hex, c13Close[open])
			if f := c13E2E(hex, string(t)); f != nil {
				f.Bucket = "roundtrip-evaluated-hex"
				return f
			}
		}
	}
	return nil
}

func c13Unrank(alpha []rune, length int, idx int64, buf []rune) []rune {
	buf = buf[:0]
	for k := 0; k < length; k++ {
		buf = append(buf, alpha[idx%int64(len(alpha))])
		idx /= int64(len(alpha))
	}
	return buf
}

func pow64(b, e int) int64 {
	r := int64(1)
	for i := 0; i < e; i++ {
		r *= int64(b)
	}
	return r
}

func init() {
	mc.Register(&mc.Check{
		ID:    "C13",
		Level: "exploration",
		Rule: "E1 exhaustive: every literal body of length <= L over a 31-symbol critical alphabet (10 quote characters, backtick, CR, LF, letters of the escape names, +, hex digits, x, a CJK char, space) inside each of the 5 opening quotes, real lexer vs reference decoder; every sequence of <= 5 (6 thorough) words of a 23-word alphabet (escape names as units, hex words, quotes, line breaks); every backtick text of <= 5 letters over the 14 letters of the escape names (so every near miss of an escape name, e.g. `TABK`, `CRL`, `U+`); " +
			"plus round trip text->canonical literal->lexer for every text <= L (3 encoders x 5 quotes) over the alphabet extended by Unicode scalar boundaries and 16 characters without a glyph of their own (variation selectors, zero-width characters, direction marks, soft hyphen, U+FEFF, a combining accent, U+FFFD, other line / space separators); texts <= 2 also evaluated (输出<literal>, as written and spelled `U+hex`). The lexer must leave its input unchanged, and the end-to-end cases (bodies <= 3 symbols in the two double-quote families, word sequences <= 2) execute one loaded script twice with the same value, and evaluate the literal once more in nine contexts (first of two list items, directly before / behind / between other text literals of a blank-separated list, last token before a line that begins with a text, dictionary value, call argument). Enumeration is injective (odometer), so every case is distinct; a case is non-trivial if it contains a backtick, a quote character or a line break (i.e. exercises more than verbatim copying).",
		Assumptions: []string{
			"reference decoder written from manual chapters 1 and 6; where three readings of 'other backtick text is kept literally' disagree, only 'no crash and the value is one of the readings' is required",
			"U+hex outside the Unicode scalar range is not asserted (statement restricts it to valid code points)",
			"raw NUL cannot appear in a source (the lexer's end-of-input sentinel); NUL is written `U+0`",
			"bodies longer than L and symbols outside the alphabet are not covered; the lexer branches only on the symbols in the alphabet classes",
		},
		Budget: func(tier string) time.Duration {
			if tier == "thorough" {
				return 25 * time.Minute
			}
			return 240 * time.Second
		},
		Run:    c13Run,
		Replay: c13Replay,
	})
}

func c13Nontrivial(rs []rune) bool {
	for _, ch := range rs {
		if ch == '`' || ch == '\r' || ch == '\n' || c13IsQuote(ch) {
			return true
		}
	}
	return false
}

func c13Run(c *mc.Ctx) {
	L := 4
	rtL := 4
	if c.Tier == "thorough" {
		L = 5
		rtL = 5
	}
	type level struct {
		alpha []rune
		n     int
	}
	var levels []level
	for n := 0; n <= L; n++ {
		levels = append(levels, level{c13Alpha, n})
	}
	if c.Tier == "thorough" {
		levels = append(levels, level{c13Sub, 6})
	}
	// ---- part 1: lexing of every body, 5 opening quotes
	base := int64(0)
	buf := make([]rune, 0, 8)
	src := make([]rune, 0, 16)
	asserted := int64(0)
	for _, lv := range levels {
		total := pow64(len(lv.alpha), lv.n)
		lvl := lv
		lbase := base
		c.Describe = func(idx int64) json.RawMessage {
			k := idx - lbase
			oi := int(k % 5)
			b := c13Unrank(lvl.alpha, lvl.n, k/5, nil)
			s := append([]rune{c13Open[oi]}, b...)
			s = append(s, c13Close[c13Open[oi]])
			return mc.J(c13Case{Mode: "lex", Source: string(s), Runes: toInts(s)})
		}
		for k := int64(0); k < total*5; k++ {
			idx := base + k
			if !c.Mine(idx) {
				continue
			}
			if c.Due(0xFFFF) {
				c.Note(fmt.Sprintf("deadline hit in lex level len=%d", lv.n))
				return
			}
			c.CaseIdx(idx)
			oi := int(k % 5)
			buf = c13Unrank(lv.alpha, lv.n, k/5, buf)
			src = append(src[:0], c13Open[oi])
			src = append(src, buf...)
			src = append(src, c13Close[c13Open[oi]])
			as, f := c13CheckLex(src)
			c.Eval(c13Nontrivial(buf))
			if as {
				asserted++
			}
			if f != nil {
				f.Sig = c13Sig(f)
				c.Fail(*f)
			} else if as && oi < 2 && lv.n <= 3 {
				// end to end for the two double-quote families
				r0 := c13Ref(src, 0)
				if r0.ok && r0.end == len(src) {
					if f := c13E2E(src, r0.val); f != nil {
						f.Sig = c13Sig(f)
						c.Fail(*f)
					}
					c.Stat("end_to_end_runs", 1)
				}
			}
			if c.WantSample() && lv.n == 3 && k%9973 == 0 {
				c.Sample(map[string]any{"literal": string(src), "reference_value": c13Ref(src, 0).val})
			}
		}
		base += total * 5
		c.Bound(fmt.Sprintf("lex_len_%d_alphabet_%d", lv.n, len(lv.alpha)), "complete")
	}
	// ---- part 1b: all sequences of <= W words (escape names as units)
	W := 5
	if c.Tier == "thorough" {
		W = 6
	}
	for n := 1; n <= W; n++ {
		total := pow64(len(c13Words), n)
		lbase := base
		nn := n
		build := func(k int64) []rune {
			oi := int(k % 5)
			k /= 5
			s := []rune{c13Open[oi]}
			for j := 0; j < nn; j++ {
				s = append(s, []rune(c13Words[k%int64(len(c13Words))])...)
				k /= int64(len(c13Words))
			}
			return append(s, c13Close[c13Open[oi]])
		}
		c.Describe = func(idx int64) json.RawMessage {
			s := build(idx - lbase)
			return mc.J(c13Case{Mode: "lex", Source: string(s), Runes: toInts(s)})
		}
		for k := int64(0); k < total*5; k++ {
			idx := base + k
			if !c.Mine(idx) {
				continue
			}
			if c.Due(0xFFFF) {
				c.Note(fmt.Sprintf("deadline hit in word level len=%d", n))
				return
			}
			c.CaseIdx(idx)
			src = build(k)
			as, f := c13CheckLex(src)
			c.Eval(c13Nontrivial(src[1 : len(src)-1]))
			c.Stat("word_level_cases", 1)
			if as {
				asserted++
			}
			if f != nil {
				f.Sig = c13Sig(f)
				c.Fail(*f)
			} else if as && n <= 2 && k%5 < 2 {
				// end to end, executed twice from one loaded script
				if r0 := c13Ref(src, 0); r0.ok && r0.end == len(src) {
					if f := c13E2E(src, r0.val); f != nil {
						f.Sig = c13Sig(f)
						c.Fail(*f)
					}
					c.Stat("end_to_end_runs", 1)
				}
			}
		}
		base += total * 5
		c.Bound(fmt.Sprintf("word_sequences_len_%d_alphabet_%d", n, len(c13Words)), "complete")
	}
	// ---- part 1c: every backtick text of <= 5 letters of the escape names
	{
		total := int64(0)
		for n := 0; n <= 5; n++ {
			total += pow64(len(c13Esc), n)
		}
		lbase := base
		build := func(k int64) []rune {
			oi := int(k % 5)
			k /= 5
			n := 0
			for k >= pow64(len(c13Esc), n) {
				k -= pow64(len(c13Esc), n)
				n++
			}
			s := []rune{c13Open[oi], '`'}
			s = append(s, c13Unrank(c13Esc, n, k, nil)...)
			return append(s, '`', c13Close[c13Open[oi]])
		}
		c.Describe = func(idx int64) json.RawMessage {
			s := build(idx - lbase)
			return mc.J(c13Case{Mode: "lex", Source: string(s), Runes: toInts(s)})
		}
		for k := int64(0); k < total*5; k++ {
			idx := base + k
			if !c.Mine(idx) {
				continue
			}
			if c.Due(0xFFFF) {
				c.Note("deadline hit in backtick texts")
				return
			}
			c.CaseIdx(idx)
			src = build(k)
			as, f := c13CheckLex(src)
			c.Eval(true)
			c.Stat("backtick_text_cases", 1)
			if as {
				asserted++
			}
			if f != nil {
				f.Sig = c13Sig(f)
				c.Fail(*f)
			}
		}
		base += total * 5
		c.Bound(fmt.Sprintf("backtick_texts_len_le_5_alphabet_%d", len(c13Esc)), "complete")
	}
	c.Stat("lex_cases_with_unique_reading_asserted", asserted)

	// ---- part 2: round trip of every text <= rtL (+ scalar boundaries)
	alpha := append(append([]rune{}, c13Alpha...), 0, 0x7F, 0x80, 0x7FF, 0x800, 0xFFFF, 0x10000, 0x10FFFF, '\t',
		// characters without a glyph of their own, or that software likes to "normalise" away:
		// variation selectors, zero-width space / joiner, direction marks, soft hyphen, U+FEFF inside
		// a text, a combining accent, the replacement character, other line / space separators
		0xFE0F, 0xE0100, 0x200B, 0x200D, 0x200E, 0x202E, 0xAD, 0xFEFF, 0x34F, 0x2060, 0x301, 0xFFFD, 0x85, 0x2028, 0x3000, 0xA0)
	for n := 0; n <= rtL; n++ {
		al := alpha
		if n >= 4 {
			al = c13Alpha
		}
		if n >= 5 {
			al = c13Sub
		}
		total := pow64(len(al), n)
		lbase := base
		nn := n
		all := al
		c.Describe = func(idx int64) json.RawMessage {
			k := idx - lbase
			return mc.J(c13Case{Mode: "roundtrip", Text: toInts(c13Unrank(all, nn, k/15, nil)), Enc: int(k % 3), Open: int((k / 3) % 5)})
		}
		for k := int64(0); k < total*15; k++ {
			idx := base + k
			if !c.Mine(idx) {
				continue
			}
			if c.Due(0xFFFF) {
				c.Note(fmt.Sprintf("deadline hit in round trip len=%d", n))
				return
			}
			c.CaseIdx(idx)
			enc, oi := int(k%3), int((k/3)%5)
			buf = c13Unrank(al, n, k/15, buf)
			c.Eval(c13Nontrivial(buf))
			c.Stat("roundtrip_cases", 1)
			if f := c13RoundTrip(buf, enc, oi); f != nil {
				f.Sig = c13Sig(f)
				c.Fail(*f)
			}
		}
		base += total * 15
		c.Bound(fmt.Sprintf("roundtrip_len_%d_alphabet_%d", n, len(al)), "complete")
	}
}

func c13Sig(f *mc.Failure) string { return "" }

func c13Replay(c *mc.Ctx, raw json.RawMessage) {
	var cs c13Case
	if err := json.Unmarshal(raw, &cs); err != nil {
		c.Fail(mc.Failure{Kind: "crash", Observed: "bad replay case: " + err.Error()})
		return
	}
	switch cs.Mode {
	case "lex":
		src := toRunes(cs.Runes)
		if _, f := c13CheckLex(src); f != nil {
			c.Fail(*f)
		}
	case "e2e":
		src := toRunes(cs.Runes)
		r0 := c13Ref(src, 0)
		if f := c13E2E(src, r0.val); f != nil {
			c.Fail(*f)
		}
	case "roundtrip":
		if f := c13RoundTrip(toRunes(cs.Text), cs.Enc, cs.Open); f != nil {
			c.Fail(*f)
		}
	}
}
