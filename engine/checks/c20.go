package checks

// C20 — the prefork master keeps the worker pool within its bounds.
//
// E3 on the REAL master (server.StartMaster with real child processes): the
// harness binary is master, controller and fake worker at once.  Every
// hand-over point of the master (hooks, build tag verif) blocks until the
// controller releases it, so the controller decides which bookkeeping event
// the master's single loop sees next and when an environment event (a worker
// reports BUSY / IDLE, times out, exits) fires.  One execution runs in a fresh
// process; the explorer replays a choice prefix and then takes the default
// ("gates first, FIFO; the next environment event only when nothing is
// pending"), exploring all alternatives within the deviation bound.

import (
	"encoding/json"
	"fmt"
	"os"
	"os/exec"
	"strings"
	"syscall"
	"time"

	"verif/engine/mc"
	"verif/engine/pm"
)

func init() { mc.ChildWorker = pm.FakeWorker }

type c20Event = pm.Event
type c20Params = pm.Params
type c20Result = pm.Result

// ---- explorer side
type c20Case struct {
	P       c20Params      `json:"params"`
	Actions []string       `json:"actions,omitempty"`
	Real    *pm.RealParams `json:"real_worker_scenario,omitempty"`
}

func c20RunSub(p c20Params) (c20Result, error) {
	arg, _ := json.Marshal(p)
	// the small dedicated binary if the check script built it, else this binary
	cmd := exec.Command(os.Args[0], "-id", "C20", "-aux", "pm:"+string(arg))
	if px := os.Getenv("VERIF_PMEXEC"); px != "" {
		cmd = exec.Command(px, string(arg))
	}
	cmd.SysProcAttr = &syscall.SysProcAttr{Setpgid: true}
	var out, errb strings.Builder
	cmd.Stdout = &out
	cmd.Stderr = &errb
	cmd.WaitDelay = 2 * time.Second // worker processes inherit stdout: do not wait for them
	if err := cmd.Start(); err != nil {
		return c20Result{}, err
	}
	done := make(chan error, 1)
	go func() { done <- cmd.Wait() }()
	// whatever happens, no worker process of this execution survives it
	defer syscall.Kill(-cmd.Process.Pid, syscall.SIGKILL)
	select {
	case <-done:
	case <-time.After(60 * time.Second):
		syscall.Kill(-cmd.Process.Pid, syscall.SIGKILL)
		<-done
		return c20Result{}, fmt.Errorf("execution did not finish within 60 s")
	}
	var r c20Result
	if err := json.Unmarshal([]byte(out.String()), &r); err != nil {
		return c20Result{}, fmt.Errorf("bad result from the execution process: %v (%q)", err, clipS(out.String(), 200))
	}
	return r, nil
}

// c20RunReal runs one real-worker scenario (real StartMaster + real StartWorker) in a fresh process.
func c20RunReal(p pm.RealParams) (pm.RealResult, error) {
	px := os.Getenv("VERIF_PMEXEC")
	if px == "" {
		return pm.RealResult{}, fmt.Errorf("pmexec binary not available")
	}
	arg, _ := json.Marshal(p)
	cmd := exec.Command(px, "real", string(arg))
	cmd.SysProcAttr = &syscall.SysProcAttr{Setpgid: true}
	var out, errb strings.Builder
	cmd.Stdout = &out
	cmd.Stderr = &errb
	cmd.WaitDelay = 2 * time.Second
	if err := cmd.Start(); err != nil {
		return pm.RealResult{}, err
	}
	done := make(chan error, 1)
	go func() { done <- cmd.Wait() }()
	defer syscall.Kill(-cmd.Process.Pid, syscall.SIGKILL)
	var werr error
	select {
	case werr = <-done:
	case <-time.After(120 * time.Second):
		syscall.Kill(-cmd.Process.Pid, syscall.SIGKILL)
		<-done
		return pm.RealResult{}, fmt.Errorf("scenario did not finish within 120 s")
	}
	var r pm.RealResult
	if strings.TrimSpace(out.String()) == "" && werr != nil && strings.Contains(errb.String(), "[PARENT]") {
		// the master ended itself (log.Fatal in its own bookkeeping) while serving the scenario:
		// no pool is left, whatever the requests were
		tail := errb.String()
		if i := strings.LastIndex(tail, "[PARENT]"); i >= 0 {
			tail = tail[i:]
		}
		return pm.RealResult{Violations: []string{"the master process stopped while serving: " + clipS(strings.TrimSpace(tail), 200)}}, nil
	}
	if err := json.Unmarshal([]byte(out.String()), &r); err != nil {
		return pm.RealResult{}, fmt.Errorf("bad result: %v (stdout %q, stderr %q, exit %v)", err, clipS(out.String(), 200), clipS(errb.String(), 600), werr)
	}
	return r, nil
}

func c20RealScenarios(tier string) []pm.RealParams {
	var out []pm.RealParams
	var seqs []string
	kinds := "FSH"
	for _, a := range kinds {
		seqs = append(seqs, string(a))
		for _, b := range kinds {
			seqs = append(seqs, string(a)+string(b))
			if tier == "thorough" {
				for _, c := range kinds {
					seqs = append(seqs, string(a)+string(b)+string(c))
				}
			}
		}
	}
	if tier != "thorough" {
		seqs = append(seqs, "HSF", "HHF", "SHF", "FHS")
	}
	seqs = append(seqs, "CSF", "CCF")
	cfgs := [][2]int{{2, 3}}
	if tier == "thorough" {
		cfgs = append(cfgs, [2]int{1, 2}, [2]int{2, 2})
	}
	for _, c := range cfgs {
		for _, s := range seqs {
			out = append(out, pm.RealParams{Init: c[0], Max: c[1], Requests: s})
		}
	}
	// one worker that served a request, sat idle for longer than --timeout, and serves again:
	// a request that takes less than --timeout is answered (P = idle pause of 1.6 s, --timeout 1 s)
	// (C: the hanging request has started a helper program that outlives its worker)
	idle := []string{"FPS", "SPS", "FPF", "H", "HF", "HH", "GH", "FGHF", "C", "CF", "CC"}
	if tier == "thorough" {
		idle = append(idle, "FPFPS", "SPFPS", "HPS", "FPH")
	}
	for _, s := range idle {
		out = append(out, pm.RealParams{Init: 1, Max: 1, Requests: s})
	}
	return out
}

// c20LongScenarios: init 2 with max-procs well above init + one spawn batch.
func c20LongScenarios() []c20Params {
	ev := func(k string, w int) c20Event { return c20Event{Worker: w, Kind: k} }
	var out []c20Params
	for _, max := range []int{12, 14, 24} {
		evs := []c20Event{ev("busy", 0), ev("busy", 1)}
		for w := 2; w <= 12; w++ {
			evs = append(evs, ev("exit", w))
		}
		out = append(out, c20Params{Init: 2, Max: max, Events: evs})
		evs2 := []c20Event{ev("busy", 0), ev("busy", 1), ev("timeout", 0), ev("timeout", 1)}
		for w := 2; w <= 11; w++ {
			evs2 = append(evs2, ev("exit", w))
		}
		out = append(out, c20Params{Init: 2, Max: max, Events: evs2})
	}
	return out
}

var c20Kinds = []string{"busy", "idle", "timeout", "exit"}

func c20EventSeqs(maxLen, workers int) [][]c20Event {
	var menu []c20Event
	for w := 0; w < workers; w++ {
		for _, k := range c20Kinds {
			menu = append(menu, c20Event{Worker: w, Kind: k})
		}
	}
	out := [][]c20Event{nil}
	prev := [][]c20Event{nil}
	for l := 1; l <= maxLen; l++ {
		var cur [][]c20Event
		for _, s := range prev {
			for _, e := range menu {
				cur = append(cur, append(append([]c20Event{}, s...), e))
			}
		}
		out = append(out, cur...)
		prev = cur
	}
	return out
}

func c20Sig(p c20Params, r c20Result) string { return "" }

func init() {
	mc.Register(&mc.Check{
		ID:    "C20",
		Level: "model_checking",
		Rule: "E3 on the real prefork master with real child processes (the harness binary re-executed as a fake worker): configurations 1 <= init <= max <= M x every sequence of E environment events over {worker 0..W-1} x {reports BUSY, reports IDLE, times out (reports STOPPED and exits), exits}; within an execution the controller chooses at every step between delivering any pending hand-over (child registered / state report / child exit, released one at a time so the master's select never has two ready senders), letting any pending spawn proceed, and firing the next environment event; default = pending hand-overs first (FIFO), then spawns, then the event; every alternative within the deviation bound is explored (stateless DFS, one fresh OS process per execution). Invariants after every step: live worker processes (controller's registry of real processes) <= max-procs and the master's own child count <= max-procs; at quiescence (all workers idle, everything drained): live >= init-procs and the master's registry equals the set of live processes. " +
			"Plus 6 directed long scenarios under the default schedule (init 2, max-procs 12 / 14 / 24: all workers busy, a scale-up batch, then more exits than the batch held). Plus a small enumerated (not exhaustive) real-worker family (with garbage collections of the master forced between requests): the real master with the real StartWorker and a handler that can hang, free-running, for every sequence of <= 2 (thorough 3) requests over {fast, slow, hanging}, plus, on a one-worker pool, sequences with an idle pause longer than --timeout between two requests and sequences whose only worker hangs (the master must survive having no worker at all for a moment): every request is answered exactly once by one worker (a hanging one gets its connection closed when its worker is terminated after --timeout), no worker reports BUSY twice without IDLE, the pool stays <= max-procs and returns to >= init-procs.",
		Assumptions: []string{
			"the controller waits for the consequence gates each action must produce (8 s failure detector, reported as a harness error, never as a violation)",
			"kernel scheduling of real accept()/timeouts of real workers is not part of this exploration; Unix-socket listeners are not covered",
		},
		Shards: func(tier string) int { return 32 }, // executions mostly wait (100 ms respawn delays, process start)
		Budget: func(tier string) time.Duration {
			if tier == "thorough" {
				return 25 * time.Minute
			}
			return 110 * time.Second
		},
		Aux: func(arg string) string {
			if strings.HasPrefix(arg, "pm:") {
				var p c20Params
				if err := json.Unmarshal([]byte(strings.TrimPrefix(arg, "pm:")), &p); err != nil {
					return `{"harness_error":"bad params"}`
				}
				r := pm.Master(p)
				b, _ := json.Marshal(r)
				return string(b)
			}
			return ""
		},
		Run: func(c *mc.Ctx) {
			M, E, bound, W := 3, 2, 1, 2
			if c.Tier == "thorough" {
				M, E, bound, W = 4, 3, 2, 3
			}
			// only sequences of full length: the invariants are checked after every
			// step, so a shorter sequence is covered by its extensions
			var seqs [][]c20Event
			for _, sq := range c20EventSeqs(E, W) {
				if len(sq) == E {
					seqs = append(seqs, sq)
				}
			}
			idx := int64(0)
			// ---- real-worker family (enumerated scenarios, free-running: not exhaustive)
			for ri, rp := range c20RealScenarios(c.Tier) {
				idx++
				if !c.Mine(idx) {
					continue
				}
				if c.Expired() {
					c.Note("deadline hit in the real-worker family")
					break
				}
				rpp := rp
				c.Case(idx, func() json.RawMessage { return mc.J(c20Case{Real: &rpp}) })
				r, err := c20RunReal(rp)
				c.Eval(true)
				c.Stat("real_worker_scenarios", 1)
				if err != nil || r.Harness != "" {
					c.Stat("harness_errors", 1)
					c.Inexhaustive(fmt.Sprintf("real-worker scenario %d (%s) could not be evaluated: %v %s", ri, rp.Requests, err, r.Harness))
					continue
				}
				if len(r.Violations) > 0 {
					c.Fail(mc.Failure{Kind: "mismatch", Bucket: "real:" + strings.SplitN(r.Violations[0], ":", 2)[0], Case: mc.J(c20Case{Real: &rpp}),
						Expected: "each request answered exactly once by one worker (a hanging one: connection closed when its worker is terminated), pool within bounds and back to init-procs when quiet",
						Observed: strings.Join(r.Violations, "; ") + fmt.Sprintf(" | outcomes %v reports %v", r.Outcomes, r.Reports)})
				}
			}
			for init := 1; init <= M; init++ {
				for max := init; max <= M; max++ {
					if c.Tier != "thorough" && (init == 3 || max == 1 || (init == 2 && max == 2)) {
						continue // quick: (1,2) (1,3) (2,3)
					}
					evSeqs := seqs
					if c.Tier != "thorough" && max <= 2 {
						// quick: single events on the first worker at deviation bound 2 (an exit that
						// overtakes the registration of the same worker needs two deviations)
						for _, k := range c20Kinds {
							evSeqs = append(evSeqs, []c20Event{{Worker: 0, Kind: k}})
						}
					}
					for _, evs := range evSeqs {
						idx++
						if !c.Mine(idx) {
							continue
						}
						if c.Expired() {
							c.Note("deadline hit")
							return
						}
						base := c20Params{Init: init, Max: max, Events: evs}
						c.Case(idx, func() json.RawMessage { return mc.J(c20Case{P: base}) })
						b := bound
						if len(evs) == E && E >= 3 {
							b = 1
						}
						if len(evs) == 1 && c.Tier != "thorough" {
							b = 2
						}
						n := mc.Explore(b, func(rec *mc.Recorder) {
							p := base
							p.Prefix = rec.Prefix
							c.Case(idx, func() json.RawMessage { return mc.J(c20Case{P: p}) }) // heartbeat per execution
							r, err := c20RunSub(p)
							if err != nil {
								c.Stat("harness_errors", 1)
								c.Inexhaustive("an execution could not be evaluated: " + err.Error())
								return
							}
							rec.Log = rec.Log[:0]
							for _, pt := range r.Log {
								rec.Log = append(rec.Log, mc.Point{Kind: pt.Kind, N: pt.N, Chosen: pt.Chosen})
							}
							c.Stat("transitions", int64(len(r.Actions)))
							c.Stat("worker_processes_spawned", int64(r.Spawned))
							c.StatMax("max_live_workers_seen", int64(r.MaxAlive))
							if r.Harness != "" {
								c.Stat("harness_errors", 1)
								c.Inexhaustive("an execution could not be evaluated: " + r.Harness)
								return
							}
							if len(r.Violations) > 0 {
								pp := p
								pp.Prefix = rec.Choices()
								c.Fail(mc.Failure{Sig: c20Sig(pp, r), Kind: "mismatch", Bucket: strings.SplitN(r.Violations[0], " (", 2)[0], Case: mc.J(c20Case{P: pp, Actions: r.Actions}),
									Expected: fmt.Sprintf("init-procs %d <= live workers <= max-procs %d", init, max), Observed: strings.Join(r.Violations, "; ")})
							}
						}, c.Expired)
						c.EvalN(n, n)
						c.Stat("states", n)
						c.Stat("traces_validated_against_impl", n)
						if c.WantSample() && len(evs) == 2 {
							c.Sample(map[string]any{"init": init, "max": max, "events": evs, "executions": n})
						}
					}
				}
			}
			// directed long scenarios in a large configuration (default schedule only): a scale-up
			// batch that does not fill max-procs, then more exits than the batch held
			for _, sc := range c20LongScenarios() {
				idx++
				if !c.Mine(idx) {
					continue
				}
				if c.Expired() {
					c.Note("deadline hit in the long scenarios")
					break
				}
				base := sc
				c.Case(idx, func() json.RawMessage { return mc.J(c20Case{P: base}) })
				r, err := c20RunSub(base)
				c.Eval(true)
				c.Stat("long_scenarios", 1)
				if err != nil || r.Harness != "" {
					c.Stat("harness_errors", 1)
					c.Inexhaustive(fmt.Sprintf("a long scenario could not be evaluated: %v %s", err, r.Harness))
					continue
				}
				c.Stat("transitions", int64(len(r.Actions)))
				c.StatMax("max_live_workers_seen", int64(r.MaxAlive))
				if len(r.Violations) > 0 {
					c.Fail(mc.Failure{Sig: c20Sig(base, r), Kind: "mismatch", Bucket: strings.SplitN(r.Violations[0], " (", 2)[0], Case: mc.J(c20Case{P: base, Actions: r.Actions}),
						Expected: fmt.Sprintf("init-procs %d <= live workers <= max-procs %d", base.Init, base.Max), Observed: strings.Join(r.Violations, "; ")})
				}
			}
			c.Bound("configurations", fmt.Sprintf("1 <= init <= max <= %d", M))
			c.Bound("event_sequences", fmt.Sprintf("all of length %d over %d workers x 4 kinds", E, W))
			c.Bound("deviation_bound", bound)
			if c.Tier != "thorough" {
				c.Bound("deviation_bound_single_events_on_worker_0_max_le_2", 2)
			}
		},
		Replay: func(c *mc.Ctx, raw json.RawMessage) {
			var cs c20Case
			if err := json.Unmarshal(raw, &cs); err != nil {
				c.Fail(mc.Failure{Kind: "crash", Observed: err.Error()})
				return
			}
			if cs.Real != nil {
				r, err := c20RunReal(*cs.Real)
				if err != nil {
					fmt.Println("harness error on replay:", err)
					return
				}
				if r.Harness == "" && len(r.Violations) > 0 {
					c.Fail(mc.Failure{Kind: "mismatch", Case: raw, Observed: strings.Join(r.Violations, "; ")})
				}
				return
			}
			r, err := c20RunSub(cs.P)
			if err != nil {
				c.Fail(mc.Failure{Kind: "crash", Observed: err.Error()})
				return
			}
			if r.Harness != "" {
				fmt.Println("harness error on replay:", r.Harness)
				return
			}
			if len(r.Violations) > 0 {
				c.Fail(mc.Failure{Kind: "mismatch", Case: raw, Observed: strings.Join(r.Violations, "; ")})
			}
		},
	})
}
