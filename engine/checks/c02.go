package checks

// C02 — branches, loops and 输出 follow the documented control flow.
// E1: every statement tree with <= k statement nodes (nesting <= 3) over
// 如果/再如/否则, 每当, 遍历 (list / dictionary / empty, 0-2 variables),
// 结束循环, 继续循环, 输出 and expression statements, with a trace statement
// planted before every statement and at the end of every block; each tree runs
// as the program body and as a method body.  Oracle: reference interpreter.

import (
	"encoding/json"
	"fmt"
	"strings"
	"time"

	"verif/engine/mc"
	"verif/engine/zn"
)

type c02Key struct {
	m, d int
	loop bool
}

var c02StmtCnt = map[c02Key]int64{}
var c02BodyCnt = map[c02Key]int64{}

const (
	c02OneBodyIf = 2 // 如果真 / 如果假
	c02Loops     = 7 // 每当 (counter condition), 遍历 x5, 每当 (bare flag condition)
	c02TwoBodyIf = 6 // 如果/否则 x 2 truth values, 如果/再如 (no 否则) x 4
	c02ThreeBody = 4
)

func c02Stmts(m, d int, loop bool) int64 {
	k := c02Key{m, d, loop}
	if v, ok := c02StmtCnt[k]; ok {
		return v
	}
	var n int64
	if m == 1 {
		n += 2
		if loop {
			n += 2
		}
	}
	if d > 0 && m >= 2 {
		n += c02OneBodyIf * c02Bodies(m-1, d-1, loop)
		n += c02Loops * c02Bodies(m-1, d-1, true)
		for a := 1; a < m-1; a++ {
			b := m - 1 - a
			if b >= 1 {
				n += c02TwoBodyIf * c02Bodies(a, d-1, loop) * c02Bodies(b, d-1, loop)
			}
		}
		for a := 1; a < m-1; a++ {
			for b := 1; b < m-1-a; b++ {
				cc := m - 1 - a - b
				if cc >= 1 {
					n += c02ThreeBody * c02Bodies(a, d-1, loop) * c02Bodies(b, d-1, loop) * c02Bodies(cc, d-1, loop)
				}
			}
		}
	}
	c02StmtCnt[k] = n
	return n
}

func c02Bodies(m, d int, loop bool) int64 {
	if m == 0 {
		return 0
	}
	k := c02Key{m, d, loop}
	if v, ok := c02BodyCnt[k]; ok {
		return v
	}
	n := c02Stmts(m, d, loop)
	for s := 1; s < m; s++ {
		n += c02Stmts(s, d, loop) * c02Bodies(m-s, d, loop)
	}
	c02BodyCnt[k] = n
	return n
}

// skeleton statement (before trace planting / numbering)
type c02Node struct {
	kind   string // R E B C If While Iter
	conds  []bool
	bodies [][]*c02Node
	iter   int  // 0..4 : list1 list2 dict2 novars empty
	noElse bool // 如果 / 再如 with two bodies and no 否则
}

func c02UnrankBody(m, d int, loop bool, idx int64) []*c02Node {
	n := c02Stmts(m, d, loop)
	if idx < n {
		return []*c02Node{c02UnrankStmt(m, d, loop, idx)}
	}
	idx -= n
	for s := 1; s < m; s++ {
		a, b := c02Stmts(s, d, loop), c02Bodies(m-s, d, loop)
		if idx < a*b {
			first := c02UnrankStmt(s, d, loop, idx%a)
			rest := c02UnrankBody(m-s, d, loop, idx/a)
			return append([]*c02Node{first}, rest...)
		}
		idx -= a * b
	}
	panic("c02: unrank body out of range")
}

func c02UnrankStmt(m, d int, loop bool, idx int64) *c02Node {
	if m == 1 {
		switch idx {
		case 0:
			return &c02Node{kind: "R"}
		case 1:
			return &c02Node{kind: "E"}
		case 2:
			return &c02Node{kind: "B"}
		case 3:
			return &c02Node{kind: "C"}
		}
		panic("c02: leaf idx")
	}
	one := c02Bodies(m-1, d-1, loop)
	if idx < c02OneBodyIf*one {
		return &c02Node{kind: "If", conds: []bool{idx%2 == 0}, bodies: [][]*c02Node{c02UnrankBody(m-1, d-1, loop, idx/2)}}
	}
	idx -= c02OneBodyIf * one
	lp := c02Bodies(m-1, d-1, true)
	if idx < c02Loops*lp {
		which := int(idx % c02Loops)
		body := c02UnrankBody(m-1, d-1, true, idx/c02Loops)
		if which == 0 {
			return &c02Node{kind: "While", bodies: [][]*c02Node{body}}
		}
		if which == 6 {
			return &c02Node{kind: "WhileFlag", bodies: [][]*c02Node{body}}
		}
		return &c02Node{kind: "Iter", iter: which - 1, bodies: [][]*c02Node{body}}
	}
	idx -= c02Loops * lp
	for a := 1; a < m-1; a++ {
		b := m - 1 - a
		if b < 1 {
			continue
		}
		na, nb := c02Bodies(a, d-1, loop), c02Bodies(b, d-1, loop)
		if idx < c02TwoBodyIf*na*nb {
			v := idx % c02TwoBodyIf
			idx /= c02TwoBodyIf
			if v >= 2 {
				// 如果 / 再如 without 否则: a chain that can run no branch at all, and whose last
				// block is a 再如 block (what follows it on a shallower line belongs to an outer chain)
				return &c02Node{kind: "If", conds: []bool{(v-2)%2 == 0, (v-2)/2 == 0}, noElse: true, bodies: [][]*c02Node{c02UnrankBody(a, d-1, loop, idx%na), c02UnrankBody(b, d-1, loop, idx/na)}}
			}
			cond := v == 0
			return &c02Node{kind: "If", conds: []bool{cond}, bodies: [][]*c02Node{c02UnrankBody(a, d-1, loop, idx%na), nil, c02UnrankBody(b, d-1, loop, idx/na)}}
		}
		idx -= c02TwoBodyIf * na * nb
	}
	for a := 1; a < m-1; a++ {
		for b := 1; b < m-1-a; b++ {
			cc := m - 1 - a - b
			if cc < 1 {
				continue
			}
			na, nb, nc := c02Bodies(a, d-1, loop), c02Bodies(b, d-1, loop), c02Bodies(cc, d-1, loop)
			if idx < c02ThreeBody*na*nb*nc {
				c1, c2 := idx%2 == 0, (idx/2)%2 == 0
				idx /= 4
				return &c02Node{kind: "If", conds: []bool{c1, c2}, bodies: [][]*c02Node{
					c02UnrankBody(a, d-1, loop, idx%na), c02UnrankBody(b, d-1, loop, (idx/na)%nb), c02UnrankBody(cc, d-1, loop, idx/(na*nb))}}
			}
			idx -= c02ThreeBody * na * nb * nc
		}
	}
	panic("c02: unrank stmt out of range")
}

// c02Build turns a skeleton into statements: plants traces, numbers values,
// adds loop counters.
type c02Builder struct {
	next int
	feat map[string]bool
	// stray: every 结束循环 / 继续循环 of the tree is replaced by a call of a method whose OWN
	// body executes that statement outside any loop of its own (c02StrayDefs): it acts on no
	// loop of the caller, the call is rejected inside the wrapper, which handles the exception
	stray bool
	// bare: no trace after the last statement of a block, so that a block can END with a
	// compound statement (what follows a nested chain on a shallower line belongs to the outer one)
	bare bool
}

func c02Show(args ...zn.Expr) zn.Stmt {
	return zn.ExprStmt{E: zn.Call{Name: "显示", Args: args}}
}

// 跳 / 续: the loop statement alone (inside a 如果 for 续); 试跳 / 试续: call it, trace, handle.
var c02StrayDefs = []zn.Stmt{
	zn.Func{Name: "跳", Body: []zn.Stmt{c02Show(zn.Str{Val: "跳"}), zn.Break{}}},
	zn.Func{Name: "续", Body: []zn.Stmt{c02Show(zn.Str{Val: "续"}), zn.If{Cond: zn.Var{Name: "真"}, Then: []zn.Stmt{zn.Continue{}}}, c02Show(zn.Str{Val: "续后"})}},
	zn.Func{Name: "试跳", Body: []zn.Stmt{zn.ExprStmt{E: zn.Call{Name: "跳"}}, c02Show(zn.Str{Val: "跳回"})},
		Catches: []zn.Catch{{Class: "异常", Body: []zn.Stmt{c02Show(zn.Str{Val: "拦跳"})}}}},
	zn.Func{Name: "试续", Body: []zn.Stmt{zn.ExprStmt{E: zn.Call{Name: "续"}}, c02Show(zn.Str{Val: "续回"})},
		Catches: []zn.Catch{{Class: "异常", Body: []zn.Stmt{c02Show(zn.Str{Val: "拦续"})}}}},
}

func (b *c02Builder) id() int { b.next++; return b.next }

func c02Bool(v bool) zn.Expr {
	if v {
		return zn.Var{Name: "真"}
	}
	return zn.Var{Name: "假"}
}

// cond renders a branch condition as a traced call, so that evaluating a
// condition that must not be evaluated (a 再如 after the branch that was taken)
// is observable.
func (b *c02Builder) cond(v bool) zn.Expr {
	return zn.Call{Name: "验", Args: []zn.Expr{b.num(), c02Bool(v)}}
}

var c02Tracer = zn.Func{Name: "验", Params: []string{"K", "V"}, Body: []zn.Stmt{
	zn.ExprStmt{E: zn.Call{Name: "显示", Args: []zn.Expr{zn.Str{Val: "验"}, zn.Var{Name: "K"}}}},
	zn.Return{Val: zn.Var{Name: "V"}},
}}

func (b *c02Builder) trace(args ...zn.Expr) zn.Stmt {
	return zn.ExprStmt{E: zn.Call{Name: "显示", Args: args}}
}

func (b *c02Builder) num() zn.Expr { return zn.Num{Lit: fmt.Sprint(b.id())} }

// body builds a block; trailing=false suppresses the trace after the last
// statement (top level of the program, so that the final-expression rule is observable).
func (b *c02Builder) body(nodes []*c02Node, trailing bool) []zn.Stmt {
	var out []zn.Stmt
	for _, n := range nodes {
		out = append(out, b.trace(b.num()))
		out = append(out, b.stmt(n)...)
	}
	if trailing && !b.bare {
		out = append(out, b.trace(b.num()))
	}
	if len(nodes) > 0 && len(nodes[len(nodes)-1].bodies) > 0 {
		b.feat["block-ends-with-compound"] = true
	}
	return out
}

func (b *c02Builder) stmt(n *c02Node) []zn.Stmt {
	b.feat[n.kind] = true
	switch n.kind {
	case "R":
		return []zn.Stmt{zn.Return{Val: b.num()}}
	case "E":
		// an expression statement followed by a definition: a definition is hoisted, it is not
		// a statement that runs, so the expression stays the block's / program's final expression
		return []zn.Stmt{zn.ExprStmt{E: b.num()}, zn.Func{Name: fmt.Sprintf("定%d", b.id()), Body: []zn.Stmt{zn.Return{Val: zn.Num{Lit: "0"}}}}}
	case "B":
		if b.stray {
			return []zn.Stmt{zn.ExprStmt{E: zn.Call{Name: "试跳"}}}
		}
		return []zn.Stmt{zn.Break{}}
	case "C":
		if b.stray {
			return []zn.Stmt{zn.ExprStmt{E: zn.Call{Name: "试续"}}}
		}
		return []zn.Stmt{zn.Continue{}}
	case "If":
		s := zn.If{Cond: b.cond(n.conds[0]), Then: b.body(n.bodies[0], true)}
		if n.noElse {
			b.feat["chain-without-else"] = true
			s.Elifs = []zn.Elif{{Cond: b.cond(n.conds[1]), Body: b.body(n.bodies[1], true)}}
			return []zn.Stmt{s}
		}
		if len(n.bodies) == 3 {
			if n.bodies[1] != nil {
				s.Elifs = []zn.Elif{{Cond: b.cond(n.conds[1]), Body: b.body(n.bodies[1], true)}}
			}
			s.HasElse = true
			s.Else = b.body(n.bodies[2], true)
		}
		return []zn.Stmt{s}
	case "While":
		cn := fmt.Sprintf("N%d", b.id())
		body := []zn.Stmt{zn.ExprStmt{E: zn.Assign{Target: zn.Var{Name: cn}, Val: zn.Bin{Op: "+", L: zn.Var{Name: cn}, R: zn.Num{Lit: "1"}}}}}
		body = append(body, b.trace(zn.Var{Name: cn}))
		body = append(body, b.body(n.bodies[0], true)...)
		return []zn.Stmt{
			zn.Decl{Pairs: []zn.DeclPair{{Names: []string{cn}, Val: zn.Num{Lit: "0"}}}},
			zn.While{Cond: zn.Bin{Op: "<", L: zn.Var{Name: cn}, R: zn.Num{Lit: "2"}}, Body: body},
		}
	case "WhileFlag":
		// the whole condition is a flag variable; the body clears it in its second pass: the
		// condition is re-tested (re-read) before every pass
		id := b.id()
		fl, cn := fmt.Sprintf("续%d", id), fmt.Sprintf("N%d", id)
		body := []zn.Stmt{zn.ExprStmt{E: zn.Assign{Target: zn.Var{Name: cn}, Val: zn.Bin{Op: "+", L: zn.Var{Name: cn}, R: zn.Num{Lit: "1"}}}}}
		body = append(body, b.trace(zn.Var{Name: cn}))
		body = append(body, zn.If{Cond: zn.Bin{Op: ">=", L: zn.Var{Name: cn}, R: zn.Num{Lit: "2"}}, Then: []zn.Stmt{zn.ExprStmt{E: zn.Assign{Target: zn.Var{Name: fl}, Val: zn.Var{Name: "假"}}}}})
		// a guard so that a loop that misses the change still ends (and shows in the trace)
		body = append(body, zn.If{Cond: zn.Bin{Op: ">=", L: zn.Var{Name: cn}, R: zn.Num{Lit: "5"}}, Then: []zn.Stmt{zn.Break{}}})
		body = append(body, b.body(n.bodies[0], true)...)
		return []zn.Stmt{
			zn.Decl{Pairs: []zn.DeclPair{{Names: []string{cn}, Val: zn.Num{Lit: "0"}}}},
			zn.Decl{Pairs: []zn.DeclPair{{Names: []string{fl}, Val: zn.Var{Name: "真"}}}},
			zn.While{Cond: zn.Var{Name: fl}, Body: body},
		}
	case "Iter":
		id := b.id()
		kv, vv := fmt.Sprintf("K%d", id), fmt.Sprintf("V%d", id)
		list := zn.List{Items: []zn.Expr{zn.Num{Lit: "10"}, zn.Num{Lit: "20"}}}
		var it zn.Iter
		var hdr zn.Stmt
		var extraHdr []zn.Stmt
		switch n.iter {
		case 0:
			it = zn.Iter{Vars: []string{vv}, Target: list}
			hdr = b.trace(zn.Var{Name: vv})
		case 1:
			it = zn.Iter{Vars: []string{kv, vv}, Target: list}
			hdr = b.trace(zn.Var{Name: kv}, zn.Var{Name: vv})
			// the index variable is this pass's own number: changing it in place must not
			// reach the next pass, an enclosing loop or a later loop
			extraHdr = []zn.Stmt{zn.ExprStmt{E: zn.MCall{Root: zn.Var{Name: kv}, Chain: []zn.Call{{Name: "自增", Args: []zn.Expr{zn.Num{Lit: "5"}}}}}}, b.trace(zn.Var{Name: kv})}
		case 2:
			// (the dictionary of the prelude: four entries written in unsorted order, the first one
			// removed again - the remaining three are visited in the order they were written)
			it = zn.Iter{Vars: []string{kv, vv}, Target: zn.Var{Name: "典"}}
			hdr = b.trace(zn.Var{Name: kv}, zn.Var{Name: vv})
		case 3:
			it = zn.Iter{Target: list}
			hdr = b.trace(zn.Str{Val: "pass"})
		default:
			it = zn.Iter{Vars: []string{vv}, Target: zn.List{}}
			hdr = b.trace(zn.Var{Name: vv})
		}
		it.Body = append(append([]zn.Stmt{hdr}, extraHdr...), b.body(n.bodies[0], true)...)
		return []zn.Stmt{it}
	}
	panic("c02: kind")
}

type c02Case struct {
	M      int    `json:"nodes"`
	Idx    int64  `json:"index"`
	Method bool   `json:"as_method"`
	Stray  bool   `json:"loop_statements_in_callees,omitempty"`
	Bare   bool   `json:"no_trace_at_block_ends,omitempty"`
	Source string `json:"source"`
}

const c02Depth = 3

// mode: 0 plain, 1 loop statements in callees, 2 no trace at the end of blocks
func c02Make(m int, idx int64, method bool, mode int) (*zn.Program, map[string]bool) {
	sk := c02UnrankBody(m, c02Depth, false, idx)
	b := &c02Builder{feat: map[string]bool{}, stray: mode == 1, bare: mode == 2}
	stray := mode == 1
	pre := []zn.Stmt{c02Tracer,
		zn.Decl{Pairs: []zn.DeclPair{{Names: []string{"典"}, Val: zn.Dict{Pairs: []zn.DictPair{{Key: "丙", Val: zn.Num{Lit: "0"}}, {Key: "乙", Val: zn.Num{Lit: "1"}}, {Key: "甲", Val: zn.Num{Lit: "2"}}, {Key: "丁", Val: zn.Num{Lit: "3"}}, {Key: "乙", Val: zn.Num{Lit: "4"}}}}}}},
		zn.ExprStmt{E: zn.MCall{Root: zn.Var{Name: "典"}, Chain: []zn.Call{{Name: "移除", Args: []zn.Expr{zn.Str{Val: "丙"}}}}}},
	}
	if stray {
		pre = append(pre, c02StrayDefs...)
	}
	if method {
		f := zn.Func{Name: "F", Body: b.body(sk, true)}
		return &zn.Program{Body: append(pre, f, b.trace(zn.Num{Lit: "1000"}), zn.Return{Val: zn.Call{Name: "F"}})}, b.feat
	}
	return &zn.Program{Body: append(pre, b.body(sk, false)...)}, b.feat
}

func c02Check(m int, idx int64, method bool, mode int) (*mc.Failure, *zn.Program) {
	prog, feat := c02Make(m, idx, method, mode)
	stray := mode == 1
	if stray && !feat["B"] && !feat["C"] {
		return nil, nil // no loop statement in this tree: the plain run is the same program
	}
	if mode == 2 && (!feat["block-ends-with-compound"] || m >= 5 && !feat["chain-without-else"]) {
		return nil, nil
	}
	src := zn.Render(prog, nil)
	cs := func() json.RawMessage {
		return mc.J(c02Case{M: m, Idx: idx, Method: method, Stray: stray, Bare: mode == 2, Source: src})
	}
	rf := zn.NewRef()
	want, werr, aborted := rf.RunProgram(prog, nil)
	if aborted {
		return &mc.Failure{Kind: "crash", Case: cs(), Observed: "reference interpreter hit its step limit (generator bug)"}, prog
	}
	got := zn.RunReal(src, nil)
	fail := func(exp, obs string) *mc.Failure {
		f := &mc.Failure{Kind: "mismatch", Case: cs(), Expected: exp, Observed: obs}
		f.Sig = c02Sig(feat, rf.Trace, got.Trace, method)
		return f
	}
	if got.Panic != "" {
		return &mc.Failure{Kind: "panic", Case: cs(), Observed: got.Panic, Detail: got.Stack}, prog
	}
	if werr != nil {
		return &mc.Failure{Kind: "crash", Case: cs(), Observed: "reference raised an error on a well-formed control-flow program: " + werr.Error()}, prog
	}
	if got.Err != nil {
		return fail("completes", fmt.Sprintf("%s error %d %s", got.Err.Kind, got.Err.Code, got.Err.Msg)), prog
	}
	if strings.Join(got.Trace, "|") != strings.Join(rf.Trace, "|") {
		return fail("trace "+strings.Join(rf.Trace, " "), "trace "+strings.Join(got.Trace, " ")), prog
	}
	if want != nil && (method || rf.ResultDefined) {
		if got.Val != zn.Canon(want) {
			return fail("result "+zn.Canon(want), "result "+got.Val), prog
		}
	}
	return nil, prog
}

// c02Sig classifies a disagreement.  "return-in-loop": a loop body executed
// 输出 and the observed trace is the expected trace followed only by further
// events (later passes of that loop) — the known shape of the defect where 输出
// does not stop an enclosing loop.
func c02Sig(feat map[string]bool, want, got []string, method bool) string {
	if feat["R"] && (feat["While"] || feat["Iter"]) && len(got) > len(want) {
		same := true
		for i := range want {
			if want[i] != got[i] {
				same = false
			}
		}
		if same {
			return "return-in-loop"
		}
	}
	return ""
}

func init() {
	mc.Register(&mc.Check{
		ID:    "C02",
		Level: "exploration",
		Rule:  "E1 exhaustive by rank/unrank: every statement tree with <= k statement nodes and nesting <= 3 over {输出, expression, 结束循环, 继续循环 (inside loops only), 如果 (如果 | 如果/否则 | 如果/再如 | 如果/再如/否则, every truth assignment), 每当 (2 passes via a dedicated counter; 2 passes via a bare flag variable that the body clears), 遍历 over [10,20] with 1/2/0 variables, over a dictionary with 2 variables (four entries written unsorted, one key written twice in the literal, the first entry removed again), over an empty list}; every expression statement is followed by a method definition (hoisted, so the expression stays final); the two-variable list loop changes its index variable in place (自增) and traces it; a trace statement is planted before every statement and at the end of every block; each tree is run as program body and as method body; every tree of <= 4 (5 thorough) nodes that contains 结束循环 / 继续循环 is run again with each of them moved into a callee (a method whose own body executes the loop statement outside any loop of its own, called through a wrapper that handles the exception): it must act on no loop of the caller; every tree of <= 4 nodes (5 nodes: those with a 如果/再如 chain without 否则) with a block that ends with a compound statement is run again without the traces at block ends (a nested chain directly followed by the outer chain's 再如 / 否则). Distinct by construction; non-trivial = contains at least one compound statement.",
		Assumptions: []string{
			"reference interpreter written from manual ch.7/8 is the oracle (result + ordered trace)",
			"the program result is compared only when the statement defines it (an 输出 ran, or the last top-level statement is an expression)",
			"a method that ends without 输出: result not asserted (manual says 空, statement silent)",
			"trees above the node bound / nesting above 3 are not covered",
		},
		Budget: func(tier string) time.Duration {
			if tier == "thorough" {
				return 20 * time.Minute
			}
			return 240 * time.Second
		},
		Run: func(c *mc.Ctx) {
			K := 5
			if c.Tier == "thorough" {
				K = 6 // 6.7 M programs; 7 nodes would be 121 M
			}
			base := int64(0)
			for m := 1; m <= K; m++ {
				total := c02Bodies(m, c02Depth, false)
				mm, b0 := m, base
				c.Describe = func(idx int64) json.RawMessage {
					k := idx - b0
					return mc.J(c02Case{M: mm, Idx: k / 2, Method: k%2 == 1})
				}
				for k := int64(0); k < total*2; k++ {
					idx := base + k
					if !c.Mine(idx) {
						continue
					}
					if c.Due(0x3FF) {
						c.Note(fmt.Sprintf("deadline hit at %d nodes", m))
						return
					}
					c.CaseIdx(idx)
					f, prog := c02Check(m, k/2, k%2 == 1, 0)
					c.Eval(m > 1)
					c.Stat(fmt.Sprintf("programs_%d_nodes", m), 1)
					if f != nil {
						c.Fail(*f)
					}
					if c.WantSample() && m == 4 && k%1777 == 5 {
						c.Sample(zn.Render(prog, nil))
					}
				}
				base += total * 2
				c.Bound(fmt.Sprintf("nodes_%d", m), fmt.Sprintf("complete: %d trees x 2 (program body / method body)", total))
			}
			// the same trees (1) with every 结束循环 / 继续循环 moved into a callee (c02StrayDefs),
			// (2) without the trace at the end of blocks (blocks may end with a compound statement)
			for mode := 1; mode <= 2; mode++ {
				KS := 4
				if c.Tier == "thorough" || mode == 2 {
					KS = 5
				}
				base = int64(mode) << 40
				for m := 2; m <= KS; m++ {
					total := c02Bodies(m, c02Depth, false)
					mm, b0, md := m, base, mode
					c.Describe = func(idx int64) json.RawMessage {
						k := idx - b0
						return mc.J(c02Case{M: mm, Idx: k / 2, Method: k%2 == 1, Stray: md == 1, Bare: md == 2})
					}
					for k := int64(0); k < total*2; k++ {
						idx := base + k
						if !c.Mine(idx) {
							continue
						}
						if c.Due(0x3FF) {
							c.Note(fmt.Sprintf("deadline hit at %d nodes (mode %d)", m, mode))
							return
						}
						c.CaseIdx(idx)
						f, prog := c02Check(m, k/2, k%2 == 1, mode)
						if prog == nil {
							continue
						}
						c.Eval(true)
						c.Stat([]string{"", "programs_with_loop_statements_in_callees", "programs_without_trace_at_block_ends"}[mode], 1)
						if f != nil {
							c.Fail(*f)
						}
					}
					base += total * 2
				}
				c.Bound([]string{"", "loop_statements_in_callees", "no_trace_at_block_ends"}[mode], fmt.Sprintf("complete: every tree of 2..%d nodes that %s, x 2", KS, []string{"", "contains 结束循环 / 继续循环", "has a block ending with a compound statement (5 nodes: and a chain without 否则)"}[mode]))
			}
			c02NonBool(c)
			c02WalkChange(c)
		},
		Replay: func(c *mc.Ctx, raw json.RawMessage) {
			var cs c02Case
			if err := json.Unmarshal(raw, &cs); err != nil {
				c.Fail(mc.Failure{Kind: "crash", Observed: err.Error()})
				return
			}
			if cs.M == 0 {
				c02NonBool(c)
				c02WalkChange(c)
				return
			}
			mode := 0
			if cs.Stray {
				mode = 1
			} else if cs.Bare {
				mode = 2
			}
			if f, _ := c02Check(cs.M, cs.Idx, cs.Method, mode); f != nil {
				c.Fail(*f)
			}
		},
	})
}

// c02NonBool: non-boolean conditions are rejected (如果 / 再如 / 每当).
func c02NonBool(c *mc.Ctx) {
	if c.Shard != 0 {
		return
	}
	conds := []string{"1", "“a”", "空", "【】", "0"}
	forms := []string{
		"（显示：1）\n如果%s：\n    （显示：2）\n（显示：3）",
		"（显示：1）\n如果假：\n    （显示：2）\n再如%s：\n    （显示：4）\n（显示：3）",
		"（显示：1）\n每当%s：\n    （显示：2）\n    结束循环\n（显示：3）",
	}
	for _, cd := range conds {
		for _, f := range forms {
			src := fmt.Sprintf(f, cd)
			got := zn.RunReal(src, nil)
			c.Eval(true)
			c.Stat("non_boolean_condition_programs", 1)
			if got.Panic != "" || got.Err == nil || strings.Join(got.Trace, " ") != "n:3ff0000000000000" {
				c.Fail(mc.Failure{Kind: "mismatch", Case: mc.J(c02Case{Source: src}), Expected: "error after trace [1]", Observed: fmt.Sprintf("err=%v trace=%v panic=%s", got.Err, got.Trace, got.Panic)})
			}
		}
	}
}

// c02WalkChange: a dictionary is changed by the body of the loop that walks it (at pass p one
// entry is removed, overwritten or added).  The statement fixes this much whatever the loop does
// about entries that come or go meanwhile: no entry is visited twice, the visits follow insertion
// order, and every entry that is there from the first pass to the last is visited.
func c02WalkChange(c *mc.Ctx) {
	if c.Shard != 1%c.NShards {
		return
	}
	keys := []string{"乙", "甲", "丙", "丁"}
	type op struct {
		text    string
		removed string
		added   bool
	}
	var ops []op
	for _, k := range keys {
		ops = append(ops, op{text: "以典（移除：“" + k + "”）", removed: k})
		ops = append(ops, op{text: "典#“" + k + "” = 9"})
	}
	ops = append(ops, op{text: "典#“新” = 9", added: true}, op{text: "以典（写入：“新”、9）", added: true})
	for p := 0; p < len(keys); p++ {
		for _, o := range ops {
			src := "令典 = 【乙 = 1，甲 = 2，丙 = 3，丁 = 4】\n以键、值遍历典：\n    （显示：键）\n    如果 键 为 “" + keys[p] + "”：\n        " + o.text + "\n（显示：“终”）\n（显示：典之所有索引）"
			got := zn.RunReal(src, nil)
			c.Eval(true)
			c.Stat("walks_of_a_dictionary_changed_by_the_body", 1)
			fail := func(exp, obs string) {
				c.Fail(mc.Failure{Kind: "mismatch", Bucket: "walk-of-a-changed-dictionary", Case: mc.J(c02Case{Source: src}), Expected: exp, Observed: obs})
			}
			if got.Panic != "" || got.Err != nil {
				fail("completes", fmt.Sprintf("err=%v panic=%s trace=%v", got.Err, got.Panic, got.Trace))
				continue
			}
			end := -1
			for i, t := range got.Trace {
				if t == zn.Canon("终") {
					end = i
				}
			}
			if end < 0 || end+2 != len(got.Trace) {
				fail("visits, then 终, then the keys", fmt.Sprintf("trace=%v", got.Trace))
				continue
			}
			order := map[string]int{}
			for i, k := range append(append([]string{}, keys...), "新") {
				order[zn.Canon(k)] = i
			}
			seen := map[string]bool{}
			last, bad := -1, ""
			for _, t := range got.Trace[:end] {
				i, known := order[t]
				switch {
				case !known:
					bad = "a visit of " + t + ", which is no key"
				case seen[t]:
					bad = "entry " + t + " visited twice"
				case i < last:
					bad = "entry " + t + " visited out of insertion order"
				}
				seen[t], last = true, i
			}
			var final []string
			for i, k := range keys {
				if k == o.removed {
					// gone before its turn: not asserted either way; at or after its turn: it was visited
					if i <= p && !seen[zn.Canon(k)] && bad == "" {
						bad = "entry “" + k + "” (removed at or after its own pass) was not visited"
					}
					continue
				}
				final = append(final, k)
				if !seen[zn.Canon(k)] && bad == "" {
					bad = "entry “" + k + "”, there from the first pass to the last, was never visited"
				}
			}
			if o.added {
				final = append(final, "新")
			}
			if bad != "" {
				fail("every lasting entry once, in insertion order", bad+fmt.Sprintf("; trace=%v", got.Trace[:end]))
				continue
			}
			fl := &zn.LV{}
			for _, k := range final {
				fl.Items = append(fl.Items, k)
			}
			if want := zn.Canon(fl); got.Trace[end+1] != want {
				fail("keys after the loop "+want, got.Trace[end+1])
			}
		}
	}
	c.Bound("walks_of_a_changed_dictionary", fmt.Sprintf("complete: %d passes x %d changes", len(keys), len(ops)))
}
