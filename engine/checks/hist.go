package checks

// Shared E2 explorer for C07 / C12: breadth-first search over operation
// histories written as programs.  A state is the history reaching it; every
// successor is obtained by running prelude + history + op + observation on a
// FRESH real interpreter (live Go values are never cloned) and on the
// reference interpreter, comparing traces (one observation after every op) and
// error outcomes.  States are merged on the reference state key only after a
// probe battery found no hidden sharing.

import (
	"encoding/json"
	"fmt"
	"hash/fnv"
	"sort"
	"strings"

	"verif/engine/mc"
	"verif/engine/zn"
)

type histOp struct {
	Label    string
	Stmts    []zn.Stmt
	Declares []string // names this op declares at top level
}

type histSpec struct {
	ID      string
	Prelude []zn.Stmt
	Imports []zn.Import
	Init    []histOp // alternative initial ops (history always starts with one)
	// Ops lists the operations offered in a state (given declared names and the reference state).
	Ops func(declared []string, rf *zn.Ref, depth int) []histOp
	// Observe builds the observation statements for the declared names.
	Observe func(declared []string) []zn.Stmt
	// Probes builds the hidden-sharing probe battery for a state.
	Probes func(declared []string, rf *zn.Ref) []histOp
	// Key adds to the state key (beyond the canonical values of all names).
	WithText bool
	// Blind: every history of >= 3 operations is also run with a single observation at its end.
	Blind    bool
	SetupRef func(rf *zn.Ref)
	ObjProps []string
	Sig      func(f *mc.Failure, labels []string) string
}

type histCase struct {
	Part   string   `json:"part"`
	Labels []string `json:"history"`
	Source string   `json:"source"`
}

func histHash(k string) uint64 {
	h := fnv.New64a()
	h.Write([]byte(k))
	return h.Sum64()
}

type histNode struct {
	hist     []histOp
	declared []string
}

func (sp *histSpec) program(hist []histOp, extra []histOp, declared []string) *zn.Program {
	return sp.programObs(hist, extra, false)
}

// programObs: blind = observe only once, after the last operation (an observation
// may itself repair or refresh hidden state, e.g. a lazily compacted key order).
func (sp *histSpec) programObs(hist []histOp, extra []histOp, blind bool) *zn.Program {
	body := append([]zn.Stmt{}, sp.Prelude...)
	decl := []string{}
	n := len(hist) + len(extra)
	for i, op := range append(append([]histOp{}, hist...), extra...) {
		body = append(body, op.Stmts...)
		decl = append(decl, op.Declares...)
		if !blind || i == n-1 {
			body = append(body, sp.Observe(decl)...)
		}
	}
	return &zn.Program{Imports: sp.Imports, Body: body}
}

// stateKey: canonical values of all declared names plus object identity structure.
func histStateKey(rf *zn.Ref, declared []string) string {
	ids := map[*zn.OV]int{}
	var sb strings.Builder
	var walk func(v zn.V)
	walk = func(v zn.V) {
		switch x := v.(type) {
		case *zn.OV:
			if id, ok := ids[x]; ok {
				fmt.Fprintf(&sb, "@%d", id)
				return
			}
			ids[x] = len(ids)
			fmt.Fprintf(&sb, "obj%d{", ids[x])
			ks := make([]string, 0, len(x.Props))
			for k := range x.Props {
				ks = append(ks, k)
			}
			sort.Strings(ks)
			for _, k := range ks {
				sb.WriteString(k + ":")
				walk(x.Props[k])
				sb.WriteByte(',')
			}
			sb.WriteByte('}')
		case *zn.LV:
			sb.WriteByte('[')
			for _, it := range x.Items {
				walk(it)
				sb.WriteByte(',')
			}
			sb.WriteByte(']')
		case *zn.DV:
			sb.WriteByte('{')
			for _, k := range x.Keys {
				sb.WriteString(k + ":")
				walk(x.M[k])
				sb.WriteByte(',')
			}
			sb.WriteByte('}')
		default:
			sb.WriteString(zn.Canon(v))
		}
	}
	for _, n := range declared {
		v, ok := rf.TopVar(n)
		sb.WriteString(n + "=")
		if ok {
			walk(v)
		} else {
			sb.WriteString("?")
		}
		sb.WriteByte(';')
	}
	return sb.String()
}

// run executes one program on both sides and compares.
func (sp *histSpec) run(part string, hist []histOp, extra []histOp) (f *mc.Failure, rf *zn.Ref, errored bool, open bool) {
	declared := []string{}
	for _, op := range hist {
		declared = append(declared, op.Declares...)
	}
	prog := sp.program(hist, extra, declared)
	src := zn.Render(prog, nil)
	labels := []string{}
	for _, op := range hist {
		labels = append(labels, op.Label)
	}
	for _, op := range extra {
		labels = append(labels, op.Label)
	}
	return sp.compare(part, prog, src, labels)
}

func (sp *histSpec) compare(part string, prog *zn.Program, src string, labels []string) (f *mc.Failure, rf *zn.Ref, errored bool, open bool) {
	cs := func() json.RawMessage { return mc.J(histCase{Part: part, Labels: labels, Source: src}) }
	rf = zn.NewRef()
	rf.TraceWithText = sp.WithText
	if sp.SetupRef != nil {
		sp.SetupRef(rf)
	}
	_, werr, aborted := rf.RunProgram(prog, nil)
	if aborted {
		return &mc.Failure{Kind: "crash", Case: cs(), Observed: "reference step limit"}, rf, true, false
	}
	if rf.Open {
		return nil, rf, werr != nil, true
	}
	zn.TraceWithText = sp.WithText
	zn.ObjPropNames = sp.ObjProps
	got := zn.RunReal(src, nil)
	zn.TraceWithText = false
	mk := func(bucket, exp, obs string) *mc.Failure {
		fl := &mc.Failure{Kind: "mismatch", Bucket: part + ":" + bucket, Case: cs(), Expected: exp, Observed: obs}
		if sp.Sig != nil {
			fl.Sig = sp.Sig(fl, labels)
		}
		return fl
	}
	if got.Panic != "" {
		fl := &mc.Failure{Kind: "panic", Bucket: part + ":panic", Case: cs(), Observed: got.Panic, Detail: got.Stack}
		if sp.Sig != nil {
			fl.Sig = sp.Sig(fl, labels)
		}
		return fl, rf, true, false
	}
	wt, gt := strings.Join(rf.Trace, " | "), strings.Join(got.Trace, " | ")
	last := "?"
	if len(labels) > 0 {
		last = labels[len(labels)-1]
		if i := strings.IndexAny(last, " ："); i > 0 {
			last = last[:i]
		}
	}
	if werr != nil {
		if got.Err == nil {
			return mk("accepted:"+last, fmt.Sprintf("error %d (%s) after trace %s", werr.Code, werr.Note, wt), "completed, trace "+gt), rf, true, false
		}
		if wt != gt {
			return mk("trace-before-error:"+last, "trace "+wt, "trace "+gt), rf, true, false
		}
		if !werr.Crossed && !werr.AnyCode && got.Err.Kind == "runtime" && got.Err.Code != werr.Code {
			return mk(fmt.Sprintf("code-%d-vs-%d", werr.Code, got.Err.Code), fmt.Sprintf("error code %d", werr.Code), fmt.Sprintf("error code %d", got.Err.Code)), rf, true, false
		}
		return nil, rf, true, false
	}
	if got.Err != nil {
		return mk("rejected:"+last, "completes, trace "+wt, fmt.Sprintf("%s error %d %s after trace %s", got.Err.Kind, got.Err.Code, got.Err.Msg, gt)), rf, false, false
	}
	if wt != gt {
		return mk("trace:"+last, "trace "+wt, "trace "+gt), rf, false, false
	}
	return nil, rf, false, false
}

// explore runs the BFS to the given history length.
func (sp *histSpec) explore(c *mc.Ctx, maxLen int) {
	// states are remembered by a 64-bit hash of their canonical key (the keys are hundreds of
	// bytes each and every worker holds the whole set)
	seen := map[uint64]bool{}
	var frontier []histNode
	var states, trans, probes, terminal, opens int64
	tIdx := int64(0)
	visit := func(part string, hist []histOp, extra []histOp) (*zn.Ref, bool, bool) {
		tIdx++
		mine := c.Mine(tIdx)
		if mine {
			h, e := hist, extra
			c.Case(tIdx, func() json.RawMessage {
				var labels []string
				for _, op := range h {
					labels = append(labels, op.Label)
				}
				for _, op := range e {
					labels = append(labels, op.Label)
				}
				return mc.J(histCase{Part: part, Labels: labels, Source: zn.Render(sp.program(h, e, nil), nil)})
			})
			f, rf, errored, open := sp.run(part, hist, extra)
			if f != nil {
				c.Fail(*f)
			}
			defer c.Idle() // what this worker computes until its next own case is harness work, not the case
			if f == nil && !open && sp.Blind && part == "op" && len(hist) >= 2 {
				// the same history observed only at its end
				var labels []string
				for _, op := range append(append([]histOp{}, hist...), extra...) {
					labels = append(labels, op.Label)
				}
				prog := sp.programObs(hist, extra, true)
				if fb, _, _, ob := sp.compare("blind", prog, zn.Render(prog, nil), labels); fb != nil && !ob {
					c.Fail(*fb)
				}
				c.Stat("histories_observed_only_at_the_end", 1)
			}
			if !open {
				c.Eval(true)
				c.Stat("traces_validated_against_impl", 1)
			}
			return rf, errored, open
		}
		// not this worker's transition: the reference alone gives the successor
		declared := []string{}
		for _, op := range hist {
			declared = append(declared, op.Declares...)
		}
		rf := zn.NewRef()
		rf.TraceWithText = sp.WithText
		if sp.SetupRef != nil {
			sp.SetupRef(rf)
		}
		_, werr, aborted := rf.RunProgram(sp.program(hist, extra, declared), nil)
		return rf, werr != nil || aborted, rf.Open
	}
	for _, in := range sp.Init {
		rf, errored, open := visit("init", nil, []histOp{in})
		trans++
		if errored || open {
			continue
		}
		k := histStateKey(rf, in.Declares)
		if !seen[histHash(k)] {
			seen[histHash(k)] = true
			states++
			frontier = append(frontier, histNode{hist: []histOp{in}, declared: in.Declares})
		}
	}
	for depth := 1; depth < maxLen && len(frontier) > 0; depth++ {
		var next []histNode
		for _, nd := range frontier {
			if c.Expired() {
				c.Note(fmt.Sprintf("deadline hit at history length %d", depth+1))
				break
			}
			// reference state of this node (for op generation)
			rf0 := zn.NewRef()
			if sp.SetupRef != nil {
				sp.SetupRef(rf0)
			}
			rf0.RunProgram(sp.program(nd.hist, nil, nd.declared), nil)
			for _, op := range sp.Ops(nd.declared, rf0, depth) {
				rf, errored, open := visit("op", nd.hist, []histOp{op})
				trans++
				if open {
					opens++
					continue
				}
				if errored {
					terminal++
					continue
				}
				decl := append(append([]string{}, nd.declared...), op.Declares...)
				k := histStateKey(rf, decl)
				h := append(append([]histOp{}, nd.hist...), op)
				// the probe battery runs after EVERY transition, also one that leads to a
				// reference state seen before: two histories with equal reference states may
				// leave the implementation in different states (sharing is exactly what the
				// reference does not have), so the duplicate is absorbed only after its own
				// history has been probed
				if sp.Probes != nil {
					for _, pr := range sp.Probes(decl, rf) {
						visit("probe", h, []histOp{pr})
						probes++
					}
				}
				if seen[histHash(k)] {
					continue
				}
				seen[histHash(k)] = true
				states++
				if depth == maxLen-1 {
					continue // the last level has no successors: its histories are not kept
				}
				next = append(next, histNode{hist: h, declared: decl})
				if c.WantSample() && c.Shard == 0 && states%997 == 5 {
					var labels []string
					for _, o := range h {
						labels = append(labels, o.Label)
					}
					c.Sample(map[string]any{"history": labels, "state": k})
				}
			}
		}
		frontier = next
		if c.Shard == 0 {
			c.Bound("history_length", depth+1)
		}
	}
	if c.Shard == 0 {
		c.Stat("states", states)
		c.Stat("transitions", trans)
		c.Stat("probe_runs", probes)
		c.Stat("terminal_error_transitions", terminal)
		c.Stat("open_transitions", opens)
	}
}

func (sp *histSpec) replay(c *mc.Ctx, raw json.RawMessage) {
	var cs histCase
	if err := json.Unmarshal(raw, &cs); err != nil {
		c.Fail(mc.Failure{Kind: "crash", Observed: err.Error()})
		return
	}
	// a replay re-executes the recorded source; the expectation is recomputed
	// by re-parsing the labels is not possible, so the source is run against
	// the reference through the recorded program text re-parsed by the harness dumper.
	tree, err, pan := c03Parse(cs.Source)
	if err != nil || pan != "" {
		c.Fail(mc.Failure{Kind: "crash", Case: raw, Observed: fmt.Sprintf("recorded source does not parse: %v %s", err, pan)})
		return
	}
	prog, _ := zn.Dump(tree)
	if f, _, _, _ := sp.compare(cs.Part, prog, cs.Source, cs.Labels); f != nil {
		c.Fail(*f)
	}
}
