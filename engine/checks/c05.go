package checks

// C05 — compilation and error display terminate cleanly on every input.
// E1: every symbol sequence <= L over a 35-symbol alphabet (keywords as units,
// all punctuation, quotes, backtick, white space, CR/LF, NUL, NEL, astral);
// every single-rune truncation / deletion / duplication / insertion of a corpus
// of valid programs (and all pairs on a subset); the same through ExecVarInputText.

import (
	"encoding/json"
	"fmt"
	"runtime/debug"
	"strings"
	"syscall"
	"time"

	zerr "github.com/DemoHn/Zn/pkg/error"
	"github.com/DemoHn/Zn/pkg/exec"
	"github.com/DemoHn/Zn/pkg/syntax"
	"github.com/DemoHn/Zn/pkg/syntax/zh"

	"verif/engine/mc"
	"verif/engine/zn"
)

var c05Alpha = []string{
	"如果", "令", "拦截", "输出", "以", "遍历",
	"：", "？", "！", "【", "】", "（", "）", "{", "}", "、", "，", "；",
	"“", "”", "`", " ", "\t", "\r", "\n", "\n    ",
	"甲", "1", "+", "=", "#", "\x00", "\u0085", "\U0001F600", "￥",
}

var c05Sub = []string{"如果", "令", "拦截", "以", "：", "？", "【", "（", "）", "“", "`", "\n    ", "\n", "甲", "=", "注"}

type c05Case struct {
	Part   string `json:"part"`
	Source string `json:"source"`
	Runes  []int  `json:"runes"`
}

func c05Check(src []rune, part string) *mc.Failure {
	cs := func() json.RawMessage { return mc.J(c05Case{Part: part, Source: string(src), Runes: toInts(src)}) }
	var f *mc.Failure
	func() {
		defer func() {
			if p := recover(); p != nil {
				f = &mc.Failure{Kind: "panic", Bucket: "panic", Case: cs(), Observed: fmt.Sprint(p)}
			}
		}()
		// the text is handed over as a slice of a larger array (a program cut out of a buffer):
		// neither the text nor the element behind it may be written to
		const guard = rune(0x7E57)
		buf := make([]rune, len(src)+1)
		copy(buf, src)
		buf[len(src)] = guard
		defer func() {
			if f != nil {
				return
			}
			if buf[len(src)] != guard {
				f = &mc.Failure{Kind: "mismatch", Bucket: "wrote-behind-source", Case: cs(), Expected: "the array element behind the source text is left alone", Observed: fmt.Sprintf("it was overwritten with %U", buf[len(src)])}
			} else if string(buf[:len(src)]) != string(src) {
				f = &mc.Failure{Kind: "mismatch", Bucket: "wrote-into-source", Case: cs(), Expected: "the source text is left as given", Observed: fmt.Sprintf("it now reads %q", string(buf[:len(src)]))}
			}
		}()
		p := syntax.NewParser(buf[:len(src)], zh.NewParserZH())
		tree, err := p.Parse()
		if err == nil {
			if tree == nil {
				f = &mc.Failure{Kind: "mismatch", Bucket: "nil-tree", Case: cs(), Expected: "tree or syntax error", Observed: "nil tree, nil error"}
				return
			}
			if _, missing := zn.Dump(tree); len(missing) > 0 {
				f = &mc.Failure{Kind: "mismatch", Bucket: "incomplete:" + missing[0], Case: cs(), Expected: "complete tree or syntax error", Observed: fmt.Sprintf("tree with missing parts %v", missing)}
				return
			}
			// a tree stands for the WHOLE text: the tokeniser, run over the text on its own, gets to
			// its end too (a text whose tail cannot even be cut into tokens has no tree)
			toks, lexErr, _ := c04Lex(src, nil)
			if lexErr != "" {
				f = &mc.Failure{Kind: "mismatch", Bucket: "tree-for-untokenisable-text", Case: cs(), Expected: "a syntax error: the tokeniser alone rejects this text (" + lexErr + ")", Observed: "a tree and no error"}
			} else if n := len(toks); n > 0 && toks[n-1].S < len(src) {
				// ... and its end is the end of the text, not a character it takes for the end
				f = &mc.Failure{Kind: "mismatch", Bucket: "tree-for-a-prefix-of-the-text", Case: cs(), Expected: fmt.Sprintf("a tree for all %d characters or a syntax error", len(src)), Observed: fmt.Sprintf("a tree and no error; the tokeniser reports the end of the text at position %d", toks[n-1].S)}
			}
			return
		}
		se, ok := err.(*zerr.SyntaxError)
		if !ok {
			f = &mc.Failure{Kind: "mismatch", Bucket: fmt.Sprintf("non-syntax-error:%T", err), Case: cs(), Expected: "*SyntaxError", Observed: fmt.Sprintf("%T: %v", err, err)}
			return
		}
		if se.Code == 0 || se.Cursor < 0 || se.Cursor > len(src) {
			f = &mc.Failure{Kind: "mismatch", Bucket: "position", Case: cs(), Expected: fmt.Sprintf("code != 0 and 0 <= position <= %d", len(src)), Observed: fmt.Sprintf("code=%d position=%d", se.Code, se.Cursor)}
			return
		}
		// rendering the error for the user
		text := exec.DisplayError(exec.WrapSyntaxError(p, exec.MODULE_NAME_MAIN, err))
		lines := strings.Split(text, "\n")
		if len(lines) < 2 {
			f = &mc.Failure{Kind: "mismatch", Bucket: "display-short", Case: cs(), Expected: "location line + quoted line", Observed: text}
			return
		}
		quoted := strings.Trim(lines[1], " \t")
		found := false
		for _, ln := range strings.FieldsFunc(string(src)+"\n", func(r rune) bool { return r == '\r' || r == '\n' }) {
			if strings.Trim(ln, " \t") == quoted {
				found = true
				break
			}
		}
		if !found && quoted == "" {
			found = true // an empty (or blank) line, e.g. error at an empty last line
		}
		if !found {
			f = &mc.Failure{Kind: "mismatch", Bucket: "quoted-line", Case: cs(), Expected: "quoted line is a line of the source", Observed: fmt.Sprintf("quoted %q", quoted)}
		}
	}()
	return f
}

// c05VarInput: the input-variable front end must terminate; evaluation panics
// belong to C10 and are not reported here.
func c05VarInput(src string) *mc.Failure {
	// one submission: error-ness, or the panic text (evaluation-time panics are C10's subject)
	once := func() (outcome string) {
		defer func() {
			if p := recover(); p != nil {
				outcome = "panic: " + fmt.Sprint(p)
			}
		}()
		if _, err := exec.ExecVarInputText(src); err != nil {
			return "error"
		}
		return "ok"
	}
	// the same text submitted again in the same process (a server worker does this
	// for every request): the front end must answer the same way
	a, b := once(), once()
	if a != b {
		return &mc.Failure{Kind: "mismatch", Bucket: "varinput-second-submission", Case: mc.J(c05Case{Part: "varinput", Source: src, Runes: toInts([]rune(src))}),
			Expected: "the second submission of the same input text is answered like the first: " + a, Observed: b}
	}
	return nil
}

func c05Corpus() [][]rune {
	var out [][]rune
	add := func(p *zn.Program) { out = append(out, []rune(zn.Render(p, nil))) }
	for i, p := range c03Sections() {
		if i%2 == 0 {
			add(p)
		}
	}
	e1, _ := c03Exprs()
	for i, e := range e1 {
		ps := c03Slots(e)
		add(ps[i%len(ps)])
	}
	for m := 1; m <= 2; m++ {
		for _, b := range c03Bodies(m, 2) {
			add(&zn.Program{Body: b})
		}
	}
	// a few layouts with comments, CRLF, TAB
	extra := []string{
		"如果甲：\r\n\t输出1 // 注释\r\n否则：\r\n\t输出2",
		"注：「多行\n注释」\n令甲 = “文\n本”\n/* 块\n注释 */输出甲",
		"定义T：\n    其P = 1\n    如何M？\n        输入X\n        输出其P + X\n    何为G？\n        输出1\n如何新建T？\n    输入V\n    其P = V\n令O = （新建T：2）\n输出以O（M：3）",
		"导入《@JSON》之解析JSON\n输入甲、乙\n以K、V遍历【A=1，“b”=2】：\n    （显示：K、V）\n抛出异常：“m”！\n拦截异常：\n    输出其内容",
	}
	for _, s := range extra {
		out = append(out, []rune(s))
	}
	return out
}

func init() {
	mc.Register(&mc.Check{
		ID:    "C05",
		Level: "exploration",
		Rule:  "E1 exhaustive: (a) every sequence of <= L symbols over a 35-symbol alphabet (6 keywords as units, all 12 punctuation marks, quotes, backtick, space, TAB, CR, LF, newline+indent, a name, a digit, + = #, NUL, U+0085, an astral character); (b) for every program of a corpus of valid renderings: truncation at every offset, deletion and duplication of every rune, insertion of every alphabet symbol at every offset (and all pairs of deletions on a subset); (c) the same inputs through ExecVarInputText, each text submitted twice in one process (termination; the second submission is answered like the first); (f) statement headers: every small expression (12 kinds) alone, in pairs and (6 kinds) in triples in the name slots of 以…遍历, 令, 输入, 得到, 如何, 恒为, 定义, 抛出; (e) deep nesting: 6 opening constructs ({ 【 a call, 以-chain, unary minus, 1 + {) repeated 1 .. 2 000 000 times around one operand, closed and unclosed: a tree or a positioned syntax error, and the process survives; (d) long lines: 14 faulty tails behind 6 kinds of padding (a long text, a long name, a long sum, blanks, a long comment, a long list) of every width 0..160 (0..400 thorough) on the only line, on the last line and on a middle line; (g) many lines: 4 line forms, 15 000 and 120 000 lines (the last form ends in a syntax error that is located and rendered): the processor time of the larger is at most 24 times that of the smaller (the ratio of two measurements of the process's own processor time, no wall clock). Oracle: terminates (watchdog), returns a tree xor a *SyntaxError with code != 0 and 0 <= position <= length, any returned tree passes the completeness walker and belongs to a text that the tokeniser alone reads to its end, DisplayError succeeds and quotes a line of the source; the text is handed over as a slice of a larger array and neither it nor the guard element behind it is written to. Distinct by construction; non-trivial = not parsed successfully or longer than one symbol.",
		Assumptions: []string{
			"a recovered Go runtime error leaking out of Parser.Parse as the error value is counted as a violation (it is not a syntax error with a position)",
			"hang = no result for 20 s on an input whose normal cost is microseconds; confirmed in a fresh process",
			"evaluation-time panics of input-variable texts are C10's subject, not reported here",
			"inputs longer than the bounds and symbols outside the alphabet are not covered",
		},
		Budget: func(tier string) time.Duration {
			if tier == "thorough" {
				return 25 * time.Minute
			}
			return 100 * time.Second
		},
		Run:    c05Run,
		Replay: c05Replay,
	})
}

func c05Build(alpha []string, n int, k int64, buf []rune) []rune {
	buf = buf[:0]
	for i := 0; i < n; i++ {
		buf = append(buf, []rune(alpha[k%int64(len(alpha))])...)
		k /= int64(len(alpha))
	}
	return buf
}

func c05Run(c *mc.Ctx) {
	L := 4
	if c.Tier == "thorough" {
		L = 5
	}
	type lvl struct {
		alpha []string
		n     int
	}
	var levels []lvl
	for n := 0; n <= L; n++ {
		levels = append(levels, lvl{c05Alpha, n})
	}
	levels = append(levels, lvl{c05Sub, 5})
	if c.Tier == "thorough" {
		levels = append(levels, lvl{c05Sub, 6}, lvl{c05Sub, 7})
	}
	base := int64(0)
	buf := make([]rune, 0, 64)
	report := func(f *mc.Failure) {
		if f != nil {
			f.Sig = c05Sig(f)
			c.Fail(*f)
		}
	}
	for _, lv := range levels {
		total := pow64(len(lv.alpha), lv.n)
		l, b0 := lv, base
		c.Describe = func(idx int64) json.RawMessage {
			s := c05Build(l.alpha, l.n, idx-b0, nil)
			return mc.J(c05Case{Part: "seq", Source: string(s), Runes: toInts(s)})
		}
		for k := int64(0); k < total; k++ {
			idx := base + k
			if !c.Mine(idx) {
				continue
			}
			if c.Due(0xFFFF) {
				c.Note(fmt.Sprintf("deadline hit in sequences of length %d", lv.n))
				return
			}
			c.CaseIdx(idx)
			buf = c05Build(lv.alpha, lv.n, k, buf)
			report(c05Check(buf, "seq"))
			c.Eval(lv.n > 1)
			c.Stat("sequences", 1)
			if lv.n <= 3 {
				report(c05VarInput(string(buf)))
				c.Stat("varinput_texts", 1)
			}
		}
		base += total
		c.Bound(fmt.Sprintf("sequences_len_%d_alphabet_%d", lv.n, len(lv.alpha)), "complete")
	}
	// (b) corpus mutations
	corpus := c05Corpus()
	idx := base
	var cur []rune
	var curPart string
	step := func(part string, s []rune) {
		cur, curPart = s, part
		report(c05Check(s, part))
		c.Eval(true)
		c.Stat("mutations", 1)
	}
	for pi, prog := range corpus {
		idx++
		if !c.Mine(idx) {
			continue
		}
		if c.Expired() {
			c.Note("deadline hit in corpus mutations")
			return
		}
		c.Case(idx, func() json.RawMessage { return mc.J(c05Case{Part: curPart, Source: string(cur), Runes: toInts(cur)}) })
		tick := func() { c.CaseIdx(idx) }
		step("corpus", prog)
		for i := 0; i <= len(prog); i++ {
			tick()
			step("truncate", prog[:i])
			if i < len(prog) {
				step("delete", append(append([]rune{}, prog[:i]...), prog[i+1:]...))
				step("duplicate", append(append([]rune{}, prog[:i+1]...), prog[i:]...))
			}
			for _, sym := range c05Alpha {
				m := append(append([]rune{}, prog[:i]...), []rune(sym)...)
				step("insert", append(m, prog[i:]...))
			}
			if c.Tier == "thorough" || pi%10 == 0 {
				report(c05VarInput(string(prog[:i])))
				c.Stat("varinput_texts", 1)
			}
		}
		// deviation 2: all pairs of deletions (subset in quick)
		if c.Tier == "thorough" || pi%7 == 0 {
			for i := 0; i < len(prog); i++ {
				tick()
				for j := i + 1; j < len(prog); j++ {
					m := append(append([]rune{}, prog[:i]...), prog[i+1:j]...)
					step("delete2", append(m, prog[j+1:]...))
				}
			}
		}
		if c.WantSample() && pi%37 == 3 {
			c.Sample(string(prog))
		}
	}
	if c.Shard == 0 {
		c.Stat("corpus_programs", int64(len(corpus)))
	}
	c.Bound("corpus_mutations", fmt.Sprintf("complete over %d programs", len(corpus)))

	// (d) long lines: every faulty tail at every column 0..K behind every kind of padding
	K := 160
	if c.Tier == "thorough" {
		K = 400
	}
	base = idx + 1
	total := int64(len(c05Tails) * c05PadKinds * 3 * (K + 1))
	c.Describe = func(i int64) json.RawMessage {
		s := c05LongLine(i-base, K)
		return mc.J(c05Case{Part: "long-line", Source: string(s), Runes: toInts(s)})
	}
	for k := int64(0); k < total; k++ {
		if !c.Mine(base + k) {
			continue
		}
		if c.Due(0xFFF) {
			c.Note("deadline hit in long lines")
			return
		}
		c.CaseIdx(base + k)
		report(c05Check(c05LongLine(k, K), "long-line"))
		c.Eval(true)
		c.Stat("long_line_cases", 1)
	}
	// (f) statement headers with operands of the wrong kind: every pair / triple of small
	// expressions in the name slots of 以…遍历, 令, 输入, 得到, 如何 — a complete tree or a syntax error
	{
		ops := []string{"甲", "甲#1", "“甲”", "【1】", "1", "甲之乙", "（甲）", "以甲（乙）", "真", "甲 + 1", "{甲}", "`甲`"}
		var heads []string
		for _, x := range ops {
			heads = append(heads, "以"+x+"遍历【1，2】：\n    输出1", "令"+x+" = 1", "输入"+x, "（法：1）得到"+x, "如何"+x+"？\n    输出1", "令"+x+"恒为1", "定义"+x+"：\n    其P = 1", "抛出"+x+"：1！")
			for _, y := range ops {
				heads = append(heads, "以"+x+"、"+y+"遍历【1，2】：\n    输出1", "令"+x+"、"+y+" = 1", "输入"+x+"、"+y, "如何法？\n    输入"+x+"、"+y+"\n    输出1")
			}
		}
		for _, x := range ops[:6] {
			for _, y := range ops[:6] {
				for _, z := range ops[:6] {
					heads = append(heads, "以"+x+"、"+y+"、"+z+"遍历【1，2】：\n    输出1")
				}
			}
		}
		hb := base + total
		c.Describe = func(i int64) json.RawMessage {
			s := []rune(heads[i-hb])
			return mc.J(c05Case{Part: "header", Source: string(s), Runes: toInts(s)})
		}
		for k := range heads {
			if !c.Mine(hb + int64(k)) {
				continue
			}
			c.CaseIdx(hb + int64(k))
			report(c05Check([]rune(heads[k]), "header"))
			c.Eval(true)
			c.Stat("statement_header_cases", 1)
		}
		total += int64(len(heads))
		c.Bound("statement_headers", fmt.Sprintf("complete: %d headers", len(heads)))
	}
	// (e) deep nesting: every opening bracket kind repeated N times around one operand (closed
	// and unclosed), N up to two million: a tree or a syntax error, and the process survives
	base += total
	depths := []int{1, 10, 100, 1000, 9999, 10000, 10001, 100000, 2000000}
	opens := []struct{ o, c string }{{"{", "}"}, {"【", "】"}, {"（显示：", "）"}, {"以", "（加：1）"}, {"-", ""}, {"1 + {", "}"}}
	c.Describe = func(i int64) json.RawMessage {
		k := i - base
		d, o := depths[k%int64(len(depths))], opens[(k/int64(len(depths)))%int64(len(opens))]
		return mc.J(map[string]any{"part": "deep-nesting", "open": o.o, "close": o.c, "depth": d, "closed": k/int64(len(depths)*len(opens)) == 0})
	}
	for k := int64(0); k < int64(len(depths)*len(opens)*2); k++ {
		if !c.Mine(base + k) {
			continue
		}
		c.CaseIdx(base + k)
		d, o := depths[k%int64(len(depths))], opens[(k/int64(len(depths)))%int64(len(opens))]
		closed := k/int64(len(depths)*len(opens)) == 0
		if d >= 100000 {
			c.AllowSlow(200) // megabytes of brackets: seconds on an idle machine
		}
		report(c05Deep(o.o, o.c, d, closed))
		c.Eval(true)
		c.Stat("deep_nesting_cases", 1)
	}
	c.Bound("deep_nesting", fmt.Sprintf("complete: %d bracket kinds x depths %v x closed/unclosed", len(opens), depths))
	// (g) many lines: compiling a source of 8 n lines costs about 8 times what n lines cost, not 64 times
	base += int64(len(depths) * len(opens) * 2)
	c.Describe = func(i int64) json.RawMessage {
		return mc.J(map[string]any{"part": "many-lines", "line_form": int(i - base)})
	}
	for k := 0; k < len(c05LineKinds); k++ {
		if !c.Mine(base + int64(k)) {
			continue
		}
		c.CaseIdx(base + int64(k))
		c.AllowSlow(300)
		report(c05ManyLines(k))
		c.AllowSlow(0)
		c.Note(c05ManyNote)
		c.Eval(true)
		c.Stat("many_lines_cases", 1)
	}
	c.Bound("many_lines", fmt.Sprintf("complete: %d line forms x {%d, %d} lines, processor time of the larger at most %d times that of the smaller", len(c05LineKinds), c05ManyN, 8*c05ManyN, c05ManyRatio))
	c.Bound("long_lines", fmt.Sprintf("complete: %d faulty tails x %d paddings x 3 line positions x every padding width 0..%d", len(c05Tails), c05PadKinds, K))
}

// many lines of one form; the last entry ends in a line that is a syntax error (the error is
// located and rendered in a text of that many lines)
var c05LineKinds = []struct{ name, line, last string }{
	{"assignments", "A = 1\n", "输出 7\n"},
	{"calls-in-blocks", "如果 真：\n    （显示：A）\n", "输出 7\n"},
	{"comments-and-texts", "// 说明\n令B = “文”\n", "输出 7\n"},
	{"assignments-then-a-syntax-error", "A = 1\n", "输出 ）\n"},
}

const (
	c05ManyN     = 15000
	c05ManyRatio = 24
)

var c05ManyNote string

func c05CPU() time.Duration {
	var ru syscall.Rusage
	_ = syscall.Getrusage(syscall.RUSAGE_SELF, &ru)
	return time.Duration(ru.Utime.Nano() + ru.Stime.Nano())
}

// c05ManyLines compiles n and 8 n lines of one form (twice each, the cheaper run counts) and
// compares the processor time spent: no clock on the wall is involved, and only the ratio counts.
func c05ManyLines(kind int) (f *mc.Failure) {
	lk := c05LineKinds[kind]
	cs := mc.J(map[string]any{"part": "many-lines", "line_form": kind, "form": lk.name})
	cost := func(n int) (best time.Duration, fl *mc.Failure) {
		src := []rune("令A = 0\n" + strings.Repeat(lk.line, n) + lk.last)
		for run := 0; run < 2; run++ {
			debug.FreeOSMemory()
			t0 := c05CPU()
			var tree *syntax.Program
			var err error
			func() {
				defer func() {
					if p := recover(); p != nil {
						fl = &mc.Failure{Kind: "panic", Bucket: "many-lines", Case: cs, Observed: fmt.Sprint(p)}
					}
				}()
				tree, err = syntax.NewParser(src, zh.NewParserZH()).Parse()
				if err != nil {
					_ = exec.DisplayError(err)
				}
			}()
			d := c05CPU() - t0
			if fl != nil {
				return 0, fl
			}
			wantErr := strings.Contains(lk.last, "）")
			if (err != nil) != wantErr || (tree == nil) != wantErr {
				return 0, &mc.Failure{Kind: "mismatch", Bucket: "many-lines", Case: cs, Expected: fmt.Sprintf("syntax error: %v", wantErr), Observed: fmt.Sprintf("tree nil=%v err=%v", tree == nil, clipS(fmt.Sprint(err), 200))}
			}
			if run == 0 || d < best {
				best = d
			}
		}
		return best, nil
	}
	small, fl := cost(c05ManyN)
	if fl != nil {
		return fl
	}
	big, fl := cost(8 * c05ManyN)
	if fl != nil {
		return fl
	}
	c05ManyNote = fmt.Sprintf("many lines (%s): %d lines %.2f s, %d lines %.2f s of processor time (%.1f times)", lk.name, c05ManyN, small.Seconds(), 8*c05ManyN, big.Seconds(), float64(big)/float64(small))
	if big > time.Duration(c05ManyRatio)*small && big > 3*time.Second {
		return &mc.Failure{Kind: "mismatch", Bucket: "many-lines-superlinear", Case: cs,
			Expected: fmt.Sprintf("compiling %d lines costs about 8 times what %d lines cost (at most %d times)", 8*c05ManyN, c05ManyN, c05ManyRatio),
			Observed: fmt.Sprintf("%d lines: %.2f s of processor time, %d lines: %.2f s (%.1f times)", c05ManyN, small.Seconds(), 8*c05ManyN, big.Seconds(), float64(big)/float64(small))}
	}
	return nil
}

// c05Deep: 输出 + open x depth + 1 + close x depth.
func c05Deep(open, cls string, depth int, closed bool) (f *mc.Failure) {
	src := "输出" + strings.Repeat(open, depth) + "1"
	if closed {
		src += strings.Repeat(cls, depth)
	}
	cs := mc.J(map[string]any{"part": "deep-nesting", "open": open, "close": cls, "depth": depth, "closed": closed})
	defer func() {
		if p := recover(); p != nil {
			f = &mc.Failure{Kind: "panic", Bucket: "deep-nesting", Case: cs, Observed: fmt.Sprint(p)}
		}
	}()
	p := syntax.NewParser([]rune(src), zh.NewParserZH())
	tree, err := p.Parse()
	if err == nil {
		if tree == nil {
			return &mc.Failure{Kind: "mismatch", Bucket: "deep-nesting", Case: cs, Expected: "tree or syntax error", Observed: "nil tree, nil error"}
		}
		return nil
	}
	se, ok := err.(*zerr.SyntaxError)
	if !ok || se.Code == 0 || se.Cursor < 0 || se.Cursor > len([]rune(src)) {
		return &mc.Failure{Kind: "mismatch", Bucket: "deep-nesting", Case: cs, Expected: "a *SyntaxError with a code and a position inside the text", Observed: fmt.Sprintf("%T %v", err, clipS(fmt.Sprint(err), 200))}
	}
	_ = exec.DisplayError(exec.WrapSyntaxError(p, exec.MODULE_NAME_MAIN, err))
	return nil
}

// faulty fragments put at the end of a long line
var c05Tails = []string{"）", "“abc", "#", "？", "令", "如果甲", "【1，", "（显示：", "甲 = ", "》", "`x", "\x00", "甲 乙", "输出1 +"}

const c05PadKinds = 6

// c05LongLine builds case k: tail x padding kind x line position x padding width.
func c05LongLine(k int64, K int) []rune {
	w := int(k % int64(K+1))
	k /= int64(K + 1)
	pos := int(k % 3)
	k /= 3
	kind := int(k % c05PadKinds)
	k /= c05PadKinds
	tail := c05Tails[int(k)%len(c05Tails)]
	var pad string
	switch kind {
	case 0:
		pad = "令乙 = “" + strings.Repeat("x", w) + "”；"
	case 1:
		pad = "令" + strings.Repeat("丙", w+1) + " = 1；"
	case 2:
		pad = "输出1" + strings.Repeat(" + 1", w/4) + strings.Repeat(" ", w%4) + "；"
	case 3:
		pad = "令乙 = 1；" + strings.Repeat(" ", w)
	case 4:
		pad = "/* " + strings.Repeat("注", w) + " */"
	case 5:
		pad = "令乙 = 【" + strings.Repeat("“字”，", w/4) + "1】；" + strings.Repeat("\t", w%4)
	}
	line := pad + tail
	switch pos {
	case 1:
		line = "令甲 = 1\n" + line
	case 2:
		line = "令甲 = 1\n" + line + "\n输出甲"
	}
	return []rune(line)
}

func c05Sig(f *mc.Failure) string { return "" }

func c05Replay(c *mc.Ctx, raw json.RawMessage) {
	var cs c05Case
	if err := json.Unmarshal(raw, &cs); err != nil {
		c.Fail(mc.Failure{Kind: "crash", Observed: err.Error()})
		return
	}
	if cs.Part == "deep-nesting" {
		var dn struct {
			Open, Close string
			Depth       int
			Closed      bool
		}
		if json.Unmarshal(raw, &dn) == nil {
			if f := c05Deep(dn.Open, dn.Close, dn.Depth, dn.Closed); f != nil {
				c.Fail(*f)
			}
		}
		return
	}
	if cs.Part == "many-lines" {
		var ml struct {
			LineForm int `json:"line_form"`
		}
		if json.Unmarshal(raw, &ml) == nil && ml.LineForm >= 0 && ml.LineForm < len(c05LineKinds) {
			if f := c05ManyLines(ml.LineForm); f != nil {
				c.Fail(*f)
			}
		}
		return
	}
	if cs.Part == "varinput" {
		if f := c05VarInput(string(toRunes(cs.Runes))); f != nil {
			c.Fail(*f)
		}
		return
	}
	if f := c05Check(toRunes(cs.Runes), cs.Part); f != nil {
		c.Fail(*f)
	}
	c05VarInput(string(toRunes(cs.Runes)))
}
