package checks

// C18 — errors point at the line and call chain where they arose.
//
// E1 over a fault-placement product.  Every program is generated as TEXT with
// exactly one fault planted at a generator-known (module, physical line, column,
// call chain); the report rendered by exec.DisplayError is parsed (numbers and
// module names only, never the message wording) and compared with what the
// generator knows:
//
//	syntax fault   reported module and line == the physical line of the offending
//	               character, quoted line == that line without indentation, caret
//	               offset == sum of display widths of the characters before it;
//	runtime fault  the list of (module, line) entries == the generator's chain:
//	               one entry per call that is active (its call-site line) plus the
//	               line of the innermost statement, in either listing direction;
//	               no entry for a call that had returned or was abandoned by a
//	               handled exception.
//
// Display widths come from an embedded table restricted to characters whose
// East Asian Width is unambiguous (checked against Python unicodedata 14.0:
// Na/H = 1, W/F = 2).

import (
	"encoding/json"
	"fmt"
	"os"
	"path/filepath"
	"regexp"
	"runtime/debug"
	"sort"
	"strconv"
	"strings"
	"time"

	"github.com/DemoHn/Zn/pkg/exec"

	"verif/engine/mc"
	"verif/engine/zn"
)

// ---------------------------------------------------------------- parameters

type c18Params struct {
	Mode    string `json:"mode"` // syn | run | imp | wid
	Kind    int    `json:"kind"`
	Tmpl    int    `json:"tmpl"`
	Slot    int    `json:"slot"`
	Ctx     []int  `json:"ctx,omitempty"`     // context items (see c18Ctxs), in order
	CtxPos  int    `json:"ctx_pos,omitempty"` // 0 right before the fault line; 1 top of the fault's file; 2 first item on top, second before the fault
	EOL     int    `json:"eol"`               // 0 LF, 1 CRLF, 2 CR
	Prefix  int    `json:"prefix,omitempty"`  // syntax: what precedes the offending character on its line
	Depth   int    `json:"depth,omitempty"`   // run: number of active calls around the fault
	Mod     int    `json:"mod,omitempty"`     // run: 0 one file, 1 innermost method in 外, 2 two innermost in 外; syn: 1 = fault in 外
	Handled int    `json:"handled,omitempty"` // run: 0 no, 1 a handled exception earlier in main, 2 right before the fault
	Site    int    `json:"site,omitempty"`    // run: 0 mixed call-site forms, k>0 every call site of form k-1
	NoTrail bool   `json:"no_trailing_eol,omitempty"`
	Other   int    `json:"other_handlers,omitempty"` // run: 1 = every method on the way (and the main program) has a 拦截 block for ANOTHER exception class; 2 = an imported module 影 exports methods named like the program's own; 3 = right before the fault statement and before every call on the chain a call that has RETURNED, of a method of module 齐 whose last statement sits on the very line number of the statement that follows; 4 = the same, the one before the fault returning through an exception handled in the callee (module 齐拦); 5 = the outermost call is the constructor of a type of the program's own whose name an imported module 影 exports too
	Rune    int    `json:"rune,omitempty"`           // wid: the character in front of the offending one
}

var c18EOLs = []string{"\n", "\r\n", "\r"}
var c18EOLNames = []string{"LF", "CRLF", "CR"}

// ---------------------------------------------------------------- display width (embedded reference)

// c18Width: -1 = not in the unambiguous alphabet.
func c18Width(r rune) int {
	switch {
	case r >= 0x20 && r <= 0x7E: // Na
		return 1
	case r >= 0xFF61 && r <= 0xFF9F: // H
		return 1
	case r >= 0x3400 && r <= 0x4DBF, r >= 0x4E00 && r <= 0x9FFF, // W: CJK ideographs
		r >= 0x3000 && r <= 0x303E, r >= 0x3041 && r <= 0x3096, r >= 0x30A1 && r <= 0x30FA, // W/F: CJK punctuation, kana
		r >= 0xAC00 && r <= 0xD7A3,                             // W: Hangul syllables
		r >= 0xFF01 && r <= 0xFF60, r >= 0xFFE0 && r <= 0xFFE6: // F: full-width forms
		return 2
	}
	return -1
}

func c18StrWidth(s string) int {
	w := 0
	for _, r := range s {
		x := c18Width(r)
		if x < 0 {
			panic(fmt.Sprintf("c18 generator: character %q of %q has no unambiguous width", r, s))
		}
		w += x
	}
	return w
}

// ---------------------------------------------------------------- templates

type c18TL struct {
	ind    int
	text   string
	header bool // ends with ： / ？ and opens a block
	clause bool // 否则： — must directly follow the block before it
	st     int  // the block holding this line: 0 never runs, 1 runs on the straight path, 2 runs inside the call made on line via
	via    int
}

var c18Tmpls = [][]c18TL{
	{ // 0: top-level sequence
		{0, "令数 = 1", false, false, 1, -1},
		{0, "令表 = 【1，2】", false, false, 1, -1},
		{0, "（显示：数）", false, false, 1, -1},
	},
	{ // 1: 如果 / 否则
		{0, "令数 = 1", false, false, 1, -1},
		{0, "如果 数 == 1：", true, false, 1, -1},
		{1, "令内 = 2", false, false, 1, -1},
		{1, "（显示：内）", false, false, 1, -1},
		{0, "否则：", true, true, 1, -1},
		{1, "（显示：0）", false, false, 0, -1},
		{0, "（显示：数）", false, false, 1, -1},
	},
	{ // 2: 每当 (the fault is met on the first pass)
		{0, "令圈 = 0", false, false, 1, -1},
		{0, "每当 圈 < 2：", true, false, 1, -1},
		{1, "圈 = 圈 + 1", false, false, 1, -1},
		{1, "（显示：圈）", false, false, 1, -1},
		{0, "（显示：“完”）", false, false, 1, -1},
	},
	{ // 3: 遍历 with a nested 如果
		{0, "令表 = 【1，2】", false, false, 1, -1},
		{0, "以 元 遍历 表：", true, false, 1, -1},
		{1, "（显示：元）", false, false, 1, -1},
		{1, "如果 元 == 1：", true, false, 1, -1},
		{2, "（显示：“一”）", false, false, 1, -1},
		{0, "（显示：“完”）", false, false, 1, -1},
	},
	{ // 4: a method definition, a finished call of it, then more statements
		{0, "令数 = 1", false, false, 1, -1},
		{0, "如何助法？", true, false, 1, -1},
		{1, "令内 = 7", false, false, 2, 4},
		{1, "（显示：内）", false, false, 2, 4},
		{0, "（助法）", false, false, 1, -1},
		{0, "（显示：数）", false, false, 1, -1},
	},
	{ // 5: the fault is the loop condition itself, on its second evaluation (line 1 is replaced by the faulting header)
		{0, "令圈 = 0", false, false, 1, -1},
		{0, "每当 圈 < 2：", true, false, 1, -1},
		{1, "圈 = 圈 + 1；", false, false, 1, -1}, // (a statement closed with ；: the header keeps its own line)
		{1, "（显示：圈）", false, false, 1, -1},
		{0, "（显示：“完”）", false, false, 1, -1},
	},
	{ // 6: inside the handler that runs because the body raised (the raise statement is the line the
		// handler is entered from; nothing can stand behind the raise or behind the handler block)
		{0, "令数 = 1", false, false, 1, -1},
		{0, "抛出异常：“先”！", false, false, 0, -1},
		{0, "拦截异常：", true, true, 0, -1},
		{1, "令内 = 2", false, false, 2, 1},
		{1, "（显示：内）", false, false, 2, 1},
	},
}

var c18TmplNames = []string{"sequence", "in_如果_否则", "in_每当", "in_遍历_如果", "around_method_definition", "每当_condition_second_pass", "in_the_handler_of_the_body"}

type c18Slot struct {
	gap, ind int // the fault line goes before template line gap, at indent ind
	st, via  int
	afterHdr bool
	indented bool // an indented line precedes the slot in the template
	deepest  bool // ind is the deepest indent admissible at this gap
}

func c18Slots(ti int) []c18Slot {
	t := c18Tmpls[ti]
	if ti == 5 {
		return []c18Slot{{gap: 1, ind: 0, st: 1, via: -1}}
	}
	var out []c18Slot
	for g := 0; g <= len(t); g++ {
		indented := false
		for j := 0; j < g; j++ {
			if t[j].ind > 0 {
				indented = true
			}
		}
		if g == 0 {
			out = append(out, c18Slot{gap: 0, ind: 0, st: 1, via: -1, deepest: true})
			continue
		}
		prev := t[g-1]
		if prev.header {
			out = append(out, c18Slot{gap: g, ind: prev.ind + 1, st: t[g].st, via: t[g].via, afterHdr: true, indented: indented, deepest: true})
			continue
		}
		q := 0
		if g < len(t) {
			q = t[g].ind
			if t[g].clause {
				q++
			}
		}
		for d := prev.ind; d >= q; d-- {
			// the block the slot continues: that of the nearest earlier line at indent d
			st, via := 1, -1
			for j := g - 1; j >= 0; j-- {
				if t[j].ind == d {
					st, via = t[j].st, t[j].via
					break
				}
			}
			out = append(out, c18Slot{gap: g, ind: d, st: st, via: via, indented: indented, deepest: d == prev.ind})
		}
	}
	return out
}

// ---------------------------------------------------------------- contexts (inserted before the fault line)

type c18Ctx struct {
	name   string
	lines  []string // physical lines; only the first is indented; %s = a fresh variable name
	stmt   bool     // a statement (cannot stand before 导入)
	joined bool     // the fault statement continues the last physical line (only at indent 0)
}

var c18Ctxs = []c18Ctx{
	0:  {name: "none"},
	1:  {name: "multiline_string_3", lines: []string{"令%s = “第一行", "第二行", "第三行”"}, stmt: true},
	2:  {name: "slash_comment_2", lines: []string{"/* 注释一", "注释二 */"}},
	3:  {name: "slash_comment_3", lines: []string{"/* 注释一", "注释二", "注释三 */"}},
	4:  {name: "zhu_comment_2", lines: []string{"注：「说明一", "说明二」"}},
	5:  {name: "blank_1", lines: []string{""}},
	6:  {name: "blank_2", lines: []string{"", ""}},
	7:  {name: "line_comment", lines: []string{"// 行注释"}},
	8:  {name: "slash_comment_2_same_line", lines: []string{"/* 注释一", "注释二 */ "}, joined: true},
	9:  {name: "zhu_comment_2_same_line", lines: []string{"注：「说明一", "说明二」 "}, joined: true},
	10: {name: "multiline_string_2_corner_quotes", lines: []string{"令%s = 「第一行", "    第二行」"}, stmt: true},
	11: {name: "zhu_comment_3_double_quotes", lines: []string{"注：“说明一", "说明二", "说明三”"}},
	12: {name: "slash_comment_3_indented_inside", lines: []string{"/* 注释一", "        注释二", "*/"}},
	13: {name: "zhu_comment_1", lines: []string{"注：单行说明"}},
	17: {name: "zhu_comment_empty", lines: []string{"注："}},
	18: {name: "zhu_comment_empty_numbered_then_blank", lines: []string{"注12：", ""}},
	14: {name: "multiline_string_4_with_blank", lines: []string{"令%s = “第一行", "", "// 非注释", "第四行”"}, stmt: true},
	// a backtick that opens no escape, right before the text's line break (the break is a line all the same)
	15: {name: "multiline_string_2_backtick_before_break", lines: []string{"令%s = “第一行`", "第二行”"}, stmt: true},
	16: {name: "multiline_string_3_backticks_before_breaks", lines: []string{"令%s = 「甲`", "乙`", "丙`丁」"}, stmt: true},
}

var c18QuickCtx = []int{1, 2, 3, 4, 5, 6, 7, 8, 9, 15, 17}
var c18ThoroughCtx = []int{1, 2, 3, 4, 5, 6, 7, 8, 9, 10, 11, 12, 13, 14, 15, 16, 17, 18}
var c18PairCtx = []int{1, 2, 4, 5, 7, 10}

// ---------------------------------------------------------------- fault kinds

var c18RunFaults = []string{"1 / 0", "（显示：未有此名）", "抛出异常：“m”！", "【1】#5", "以（新建件）（无此法）", "（需参法）", "令新件 = （新建造件：1、2）", "（显示：未有此名、“第一行\n第二行”）"}
var c18RunFaultNames = []string{"除零", "未定义名", "抛出异常", "索引越界", "对象无此方法", "参数个数不符", "构造参数个数不符", "未定义名_语句跨两行"}

// c18KindNoMethod: a method that the object's type (件, defined at the top of the fault's file) does
// not have: no call starts, so the chain ends at the line of the statement
const c18KindNoMethod = 4

// c18KindArity / c18KindCtorArity: a method (a constructor) called with the wrong number of
// arguments: none of its body runs, so the chain ends at the line of the calling statement.  The
// definitions stand at the top of the fault's file, behind a first definition of another method
// (whatever is on line 1 of the file is no place where anything happened)
const (
	c18KindArity     = 5
	c18KindCtorArity = 6
)

func c18DefineType(f *c18File, p c18Params) {
	if p.Tmpl == 5 {
		return
	}
	switch p.Kind {
	case c18KindNoMethod:
		f.add(0, "定义件：")
		f.add(1, "其P = 1")
	case c18KindArity:
		f.add(0, "如何旁法？")
		f.add(1, "输出 1")
		f.add(0, "")
		f.add(0, "如何需参法？")
		f.add(1, "输入甲")
		f.add(1, "令内甲 = 1")
		f.add(1, "输出 内甲")
		f.add(0, "")
	case c18KindCtorArity:
		f.add(0, "定义造件：")
		f.add(1, "其P = 1")
		f.add(0, "")
		f.add(0, "如何新建造件？")
		f.add(1, "输入甲")
		f.add(1, "其P = 甲")
		f.add(0, "")
	}
}

// loop conditions that are fine on the first evaluation and fault on the second
var c18CondFaults = []string{"每当 1 / {1 - 圈} > 0：", "每当 【1】#{1 + 圈 * 4} == 1："}
var c18CondFaultNames = []string{"除零", "索引越界"}

const (
	c18SynBang = iota
	c18SynBadChar
	c18SynBadWide
	c18SynUnterminated
	c18SynIndentSpaces
	c18SynIndentTab
	c18SynDeeper
	c18SynKinds
)

var c18SynNames = []string{"stray_！", "invalid_char_~", "invalid_char_～", "unterminated_string", "indent_not_multiple_of_4", "tab_indent_in_space_file", "unexpected_deeper_indent"}
var c18SynChar = []string{"！", "~", "～"}

// what precedes / follows the offending character on its line ("\n" = a physical line break inside a literal)
var c18Prefixes = []struct{ pre, suf string }{
	0: {"", ""},
	1: {"令A = ", ""},
	2: {"令甲乙丙 = ", ""},
	3: {"（显示：", "）"},
	4: {"令A = 「宽字」 + ", ""},
	5: {"令Ab甲 = 1 + {2 * 3} - ", ""},
	6: {"令A = /* 注 */ 1 + ", ""},
	7: {"令A = 【1，2，", "】"},
	8: {"令A = 「第一行\n第二行」 + ", ""},
	9: {"（显示：「甲\n乙\n丙」、", "）"},
}

var c18UntermPre = []string{"令A = ", "（显示："}
var c18UntermQuote = []string{"“", "「"}

// ---------------------------------------------------------------- builder

type c18File struct{ lines []string }

func (f *c18File) add(ind int, s string) int {
	f.lines = append(f.lines, strings.Repeat("    ", ind)+s)
	return len(f.lines)
}
func (f *c18File) raw(s string) int { f.lines = append(f.lines, s); return len(f.lines) }

type c18Loc struct {
	Mod  string `json:"module"` // "" = main
	Line int    `json:"line"`
	Text string `json:"text"`
}

type c18SynExp struct {
	Line   int    `json:"line"`
	Text   string `json:"text"`
	Carets []int  `json:"caret_offsets"`
}

type c18Prog struct {
	Main, Ext  string
	HasExt     bool
	SynMod     string
	Syn        []c18SynExp       // acceptable positions
	Chain      []c18Loc          // outermost first
	ImportLine int               // imp: line of the 导入 statement in main
	Shadow     string            // run, Other == 2: text of module 影
	Extra      map[string]string // run, Other >= 3: further module files (name without .zn -> text)
}

type c18Builder struct {
	p         c18Params
	fLine     int
	fText     string
	syn       []c18SynExp
	synEOF    bool // an acceptable position is the end of the file
	synPre    int
	synExtraW []int
	viaLine   int
	viaText   string
	nvar      int
	fExtra    int // physical lines of the fault statement behind its first one
	aligned   [2][]int // Other >= 3: line numbers on which a method of module 齐 (calls in the main file) / 齐外 (calls in 外) must end
	extFile   *c18File
	alignedH  int // Other == 4: the line number on which the method of module 齐拦 must end (0: none)
}

var c18Names = []string{"", "甲法", "乙法", "丙法"}

func (b *c18Builder) ctx(f *c18File, ind int, id int) (pending string, joined bool) {
	c := c18Ctxs[id]
	b.nvar++
	name := []string{"文", "文一", "文二", "文三"}[b.nvar%4]
	for i, l := range c.lines {
		if strings.Contains(l, "%s") {
			l = fmt.Sprintf(l, name)
		}
		last := i == len(c.lines)-1
		switch {
		case c.joined && last:
			if len(c.lines) == 1 {
				return strings.Repeat("    ", ind) + l, true
			}
			return l, true
		case i == 0 && l != "":
			f.add(ind, l)
		default:
			f.raw(l)
		}
	}
	return "", false
}

func trimIndent(s string) string { return strings.TrimLeft(s, " \t") }

// fault emits (contexts placed right before +) the fault line at indent ind.
func (b *c18Builder) fault(f *c18File, ind int) {
	p := b.p
	if p.Mode != "syn" && p.Handled == 2 {
		f.add(ind, "令稳 = （稳法）")
	}
	pending, joined := "", false
	var near []int
	switch p.CtxPos {
	case 0:
		near = p.Ctx
	case 2:
		near = p.Ctx[1:]
	}
	for _, id := range near {
		if joined {
			panic("c18 generator: a same-line context must be the last one")
		}
		pending, joined = b.ctx(f, ind, id)
	}
	if joined && ind != 0 {
		panic("c18 generator: same-line context at indent > 0")
	}
	put := func(ind int, text string) int {
		if joined {
			return f.raw(pending + text)
		}
		return f.add(ind, text)
	}
	if p.Mode == "run" && (p.Other == 3 || p.Other == 4) {
		b.alignCall(f, ind, p.Other == 4)
	}
	switch {
	case p.Mode == "run" || p.Mode == "imp":
		text := ""
		if p.Tmpl == 5 {
			text = c18CondFaults[p.Kind]
		} else {
			text = c18RunFaults[p.Kind]
		}
		// (a fault statement may hold a text with a real line break: it begins on its first line)
		parts := strings.Split(text, "\n")
		b.fLine = put(ind, parts[0])
		for _, more := range parts[1:] {
			f.raw(more)
		}
		b.fExtra = len(parts) - 1
		b.fText = trimIndent(f.lines[b.fLine-1])
	case p.Kind <= c18SynBadWide:
		pf := c18Prefixes[p.Prefix]
		parts := strings.Split(pf.pre, "\n")
		for i, part := range parts {
			last := i == len(parts)-1
			if last {
				part += c18SynChar[p.Kind] + pf.suf
			}
			if i == 0 {
				b.fLine = put(ind, part)
			} else {
				b.fLine = f.raw(part)
			}
		}
		lastPre := parts[len(parts)-1]
		full := f.lines[b.fLine-1]
		w := c18StrWidth(lastPre)
		if len(parts) == 1 && joined {
			w += c18StrWidth(pending)
		}
		b.fText = trimIndent(full)
		b.syn = []c18SynExp{{Line: b.fLine, Text: b.fText, Carets: []int{w}}}
	case p.Kind == c18SynUnterminated:
		pre, q := c18UntermPre[p.Prefix/2], c18UntermQuote[p.Prefix%2]
		b.fLine = put(ind, pre+q+"未完")
		b.fText = trimIndent(f.lines[b.fLine-1])
		w := c18StrWidth(pre)
		if joined {
			w += c18StrWidth(pending)
		}
		b.syn = []c18SynExp{{Line: b.fLine, Text: b.fText, Carets: []int{w}}}
		b.synEOF = true
		b.synPre = w
		if q == "“" { // U+201C is of ambiguous width: either is accepted
			b.synExtraW = []int{1 + c18StrWidth("未完"), 2 + c18StrWidth("未完")}
		} else {
			b.synExtraW = []int{c18StrWidth(q + "未完")}
		}
	case p.Kind == c18SynIndentSpaces:
		n := 4*ind + 3
		if p.Prefix == 1 {
			n = 4*ind - 1
		}
		b.fLine = f.raw(strings.Repeat(" ", n) + "（显示：9）")
		b.fText = "（显示：9）"
		b.syn = []c18SynExp{{Line: b.fLine, Text: b.fText, Carets: []int{0}}}
	case p.Kind == c18SynIndentTab:
		b.fLine = f.raw(strings.Repeat("\t", ind) + "（显示：9）")
		b.fText = "（显示：9）"
		b.syn = []c18SynExp{{Line: b.fLine, Text: b.fText, Carets: []int{0}}}
	case p.Kind == c18SynDeeper:
		b.fLine = f.add(ind+1, "（显示：9）")
		b.fText = "（显示：9）"
		b.syn = []c18SynExp{{Line: b.fLine, Text: b.fText, Carets: []int{0}}}
	}
}

// body writes template p.Tmpl with the fault in slot p.Slot, shifted by base indents.
func (b *c18Builder) body(f *c18File, base int) {
	t := c18Tmpls[b.p.Tmpl]
	s := c18Slots(b.p.Tmpl)[b.p.Slot]
	lineNo := make([]int, len(t))
	for g := 0; g <= len(t); g++ {
		if g == s.gap {
			b.fault(f, base+s.ind)
			if b.p.Tmpl == 5 {
				continue // the faulting header replaces the template's header
			}
		}
		if g < len(t) {
			lineNo[g] = f.add(base+t[g].ind, t[g].text)
		}
	}
	if s.via >= 0 {
		b.viaLine, b.viaText = lineNo[s.via], t[s.via].text
	}
}

// callSite writes a call of callee in the given form and returns the line of the call.
func c18CallSite(f *c18File, ind int, callee string, form int, before func(f *c18File, ind int)) (int, string) {
	call := "（" + callee + "）"
	if before == nil {
		before = func(*c18File, int) {}
	}
	switch form {
	case 0:
		before(f, ind)
		return f.add(ind, call), call
	case 1:
		t := "令回 = " + call
		before(f, ind)
		return f.add(ind, t), t
	case 2:
		f.add(ind, "如果 真：")
		before(f, ind+1)
		return f.add(ind+1, call), call
	case 3:
		f.add(ind, "令转 = 0")
		f.add(ind, "每当 转 < 1：")
		f.add(ind+1, "转 = 转 + 1")
		before(f, ind+1)
		return f.add(ind+1, call), call
	case 4:
		f.add(ind, "遍历 【1，2】：")
		before(f, ind+1)
		return f.add(ind+1, call), call
	default:
		t := "（显示：" + call + "）"
		before(f, ind)
		return f.add(ind, t), t
	}
}

// alignCall (Other >= 3) writes a statement that calls a method of module 齐 whose last executed
// statement is on the line number of the NEXT line of f: the call has returned when that line runs.
func (b *c18Builder) alignCall(f *c18File, ind int, handled bool) {
	n := len(f.lines) + 2
	if handled && n >= 4 {
		b.alignedH = n
		f.add(ind, fmt.Sprintf("（齐拦%d）", n))
		return
	}
	k, pre := 0, "齐"
	if f == b.extFile {
		k, pre = 1, "外齐"
	}
	b.aligned[k] = append(b.aligned[k], n)
	f.add(ind, fmt.Sprintf("（%s%d）", pre, n))
}

// alignedModules builds 齐, 齐外 (and 齐拦): method 齐N ends, with 输出, on line N of its file.
func (b *c18Builder) alignedModules(eol string) map[string]string {
	out := map[string]string{}
	for k, mod := range []string{"齐", "齐外"} {
		ns := append([]int{}, b.aligned[k]...)
		sort.Ints(ns)
		var lines []string
		for _, n := range ns {
			if len(lines) > n-2 {
				panic(fmt.Sprintf("c18 generator: aligned methods too close (%v)", ns))
			}
			for len(lines) < n-2 {
				lines = append(lines, "")
			}
			lines = append(lines, fmt.Sprintf("如何%s%d？", []string{"齐", "外齐"}[k], n), "    输出 0")
		}
		out[mod] = strings.Join(lines, eol) + eol
	}
	if b.alignedH > 0 {
		var hl []string
		for len(hl) < b.alignedH-4 {
			hl = append(hl, "")
		}
		hl = append(hl, fmt.Sprintf("如何齐拦%d？", b.alignedH), "    抛出异常：“齐”！", "    拦截异常：", "        输出 0")
		out["齐拦"] = strings.Join(hl, eol) + eol
	}
	return out
}

const c18SiteForms = 6

func c18SiteForm(p c18Params, level int) int {
	if p.Site > 0 {
		return p.Site - 1
	}
	return []int{1, 2, 4}[level%3]
}

func (b *c18Builder) handledDefs(f *c18File) {
	f.add(0, "如何险法？")
	f.add(1, "抛出异常：“险”！")
	f.add(0, "")
	f.add(0, "如何稳法？")
	f.add(1, "令稳内 = 1")
	f.add(1, "（险法）")
	f.add(1, "输出 1")
	f.add(1, "拦截异常：")
	f.add(2, "输出 -1")
	f.add(0, "")
}

func (b *c18Builder) topCtx(f *c18File) {
	if b.p.CtxPos == 1 {
		for _, id := range b.p.Ctx {
			b.ctx(f, 0, id)
		}
	} else if b.p.CtxPos == 2 {
		b.ctx(f, 0, b.p.Ctx[0])
	}
}

func c18Join(f *c18File, p c18Params, trail bool) string {
	s := strings.Join(f.lines, c18EOLs[p.EOL])
	if trail {
		s += c18EOLs[p.EOL]
	}
	return s
}

func c18Build(p c18Params) (pr c18Prog) {
	b := &c18Builder{p: p, viaLine: -1}
	main, ext := &c18File{}, &c18File{}
	switch p.Mode {
	case "wid":
		line := "令A = 「" + string(rune(p.Rune)) + "」 ~"
		pr.Main = line + "\n"
		pr.Syn = []c18SynExp{{Line: 1, Text: line, Carets: []int{c18StrWidth("令A = 「") + c18Width(rune(p.Rune)) + c18StrWidth("」 ")}}}
		return
	case "syn":
		f := main
		if p.Mod == 1 {
			f = ext
			pr.HasExt = true
			pr.SynMod = "外"
			main.add(0, "导入《外》")
			main.add(0, "令主 = 1")
		}
		b.topCtx(f)
		b.body(f, 0)
		if p.NoTrail && b.fLine+b.fExtra != len(f.lines) {
			panic("c18 generator: no_trailing_eol needs the fault on the last line")
		}
		pr.Syn = b.syn
		if b.synEOF {
			if p.NoTrail {
				var cs []int
				for _, w := range b.synExtraW {
					cs = append(cs, b.synPre+w)
				}
				pr.Syn = append(pr.Syn, c18SynExp{Line: b.fLine, Text: b.fText, Carets: cs})
			} else {
				pr.Syn = append(pr.Syn, c18SynExp{Line: len(f.lines) + 1, Text: "", Carets: []int{0}})
			}
		}
		pr.Main = c18Join(main, p, !(p.NoTrail && f == main))
		if pr.HasExt {
			pr.Ext = c18Join(ext, p, !p.NoTrail)
		}
		return
	case "imp":
		// the fault is met while 外 is being imported: at the top level of 外 (or in a call made there)
		pr.HasExt = true
		if p.CtxPos == 1 || p.CtxPos == 2 {
			b.ctx(main, 0, p.Ctx[0])
		}
		pr.ImportLine = main.add(0, "导入《外》")
		main.add(0, "令主 = 1")
		c18DefineType(ext, p)
		bb := *b
		bb.p.CtxPos = 0
		if p.CtxPos == 1 {
			bb.p.Ctx = nil
		} else if p.CtxPos == 2 {
			bb.p.Ctx = p.Ctx[1:]
		}
		bb.body(ext, 0)
		pr.Chain = append(pr.Chain, c18Loc{"", pr.ImportLine, "导入《外》"})
		if bb.viaLine >= 0 {
			pr.Chain = append(pr.Chain, c18Loc{"外", bb.viaLine, bb.viaText})
		}
		pr.Chain = append(pr.Chain, c18Loc{"外", bb.fLine, bb.fText})
		pr.Main = c18Join(main, p, true)
		pr.Ext = c18Join(ext, p, true)
		return
	}
	// ---- run
	D := p.Depth
	modOf := func(l int) string {
		if l >= 1 && ((p.Mod == 1 && l == D) || (p.Mod == 2 && l >= D-1)) {
			return "外"
		}
		return ""
	}
	fileOf := func(l int) *c18File {
		if modOf(l) == "外" {
			return ext
		}
		return main
	}
	faultFile := fileOf(D)
	pr.HasExt = p.Mod > 0
	if p.Other == 2 {
		// (imported first: the program's own definitions of the same names come after it)
		main.add(0, "导入《影》")
		var sh []string
		for l := 1; l <= D; l++ {
			if modOf(l) == "" {
				sh = append(sh, "如何"+c18Names[l]+"？", "    令影子 = 1", "    令影丑 = 2", "    输出 -5", "")
			}
		}
		pr.Shadow = strings.Join(sh, "\n") + "\n"
	}
	if p.Other == 5 {
		// the outermost call is the CONSTRUCTOR of a type of the program's own, and the imported
		// module 影 (imported first) exports a type of the same name with a constructor of its own
		main.add(0, "导入《影》")
		pr.Shadow = "注：“影模块\n两行注释”\n定义甲型：\n    其Q = 2\n\n如何新建甲型？\n    令影子 = 1\n    令影丑 = 2\n    其Q = 3\n\n如何影法？\n    输出 -5\n"
	}
	if pr.HasExt {
		main.add(0, "导入《外》")
	}
	var alignBefore func(f *c18File, ind int)
	if p.Other == 3 || p.Other == 4 {
		b.extFile = ext
		for k, f := range []*c18File{main, ext} {
			if f == main || pr.HasExt {
				f.add(0, "导入《"+[]string{"齐", "齐外"}[k]+"》")
				if p.Other == 4 {
					f.add(0, "导入《齐拦》")
				}
			}
		}
		alignBefore = func(f *c18File, ind int) { b.alignCall(f, ind, false) }
	}
	if faultFile == main {
		b.topCtx(main)
	} else {
		b.topCtx(ext)
	}
	c18DefineType(faultFile, p)
	switch p.Handled {
	case 1:
		b.handledDefs(main)
	case 2:
		b.handledDefs(faultFile)
	}
	callLine := make([]int, D+1)
	callText := make([]string, D+1)
	if p.Other == 1 {
		// an exception class of the program's own: the handlers below are for IT, the fault is not one
		main.add(0, "定义缺货：")
		main.add(1, "其内容 = “”")
		main.add(0, "")
	}
	otherHandler := func(f *c18File) {
		if p.Other == 1 {
			f.add(1, "拦截缺货：")
			f.add(2, "输出 -9")
		}
	}
	for l := 1; l <= D; l++ {
		f := fileOf(l)
		if p.Other == 5 && l == 1 {
			f.add(0, "定义甲型：")
			f.add(1, "其P = 1")
			f.add(0, "")
			f.add(0, "如何新建甲型？")
		} else {
			f.add(0, "如何"+c18Names[l]+"？")
		}
		if l < D {
			f.add(1, fmt.Sprintf("令子 = %d", l))
			callLine[l], callText[l] = c18CallSite(f, 1, c18Names[l+1], c18SiteForm(p, l), alignBefore)
			f.add(1, "输出 0")
			otherHandler(f)
			f.add(0, "")
		} else {
			b.body(f, 1)
			otherHandler(f)
			if f == main {
				f.add(0, "")
			}
		}
	}
	main.add(0, "令主 = 1")
	if p.Handled == 1 {
		main.add(0, "令稳 = （稳法）")
	}
	if D == 0 {
		b.body(main, 0)
	} else {
		outer := c18Names[1]
		if p.Other == 5 {
			outer = "新建甲型"
		}
		callLine[0], callText[0] = c18CallSite(main, 0, outer, c18SiteForm(p, 0), alignBefore)
		main.add(0, "（显示：“终”）")
		if p.Other == 1 {
			main.add(0, "拦截缺货：")
			main.add(1, "输出 -9")
		}
	}
	if p.NoTrail && b.fLine+b.fExtra != len(faultFile.lines) {
		panic("c18 generator: no_trailing_eol needs the fault on the last line")
	}
	for l := 0; l < D; l++ {
		pr.Chain = append(pr.Chain, c18Loc{modOf(l), callLine[l], callText[l]})
	}
	if b.viaLine >= 0 {
		pr.Chain = append(pr.Chain, c18Loc{modOf(D), b.viaLine, b.viaText})
	}
	pr.Chain = append(pr.Chain, c18Loc{modOf(D), b.fLine, b.fText})
	pr.Main = c18Join(main, p, !(p.NoTrail && faultFile == main))
	if pr.HasExt {
		pr.Ext = c18Join(ext, p, !(p.NoTrail && faultFile == ext))
	}
	if p.Other == 3 || p.Other == 4 {
		pr.Extra = b.alignedModules(c18EOLs[p.EOL])
	}
	return
}

// ---------------------------------------------------------------- report parsing

type c18Entry struct {
	Mod     string `json:"module"`
	Native  bool   `json:"native,omitempty"`
	Line    int    `json:"line"`
	Text    string `json:"text"`
	HasText bool   `json:"-"`
	Caret   int    `json:"caret"` // -1 = no marker
}

var c18ReLine = regexp.MustCompile(`第\s*(\d+)\s*行`)
var c18ReMod = regexp.MustCompile(`[“「"]([^”」"]*)[”」"]`)
var c18ReCaret = regexp.MustCompile(`^( *)\^\s*$`)

// c18Parse extracts the location entries of a rendered report: every line that
// starts with 在 / 来自 up to the first blank line, each optionally followed by
// the quoted source line and a caret line (both indented by four spaces).
func c18Parse(rep string) (out []c18Entry) {
	lines := strings.Split(rep, "\n")
	for i := 0; i < len(lines); i++ {
		l := lines[i]
		if l == "" {
			break
		}
		if !(strings.HasPrefix(l, "在") || strings.HasPrefix(l, "来自")) {
			continue
		}
		e := c18Entry{Caret: -1, Line: -1}
		if strings.Contains(l, "内置模块") {
			e.Native = true
		} else {
			if m := c18ReLine.FindStringSubmatch(l); m != nil {
				e.Line, _ = strconv.Atoi(m[1])
			}
			if !strings.Contains(l, "主模块") {
				if m := c18ReMod.FindStringSubmatch(l); m != nil {
					e.Mod = m[1]
				} else {
					e.Mod = "?"
				}
			}
		}
		if i+1 < len(lines) && strings.HasPrefix(lines[i+1], "    ") {
			e.Text, e.HasText = strings.TrimRight(lines[i+1][4:], "\x00"), true
			i++
			if i+1 < len(lines) {
				if m := c18ReCaret.FindStringSubmatch(lines[i+1]); m != nil && len(m[1]) >= 4 {
					e.Caret = len(m[1]) - 4
					i++
				}
			}
		}
		out = append(out, e)
	}
	return
}

// ---------------------------------------------------------------- the check

type c18Case struct {
	P        c18Params `json:"params"`
	Main     string    `json:"source,omitempty"`
	Ext      string    `json:"module_source,omitempty"`
	Report   string    `json:"report,omitempty"`
	Expected any       `json:"expected,omitempty"`
}

var c18Dir string
var c18Written [3]string

func c18Cleanup() {
	if c18Dir != "" {
		os.RemoveAll(c18Dir)
		c18Dir = ""
	}
}

func c18Run(pr c18Prog) (zn.Outcome, error) {
	if !pr.HasExt && pr.Shadow == "" && len(pr.Extra) == 0 {
		return zn.RunReal(pr.Main, nil), nil
	}
	if c18Dir == "" {
		// memory-backed if there is one: two small files are rewritten per program
		d, err := os.MkdirTemp("/dev/shm", "c18-")
		if err != nil {
			if d, err = os.MkdirTemp("", "c18-"); err != nil {
				return zn.Outcome{}, err
			}
		}
		c18Dir, c18Written = d, [3]string{"\x00", "\x00", "\x00"}
	}
	for i, src := range []string{pr.Main, pr.Ext, pr.Shadow} {
		if c18Written[i] == src {
			continue
		}
		if err := os.WriteFile(filepath.Join(c18Dir, []string{"主.zn", "外.zn", "影.zn"}[i]), []byte(src), 0o644); err != nil {
			return zn.Outcome{}, err
		}
		c18Written[i] = src
	}
	for name, src := range pr.Extra {
		if err := os.WriteFile(filepath.Join(c18Dir, name+".zn"), []byte(src), 0o644); err != nil {
			return zn.Outcome{}, err
		}
	}
	return zn.RunRealFile(filepath.Join(c18Dir, "主.zn"), nil), nil
}

func c18ChainStr(ch []c18Loc) string {
	var parts []string
	for _, l := range ch {
		m := l.Mod
		if m == "" {
			m = "主"
		}
		parts = append(parts, fmt.Sprintf("%s:%d", m, l.Line))
	}
	return strings.Join(parts, " > ")
}

func c18EntriesStr(es []c18Entry) string {
	var parts []string
	for _, e := range es {
		m := e.Mod
		if m == "" {
			m = "主"
		}
		if e.Native {
			m = "<内置>"
		}
		s := fmt.Sprintf("%s:%d", m, e.Line)
		if e.Caret >= 0 {
			s += fmt.Sprintf(" text=%q caret=%d", e.Text, e.Caret)
		}
		parts = append(parts, s)
	}
	return strings.Join(parts, " > ")
}

func c18Check(p c18Params) (f *mc.Failure) {
	var pr c18Prog
	var rep string
	sigAt, sigObs, sigWant := -1, -1, -1 // failing entry, its reported number, the expected number
	fail := func(kind, bucket, exp, obs string) *mc.Failure {
		var e any = pr.Chain
		if p.Mode == "syn" || p.Mode == "wid" {
			e = pr.Syn
		}
		ff := &mc.Failure{Kind: kind, Bucket: bucket, Expected: exp, Observed: obs,
			Case: mc.J(c18Case{P: p, Main: pr.Main, Ext: pr.Ext, Report: rep, Expected: e})}
		ff.Sig = c18Sig(p, bucket, sigAt, sigObs, sigWant)
		return ff
	}
	func() {
		defer func() {
			if x := recover(); x != nil {
				f = fail("crash", "generator", "", fmt.Sprint(x))
			}
		}()
		pr = c18Build(p)
	}()
	if f != nil {
		return f
	}
	got, err := c18Run(pr)
	if err != nil {
		return fail("crash", "harness-io", "", err.Error())
	}
	if got.Panic != "" {
		ff := fail("panic", "panic", "an error report", got.Panic)
		ff.Detail = got.Stack
		return ff
	}
	synt := p.Mode == "syn" || p.Mode == "wid"
	if got.RawErr == nil {
		return fail("mismatch", "no-error", "the planted fault is reported", "completed with "+got.Val+" trace "+strings.Join(got.Trace, " | "))
	}
	_, vm, parser, _ := exec.VerifUnwrap(got.RawErr)
	func() {
		defer func() {
			if x := recover(); x != nil {
				f = fail("panic", "panic-display", "a rendered report", fmt.Sprint(x))
			}
		}()
		rep = exec.DisplayError(got.RawErr)
	}()
	if f != nil {
		return f
	}
	entries := c18Parse(rep)
	if synt {
		if parser == nil || got.Err == nil || got.Err.Kind != "syntax" {
			return fail("mismatch", "error-class", "a syntax error", fmt.Sprintf("%+v", got.Err))
		}
		if len(entries) != 1 {
			return fail("mismatch", "syntax-entries", "one location", c18EntriesStr(entries))
		}
		e := entries[0]
		expS := fmt.Sprintf("module %q %+v", pr.SynMod, pr.Syn)
		obs := fmt.Sprintf("module %q line %d text %q caret %d", e.Mod, e.Line, e.Text, e.Caret)
		if e.Mod != pr.SynMod {
			return fail("mismatch", "syntax-module", expS, obs)
		}
		var lineOK *c18SynExp
		for i := range pr.Syn {
			if pr.Syn[i].Line == e.Line {
				lineOK = &pr.Syn[i]
			}
		}
		if lineOK == nil {
			sigObs, sigWant = e.Line, pr.Syn[0].Line
			return fail("mismatch", "syntax-line", expS, obs)
		}
		// the quoted line may keep its indentation (it does on the first line of a file): the marker shifts with it
		kept := len(e.Text) - len(trimIndent(e.Text))
		if !e.HasText || trimIndent(e.Text) != lineOK.Text {
			return fail("mismatch", "syntax-quoted-text", expS, obs)
		}
		ok := false
		for _, c := range lineOK.Carets {
			if c+kept == e.Caret {
				ok = true
			}
		}
		if !ok {
			sigObs, sigWant = e.Caret-kept, lineOK.Carets[0]
			return fail("mismatch", "syntax-caret", expS, obs)
		}
		return nil
	}
	// ---- runtime
	if vm == nil || got.Err == nil || got.Err.Kind == "syntax" || got.Err.Kind == "io" || got.Err.Kind == "semantic" {
		return fail("mismatch", "error-class", "a runtime error / uncaught exception", fmt.Sprintf("%+v\n%s", got.Err, rep))
	}
	want := pr.Chain
	expS, obs := c18ChainStr(want), c18EntriesStr(entries)
	if p.Mode == "imp" && len(entries) == len(want)-1 {
		// an import is not a call: a report without an entry for the importing module is accepted
		want = want[1:]
	}
	if len(entries) > len(want) {
		return fail("mismatch", "chain-extra-entries", expS, obs)
	}
	if len(entries) < len(want) {
		return fail("mismatch", "chain-missing-entries", expS, obs)
	}
	cmp := func(rev bool) (string, int) {
		for i := range want {
			e := entries[i]
			if rev {
				e = entries[len(entries)-1-i]
			}
			w := want[i]
			which := "call-site"
			if i == len(want)-1 {
				which = "innermost"
			}
			if e.Native || e.Mod != w.Mod {
				return which + "-module", i
			}
			if e.Line != w.Line {
				return which + "-line", i
			}
		}
		for i := range want {
			e := entries[i]
			if rev {
				e = entries[len(entries)-1-i]
			}
			// every entry quotes the line it names (an entry without a quoted line names no place
			// a reader can look at), and the quoted line is that line
			if (!e.HasText && !e.Native) || (e.HasText && e.Text != want[i].Text) {
				return "quoted-text", i
			}
		}
		return "", -1
	}
	b1, at := cmp(false)
	if b1 == "" {
		return nil
	}
	b2, _ := cmp(true)
	if b2 == "" {
		return nil
	}
	sigAt, sigObs, sigWant = at, entries[at].Line, want[at].Line
	return fail("mismatch", b1, expS, obs)
}

// c18Sig: stable signatures.  A signature is a deterministic predicate over the
// case and the failing part of the report; anything else stays unclassified.
func c18Sig(p c18Params, bucket string, at, obs, want int) string {
	switch {
	case p.Mode == "wid" && bucket == "syntax-caret" && p.Rune >= 0x4DB6 && p.Rune <= 0x4DBF && obs == want-1:
		// the printer's width table predates Unicode 13: these ten ideographs count as narrow
		return "caret-width-table"
	case p.Mode == "imp" && bucket == "call-site-line" && at == 0 && obs == 1:
		// the importing module's entry carries line 1 whatever line the 导入 statement is on
		return "import-line-not-tracked"
	case p.Mode == "run" && p.Tmpl == 5 && bucket == "innermost-line" && obs == want+2:
		// a loop condition that faults on a later evaluation is attributed to the last statement of the loop body
		return "loop-condition-later-pass"
	case p.Mode == "syn" && p.Kind == c18SynDeeper && bucket == "syntax-line" && obs < want:
		// an unexpectedly deeper line is reported at the last token of the statement before it
		return "unexpected-indent-reported-at-previous-token"
	}
	return ""
}

// ---------------------------------------------------------------- enumeration

// c18Enumerate calls visit for every case of the tier, in a fixed order.
func c18Enumerate(tier string, visit func(p c18Params)) {
	thorough := tier == "thorough"
	singles := c18QuickCtx
	if thorough {
		singles = c18ThoroughCtx
	}
	type ctxChoice struct {
		ctx []int
		pos int
	}
	// context choices for a slot at indent ind in a file; top = top-of-file placement allowed
	ctxChoices := func(slotInd int, top bool, stmtOK bool) []ctxChoice {
		out := []ctxChoice{{nil, 0}}
		for _, id := range singles {
			c := c18Ctxs[id]
			if c.stmt && !stmtOK {
				continue
			}
			if !c.joined || slotInd == 0 {
				out = append(out, ctxChoice{[]int{id}, 0})
			}
			if top && !c.joined && (thorough || id == 1 || id == 3 || id == 6) {
				out = append(out, ctxChoice{[]int{id}, 1})
			}
		}
		if thorough {
			for _, a := range c18PairCtx {
				for _, b := range c18PairCtx {
					out = append(out, ctxChoice{[]int{a, b}, 0})
					if top {
						out = append(out, ctxChoice{[]int{a, b}, 2})
					}
				}
			}
		}
		return out
	}

	// ---- syntax faults
	for mod := 0; mod <= 1; mod++ {
		for kind := 0; kind < c18SynKinds; kind++ {
			for ti := 0; ti <= 4; ti++ {
				slots := c18Slots(ti)
				for si, s := range slots {
					lastGap := s.gap == len(c18Tmpls[ti])
					var prefixes []int
					switch kind {
					case c18SynBang, c18SynBadChar, c18SynBadWide:
						for i := range c18Prefixes {
							if mod == 1 && !thorough && i != 0 && i != 2 && i != 3 && i != 8 {
								continue // the imported file goes through the same scanner: a subset of the prefixes in the quick tier
							}
							prefixes = append(prefixes, i)
						}
					case c18SynUnterminated:
						if !lastGap {
							continue // the literal would swallow the rest: keep the two candidate positions on known lines
						}
						prefixes = []int{0, 1, 2, 3}
					case c18SynIndentSpaces:
						prefixes = []int{0}
						if s.ind >= 1 {
							prefixes = []int{0, 1}
						}
					case c18SynIndentTab:
						if s.ind < 1 || !s.indented {
							continue
						}
						prefixes = []int{0}
					case c18SynDeeper:
						if !s.deepest || s.gap == 0 {
							// one level deeper would just continue the block that ended above; a program
							// may start indented, so on the first line the offender would be ambiguous
							continue
						}
						prefixes = []int{0}
					}
					inLine := kind <= c18SynUnterminated
					for _, cc := range ctxChoices(s.ind, thorough, true) {
						if !inLine && len(cc.ctx) > 0 && c18Ctxs[cc.ctx[len(cc.ctx)-1]].joined && cc.pos != 1 {
							continue // an indentation fault needs its own line
						}
						for eol := 0; eol < 3; eol++ {
							for _, pf := range prefixes {
								trails := []bool{false}
								if lastGap && (kind <= c18SynUnterminated) {
									trails = []bool{false, true}
								}
								for _, nt := range trails {
									visit(c18Params{Mode: "syn", Kind: kind, Tmpl: ti, Slot: si, Ctx: cc.ctx, CtxPos: cc.pos, EOL: eol, Prefix: pf, Mod: mod, NoTrail: nt})
								}
							}
						}
					}
				}
			}
		}
	}

	// ---- runtime faults
	maxD := 3
	type dm struct{ d, m int }
	var dms []dm
	for d := 0; d <= maxD; d++ {
		dms = append(dms, dm{d, 0})
		if d >= 1 {
			dms = append(dms, dm{d, 1})
		}
		if d >= 2 {
			dms = append(dms, dm{d, 2})
		}
	}
	sites := []int{0}
	if thorough {
		sites = []int{0, 1, 2, 3, 4, 5, 6}
	}
	for ti := 0; ti <= 6; ti++ {
		slots := c18Slots(ti)
		kinds := len(c18RunFaults)
		if ti == 5 {
			kinds = len(c18CondFaults)
		}
		for si, s := range slots {
			if s.st == 0 {
				continue
			}
			if ti == 6 && s.via < 0 {
				continue // in the body itself the fault would be caught by the template's own handler
			}
			lastGap := s.gap == len(c18Tmpls[ti]) && s.via < 0 && ti != 5
			for kind := 0; kind < kinds; kind++ {
				for _, x := range dms {
					slotInd := s.ind
					if x.d >= 1 {
						slotInd++
					}
					for _, cc := range ctxChoices(slotInd, true, true) {
						for eol := 0; eol < 3; eol++ {
							for h := 0; h <= 2; h++ {
								for _, site := range sites {
									if site > 0 && (x.d == 0 || len(cc.ctx) > 1) {
										continue // uniform call-site forms: with at most one context item
									}
									trails := []bool{false}
									if lastGap && (x.d == 0 || x.m >= 1) {
										trails = []bool{false, true}
									}
									for _, nt := range trails {
										visit(c18Params{Mode: "run", Kind: kind, Tmpl: ti, Slot: si, Ctx: cc.ctx, CtxPos: cc.pos, EOL: eol, Depth: x.d, Mod: x.m, Handled: h, Site: site, NoTrail: nt})
									}
									// every method on the way (and the program) handles ANOTHER exception class
									if x.d >= 1 && len(cc.ctx) == 0 && site == 0 {
										visit(c18Params{Mode: "run", Kind: kind, Tmpl: ti, Slot: si, EOL: eol, Depth: x.d, Mod: x.m, Handled: h, Other: 1})
										// an imported module exports methods named like the program's own methods
										if h == 0 {
											visit(c18Params{Mode: "run", Kind: kind, Tmpl: ti, Slot: si, EOL: eol, Depth: x.d, Mod: x.m, Other: 2})
											// ... and exports a TYPE named like the program's own type, whose constructor
											// is the outermost call (only where level 1 lives in the main file)
											if x.m == 0 || (x.m == 1 && x.d >= 2) || (x.m == 2 && x.d >= 3) {
												visit(c18Params{Mode: "run", Kind: kind, Tmpl: ti, Slot: si, EOL: eol, Depth: x.d, Mod: x.m, Other: 5})
											}
										}
									}
									// calls that have returned and whose last statement sat on the line number of the
									// statement that follows them (in another module): before the fault, before every call
									if len(cc.ctx) == 0 && site == 0 && h != 2 {
										visit(c18Params{Mode: "run", Kind: kind, Tmpl: ti, Slot: si, EOL: eol, Depth: x.d, Mod: x.m, Handled: h, Other: 3})
										visit(c18Params{Mode: "run", Kind: kind, Tmpl: ti, Slot: si, EOL: eol, Depth: x.d, Mod: x.m, Handled: h, Other: 4})
									}
								}
							}
						}
					}
				}
			}
		}
	}

	// ---- faults met while a module is being imported
	for _, ti := range []int{0, 4} {
		for si, s := range c18Slots(ti) {
			if s.st == 0 {
				continue
			}
			for kind := range c18RunFaults {
				for eol := 0; eol < 3; eol++ {
					// contexts before the fault line in 外
					for _, cc := range ctxChoices(s.ind, false, true) {
						visit(c18Params{Mode: "imp", Kind: kind, Tmpl: ti, Slot: si, Ctx: cc.ctx, CtxPos: 0, EOL: eol})
					}
					// contexts before the 导入 line in main (comments and blank lines only)
					for _, id := range singles {
						c := c18Ctxs[id]
						if c.stmt || c.joined {
							continue
						}
						visit(c18Params{Mode: "imp", Kind: kind, Tmpl: ti, Slot: si, Ctx: []int{id}, CtxPos: 1, EOL: eol})
						for _, id2 := range singles {
							if c2 := c18Ctxs[id2]; !c2.joined || s.ind == 0 {
								visit(c18Params{Mode: "imp", Kind: kind, Tmpl: ti, Slot: si, Ctx: []int{id, id2}, CtxPos: 2, EOL: eol})
							}
						}
					}
				}
			}
		}
	}

	// ---- caret column after every character of the unambiguous-width alphabet
	for r := rune(0x20); r <= 0xFFE6; r++ {
		if c18Width(r) < 0 {
			continue
		}
		switch r {
		case '`', '「', '」', '『', '』', '《', '》':
			continue // would change the literal's structure
		}
		visit(c18Params{Mode: "wid", Rune: int(r)})
	}
}

func c18Nontrivial(p c18Params) bool {
	return len(p.Ctx) > 0 || p.EOL != 0 || p.Depth > 0 || p.Prefix > 0 || p.Mode == "wid" || p.Mode == "imp"
}

func c18Stats(c *mc.Ctx, p c18Params) {
	c.Stat("cases_mode_"+p.Mode, 1)
	switch p.Mode {
	case "syn":
		c.Stat("syntax_kind_"+c18SynNames[p.Kind], 1)
		c.Stat("syntax_template_"+c18TmplNames[p.Tmpl], 1)
		c.Stat("syntax_line_end_"+c18EOLNames[p.EOL], 1)
		if p.Mod == 1 {
			c.Stat("syntax_fault_in_imported_module", 1)
		}
		if p.Kind <= c18SynBadWide {
			c.Stat(fmt.Sprintf("syntax_prefix_%d", p.Prefix), 1)
		}
	case "run":
		if p.Tmpl == 5 {
			c.Stat("runtime_kind_loop_condition_"+c18CondFaultNames[p.Kind], 1)
		} else {
			c.Stat("runtime_kind_"+c18RunFaultNames[p.Kind], 1)
		}
		c.Stat("runtime_template_"+c18TmplNames[p.Tmpl], 1)
		c.Stat("runtime_line_end_"+c18EOLNames[p.EOL], 1)
		c.Stat(fmt.Sprintf("runtime_call_depth_%d", p.Depth), 1)
		c.Stat(fmt.Sprintf("runtime_module_boundary_%d", p.Mod), 1)
		c.Stat(fmt.Sprintf("runtime_handled_earlier_%d", p.Handled), 1)
	}
	if p.Mode != "wid" {
		if len(p.Ctx) == 0 {
			c.Stat("context_none", 1)
		}
		for _, id := range p.Ctx {
			c.Stat("context_"+c18Ctxs[id].name, 1)
		}
		if p.NoTrail {
			c.Stat("fault_on_last_line_without_line_end", 1)
		}
	}
}

func init() {
	mc.Register(&mc.Check{
		ID:    "C18",
		Level: "exploration",
		Rule: "E1 exhaustive over the fault-placement product; programs are generated as text with one fault at a generator-known (module, physical line, column, call chain). " +
			"Syntax faults {stray ！, invalid character ~ / ～, unterminated string, indentation of 4k+3 / 4k-1 spaces, TAB indent in a space-indented file, unexpected deeper indent} x file {main, imported module 外} x every statement slot (every gap and every admissible indent) of 5 template programs {sequence, 如果/否则, 每当, 遍历+如果, around a method definition} x context before the fault line {none, 3-line string literal, /* */ over 2 and 3 lines, 注：「」 over 2 lines, 1-2 blank lines, // comment, comment ending on the fault's own line, an empty 注： comment, 2-line string literal whose first line ends with a backtick that opens no escape; thorough: more forms, ordered pairs, top-of-file placement} x line end {LF, CRLF, CR} x 10 prefixes before the offending character (ASCII, CJK, full-width punctuation, in-line comment, multi-line literal ending on the line) x last line with / without line end. " +
			"Runtime faults {1 / 0, undefined name, uncaught 抛出异常, index out of range, a method that the object's type does not have; loop condition faulting on its second evaluation} x every slot that executes (straight, first loop pass, or inside a finished-later call of a local method) x context (before the fault / top of file) x line end x call depth 0..3 (call sites: declaration, inside 如果, inside 遍历; thorough: 6 uniform forms) x module boundary {none, innermost method in 外, two innermost in 外} x handled exception earlier {no, in main, right before the fault}; every method on the way handling another exception class; an imported module that exports methods named like the program's own methods. " +
			"Faults met while 外 is being imported x contexts before the 导入 line. Caret column after every character of the unambiguous-width alphabet. Oracle: positions known to the generator; widths from an embedded East-Asian-width table. Cases are distinct by construction (injective parameters); non-trivial = anything beyond a bare LF depth-0 program without context or prefix.",
		Assumptions: []string{
			"the report's order of entries is not fixed by the statement: the chain is accepted outermost-first or innermost-first",
			"a frame's line is the line of the statement executing in that frame: the call-site line for outer frames; every faulting statement and call site occupies one physical line (faults inside multi-line statements, 再如 conditions, handlers and argument-count mismatches are not generated)",
			"only characters of unambiguous East Asian width are placed before the offending character (ASCII, half-width kana = 1; CJK ideographs U+3400-4DBF/U+4E00-9FFF, CJK punctuation, kana, Hangul, full-width forms = 2); “ ” (ambiguous) appear only where either width is accepted; compatibility ideographs and supplementary planes are not covered",
			"unterminated string: the offending character is taken to be either the opening quote or the end of input; both are accepted and the literal is placed last so that both lie on known lines",
			"a trailing NUL that the printer appends to the quoted line when the fault is on the last line without a line end is ignored (observation, not part of the statement)",
			"line ends are uniform per file (LF, CRLF or CR); LFCR and mixed line ends are not covered",
			"for a fault met during an import the importing module's entry may be absent (an import is not a call); if present it must carry the 导入 line",
			"message wording and error codes are not compared; only syntax vs runtime class",
		},
		Budget: func(tier string) time.Duration {
			if tier == "thorough" {
				return 25 * time.Minute
			}
			return 240 * time.Second
		},
		Run: func(c *mc.Ctx) {
			defer c18Cleanup()
			debug.SetGCPercent(400) // every program builds a fresh interpreter; collect less often
			idx := int64(-1)
			stop := false
			samples := map[string]bool{}
			c18Enumerate(c.Tier, func(p c18Params) {
				idx++
				if stop || !c.Mine(idx) {
					return
				}
				if idx&0x3FF == int64(c.Shard) && c.Expired() {
					c.Note("deadline hit")
					stop = true
					return
				}
				pp := p
				c.Case(idx, func() json.RawMessage { return mc.J(c18Case{P: pp}) })
				f := c18Check(p)
				c.Eval(c18Nontrivial(p))
				c18Stats(c, p)
				if f != nil {
					c.Fail(*f)
				} else if c.Shard == 0 && !samples[p.Mode] && c.WantSample() && len(p.Ctx) > 0 && p.EOL == 0 && (p.Mode != "run" || (p.Depth == 2 && p.Mod == 1 && p.Handled == 1)) {
					samples[p.Mode] = true
					pr := c18Build(p)
					var e any = pr.Chain
					if p.Mode == "syn" {
						e = pr.Syn
					}
					c.Sample(map[string]any{"params": p, "source": pr.Main, "module_source": pr.Ext, "expected": e})
				}
			})
			if !stop {
				c.Bound("call_depth", 3)
				c.Bound("templates", len(c18Tmpls))
				c.Bound("line_ends", "LF CRLF CR")
				c.Bound("product", "complete")
			}
		},
		Replay: func(c *mc.Ctx, raw json.RawMessage) {
			defer c18Cleanup()
			var cs c18Case
			if err := json.Unmarshal(raw, &cs); err != nil {
				c.Fail(mc.Failure{Kind: "crash", Observed: "bad replay case: " + err.Error()})
				return
			}
			if f := c18Check(cs.P); f != nil {
				c.Fail(*f)
			}
		},
	})
}
